//! E4 — compile-fail witnesses (type-level remainder of C01, C10, C11, C15).
//! Every `compile_fail,E0xxx` block has a compiling twin that differs only in the offending line, so that a witness which
//! fails to compile for the wrong reason is detected.  Run with `cargo +nightly test --doc` (error codes are honoured on
//! nightly only).  The runner is rules/witness.py.

/// C10: a term *reference* obtained from an index cannot outlive the index.
/// ```compile_fail,E0597
/// use sophia_inmem::index::{SimpleTermIndex, TermIndex};
/// use sophia_api::term::Term;
/// let t = {
///     let mut idx = SimpleTermIndex::<u32>::new();
///     let i = idx.ensure_index("a").unwrap();
///     idx.get_term(i)                       // borrowed from `idx`
/// };
/// println!("{:?}", t.lexical_form());
/// ```
pub mod c10_ref_escape {}

/// twin of `c10_ref_escape`: same code, term used inside the scope.
/// ```
/// use sophia_inmem::index::{SimpleTermIndex, TermIndex};
/// use sophia_api::term::Term;
/// let t = {
///     let mut idx = SimpleTermIndex::<u32>::new();
///     let i = idx.ensure_index("a").unwrap();
///     idx.get_term(i).lexical_form().map(|l| l.to_string())
/// };
/// println!("{:?}", t);
/// ```
pub mod c10_ref_escape_twin {}

/// C10 (known finding): a *clone* of a term borrowed from an index must not outlive the index either — its strings point into
/// the index's keys.  Today this compiles, because `get_term` hands out `&SimpleTerm<'static>` whose `Clone` copies the
/// laundered `'static` borrow.
/// ```compile_fail
/// use sophia_inmem::index::{SimpleTermIndex, TermIndex};
/// use sophia_api::term::{SimpleTerm, Term};
/// let t: SimpleTerm<'static> = {
///     let mut idx = SimpleTermIndex::<u32>::new();
///     let i = idx.ensure_index("a").unwrap();
///     idx.get_term(i).clone()               // escapes with a dangling borrow
/// };
/// println!("{:?}", t.lexical_form());
/// ```
pub mod c10_clone_escape {}

/// C01: a vector of quads is a list, not a set: it does not implement `SetDataset`.
/// ```compile_fail,E0277
/// use sophia_api::dataset::SetDataset;
/// use sophia_api::term::SimpleTerm;
/// fn need_set<D: SetDataset>(_: &D) {}
/// let v: Vec<([SimpleTerm<'static>; 3], Option<SimpleTerm<'static>>)> = vec![];
/// need_set(&v);
/// ```
pub mod c01_vec_is_not_a_set {}

/// twin: a hash set of quads is a `SetDataset`.
/// ```
/// use sophia_api::dataset::SetDataset;
/// use sophia_api::term::SimpleTerm;
/// fn need_set<D: SetDataset>(_: &D) {}
/// let v: std::collections::HashSet<([SimpleTerm<'static>; 3], Option<SimpleTerm<'static>>)> = Default::default();
/// need_set(&v);
/// ```
pub mod c01_vec_is_not_a_set_twin {}

/// C11: a mutable graph view holds the `&mut` borrow of the dataset: two live mutable views are rejected.
/// ```compile_fail,E0499
/// use sophia_api::prelude::*;
/// use sophia_api::term::SimpleTerm;
/// let mut d: Vec<([SimpleTerm<'static>; 3], Option<SimpleTerm<'static>>)> = vec![];
/// let mut g1 = d.graph_mut(None::<SimpleTerm>);
/// let mut g2 = d.graph_mut(None::<SimpleTerm>);
/// g1.insert(Iri::new_unchecked("x:s"), Iri::new_unchecked("x:p"), Iri::new_unchecked("x:o")).unwrap();
/// g2.insert(Iri::new_unchecked("x:s"), Iri::new_unchecked("x:p"), Iri::new_unchecked("x:o")).unwrap();
/// ```
pub mod c11_two_mutable_views {}

/// twin: sequential views are fine.
/// ```
/// use sophia_api::prelude::*;
/// use sophia_api::term::SimpleTerm;
/// let mut d: Vec<([SimpleTerm<'static>; 3], Option<SimpleTerm<'static>>)> = vec![];
/// let mut g1 = d.graph_mut(None::<SimpleTerm>);
/// g1.insert(Iri::new_unchecked("x:s"), Iri::new_unchecked("x:p"), Iri::new_unchecked("x:o")).unwrap();
/// let mut g2 = d.graph_mut(None::<SimpleTerm>);
/// g2.insert(Iri::new_unchecked("x:s"), Iri::new_unchecked("x:p"), Iri::new_unchecked("x:o")).unwrap();
/// ```
pub mod c11_two_mutable_views_twin {}

/// C15: in a generic adapter the sink's error cannot be reported as a source error: the two are distinct type parameters.
/// ```compile_fail,E0308
/// use sophia_api::source::{Source, StreamError, StreamResult};
/// fn drive<S: Source, E: std::error::Error + Send + Sync + 'static>(s: &mut S, sink_err: E) -> StreamResult<bool, S::Error, E> {
///     let _ = s;
///     Err(StreamError::SourceError(sink_err))        // wrong side
/// }
/// ```
pub mod c15_blame_is_typed {}

/// twin: reported on the right side.
/// ```
/// use sophia_api::source::{Source, StreamError, StreamResult};
/// fn drive<S: Source, E: std::error::Error + Send + Sync + 'static>(s: &mut S, sink_err: E) -> StreamResult<bool, S::Error, E> {
///     let _ = s;
///     Err(StreamError::SinkError(sink_err))
/// }
/// ```
pub mod c15_blame_is_typed_twin {}
