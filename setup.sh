#!/bin/bash
# Build the verification framework from files on disk only (offline).
set -e
cd "$(dirname "$0")"
export CARGO_NET_OFFLINE=true
(cd driver && cargo build --release --offline 2>&1 | tail -2)
(cd relang && cargo build --release --offline 2>&1 | tail -2)
mkdir -p .cache evidence reports
test -x driver/target/release/sophia-facts-driver
test -x relang/target/release/relang
echo "setup ok"
