#!/usr/bin/env python3
"""Self-test, the other way: behaviour-preserving refactorings of the anchor code must NOT raise an alarm.
 usage: run_benign.py [--tier quick|thorough] [ids...]       (ids like B12 or B12/3)
Each variant under /verif/seeded/benign/<Bxx>/<k>/patch.diff is applied to a scratch worktree of /repo's HEAD; ALL
registered checks run with VERIF_REPO pointing at it; any violation key that the unpatched tree does not produce is a
false alarm.  Results: /verif/seeded/BENIGN_RESULTS.json"""
import glob, json, os, re, subprocess, sys
VERIF = "/verif"
SLOT = os.environ.get("RUN_SLOT", "")
WT = "/tmp/mut/benign" + SLOT

def sh(cmd, cwd=None, env=None):
    r = subprocess.run(cmd, shell=True, cwd=cwd, env=env, stdout=subprocess.PIPE, stderr=subprocess.STDOUT, text=True)
    return r.returncode, r.stdout

def run_check(prop, tier):
    env = dict(os.environ, VERIF_REPO=WT, VERIF_OUT="/tmp/mut/out_benign" + SLOT, VERIF_FACTS_KEEP="12")
    rc, out = sh("./check %s --tier %s" % (prop, tier), cwd=VERIF, env=env)
    keys = set(re.findall(r"rule=\S+ key=(.*?)(?: at \S+)?$", out, re.M))
    return rc, keys, out

def main():
    args = [a for a in sys.argv[1:] if not a.startswith("--")]
    tier = "quick"
    if "--tier" in sys.argv:
        tier = sys.argv[sys.argv.index("--tier") + 1]
        args = [a for a in args if a != tier]
    os.makedirs("/tmp/mut", exist_ok=True)
    head = sh("git -C /repo rev-parse HEAD")[1].strip()
    if not os.path.isdir(WT):
        sh("git -C /repo worktree add --detach %s %s" % (WT, head))
    sh("git checkout -q --detach %s && git checkout -q -- . && git clean -qfd" % head, cwd=WT)
    props = [c["property_id"] for c in json.load(open(os.path.join(VERIF, "MANIFEST.json")))["checks"]]
    base = {p: run_check(p, tier)[1] for p in props}
    res_path = os.path.join(VERIF, "seeded", "BENIGN_RESULTS%s.json" % SLOT)
    results = json.load(open(res_path)) if os.path.exists(res_path) else {}
    for d in sorted(glob.glob(os.path.join(VERIF, "seeded", "benign", "B*", "[0-9]*"))):
        tag = "/".join(d.split("/")[-2:])
        if args and tag not in args and tag.split("/")[0] not in args:
            continue
        sh("git checkout -q -- . && git clean -qfd", cwd=WT)
        rc, o = sh("git apply %s" % os.path.join(d, "patch.diff"), cwd=WT)
        if rc != 0:
            results[tag] = dict(error="patch does not apply: " + o[-200:]); print(tag, "DOES NOT APPLY"); continue
        r = dict(tier=tier, false_alarms={})
        for p in props:
            rc, keys, out = run_check(p, tier)
            new = sorted(keys - base[p])
            if new or (rc != 0 and not keys):
                r["false_alarms"][p] = new or ["exit %d: %s" % (rc, out[-300:])]
        results[tag] = r
        print(tag, "silent" if not r["false_alarms"] else "FALSE ALARM %s" % json.dumps(r["false_alarms"])[:600], flush=True)
        json.dump(results, open(res_path, "w"), indent=1, sort_keys=True)
    sh("git checkout -q -- . && git clean -qfd", cwd=WT)
main()
