#!/usr/bin/env python3
"""One-off cross-reference (not a check): do the panic-related opt-in clippy lints see a site, inside the scopes audited by
the panic audits, that the audit engine does not enumerate?   usage: clippy_xref.py <clippy log>
(log produced by: cargo +nightly clippy --workspace --offline -- -W clippy::unwrap_used -W clippy::expect_used
 -W clippy::indexing_slicing -W clippy::panic -W clippy::unimplemented -W clippy::string_slice ...)"""
import re, sys, os, json
sys.path.insert(0, os.path.join(os.path.dirname(os.path.dirname(os.path.abspath(__file__))), "rules"))
import core, panics
LINTS = ("unwrap_used", "expect_used", "indexing_slicing", "panic", "unimplemented", "string_slice", "unreachable", "todo")
log = open(sys.argv[1]).read()
hits = []
MSG = [(r"used `unwrap\(\)`|used `unwrap_err", "unwrap_used"), (r"used `expect\(\)`|used `expect_err", "expect_used"),
       (r"indexing may panic|slicing may panic", "indexing_slicing"), (r"indexing into a string may panic", "string_slice"),
       (r"`panic` should not be present", "panic"), (r"`unimplemented` should not be present", "unimplemented"),
       (r"`unreachable", "unreachable"), (r"`todo` should not", "todo")]
for m in re.finditer(r"^warning: (.*)\n\s+--> ([^\s:]+):(\d+):\d+", log, re.M):
    for pat, lint in MSG:
        if re.search(pat, m.group(1)):
            hits.append((m.group(2), int(m.group(3)), lint))
hits = sorted(set(hits))
facts = core.Facts(core.facts_dir("lib"))
SCOPES = {
    "C06": r"c14n/src/(rdfc10|_cnq|_permutations|hash)\.rs$",
    "C08": r"rio/src/(model|parser)\.rs$|jsonld/src/(vocabulary|parser)|turtle/src/parser|xml/src/parser",
    "C12": r"jsonld/src/(serializer|util_traits)",
    "C13/C14": r"sparql/src/(wrapper|exec|bgp|binding|matcher|stash|term)",
}
sites = {}
for fn in facts.fns.values():
    for s in panics.sites_of(fn):
        f, _, l = (s.loc or "").rpartition(":")
        if l.isdigit():
            sites.setdefault((f, int(l)), []).append(s.key)
report = {}
for scope, pat in SCOPES.items():
    inscope = [h for h in hits if re.search(pat, h[0])]
    unseen = [h for h in inscope if (h[0], h[1]) not in sites]
    report[scope] = dict(clippy_hits=len(inscope), not_enumerated_by_audit=["%s:%d (%s)" % h for h in unseen])
print(json.dumps(report, indent=1))
