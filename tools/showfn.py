#!/usr/bin/env python3
"""debug helper: print the MIR-lite of functions whose pretty name matches a regex"""
import sys, os, json, re, glob
sys.path.insert(0, os.path.join(os.path.dirname(os.path.dirname(os.path.abspath(__file__))), "rules"))
import core
def brief(x):
    return json.dumps(x)
def main():
    pat = sys.argv[1]
    mode = sys.argv[2] if len(sys.argv) > 2 else "lib"
    facts = core.Facts(core.facts_dir(mode), want_tests=(mode=="all"))
    for fn in sorted(facts.fns.values(), key=lambda f: f.id):
        if re.search(pat, fn.name) or re.search(pat, fn.id):
            print("=" * 100)
            print(fn.id, "|", fn.name, "|", fn.loc, "| argc", fn.argc)
            print("locals:", {i: (l.get("name"), l["ty"][:60]) for i, l in enumerate(fn.locals) if l.get("name") or i <= fn.argc})
            for i, b in enumerate(fn.blocks):
                if b.get("cleanup"): continue
                print("bb%d:" % i)
                for s in b["s"]:
                    if s[0] == "dead": continue
                    print("    ", brief(s)[:260])
                t = dict(b["t"])
                if t["t"] == "call":
                    f = t["f"]
                    nm = f.get("res_name") or f.get("name") or "<ptr>"
                    print("    CALL %s(%s) -> %s  to bb%s  [%s:%s %s]" % (nm, brief(t["args"])[:200], t["dest"], t["to"], t["file"], t["line"], ",".join(t["exp"])))
                else:
                    print("    ", brief(t)[:260])
main()
