#!/usr/bin/env python3
"""Third round of seeds: the reverse of each `fix:` commit of the hunt round re-introduces a *real* defect, with the hunter's
failing demonstration.  For each commit: `git revert --no-commit` on a scratch worktree of HEAD -> patch.diff (against HEAD),
demo.rs and meta.json (round 3) under /verif/seeded/<Cxx>/<k>/."""
import json, os, subprocess, shutil, glob, sys
WT = "/tmp/mut/manual"
MAP = [  # (commit, property, hunt dir, note)
    ("f90e0e3", "C01", "C01/1", ""), ("70ac9a3", "C01", "C01/2", ""), ("b37df64", "C02", "C02/1", ""),
    ("c8f788c", "C06", "C06/1", ""), ("f8bc5ba", "C06", "C06/2", ""), ("5c4c81a", "C06", "C06/5", ""),
    ("878f63e", "C09", "C09/2", ""), ("f0192d7", "C07", "C07/1", ""), ("b6485ed", "C07", "C07/2", ""), ("49a072a", "C07", "C07/3", ""),
    ("2cdda97", "C13", "C13/6", ""), ("252d6cc", "C13", "C13/12", ""), ("e69d9a5", "C14", "C14/1", ""), ("13c0e5b", "C14", "C14/2", ""),
    ("c9ae747", "C13", "C13/8", ""), ("044d1f5", "C13", "C13/4", ""), ("5e12bc5", "C13", "C13/1", ""),
    ("b99fdd2", "C04", "C04/1", ""), ("5b87013", "C04", "C04/2", ""), ("447d4a5", "C04", "C04/3", ""),
    ("f8c44a5", "C15", "C15/1", ""), ("f51d241", "C15", "C15/2", ""), ("24ce837", "C15", "C15/5", ""),
    ("208706c", "C12", "C12/1", "demo needs `--features jsonld` in crate sophia"), ("f32514d", "C12", "C12/2", "demo needs `--features jsonld` in crate sophia"),
    ("63736d6", "C20", "C20/1", ""), ("c2aa0e2", "C10", "C10/1", "demo must run with --release (debug builds hit the debug_assert first)"),
    ("1022e6e", "C13", "../hunt2/C13/2", ""), ("101eae2", "C13", "../hunt2/C13/3", ""),
    ("f0ec305", "C12", "../hunt2/C12/6", "demo needs `--features jsonld` in crate sophia"), ("de7209f", "C12", "../hunt2/C12/1", "demo needs `--features jsonld` in crate sophia"),
    ("27785fa", "C06", "../hunt2/C06/1", ""), ("439a801", "C06", "../hunt2/C06/2", ""),
    ("0f910ee", "C02", "../hunt2/C01/1", ""), ("282c9f2", "C01", "../hunt2/C01/2", ""), ("2605078", "C02", "../hunt2/C02/1", ""),
    ("1962b55", "C02", "../hunt2/C02/2", "demo aborts the process (SIGABRT) with the patch: run with -- --test-threads 1"),
    ("9de8449", "C15", "../hunt2/C15/1", ""), ("28a8762", "C15", "../hunt2/C15/2", ""), ("cca14e6", "C14", "../hunt2/C14/3", ""),
    ("f624311", "C08", "../hunt2/C08/2", ""), ("07c787b", "C08", "../hunt2/C08/1", ""),
    ("dddade8", "C15", "../hunt3/C15/1", ""), ("363eb96", "C15", "../hunt3/C15/2", ""), ("6e74526", "C13", "../hunt3/C13/4", ""),
    ("67cc682", "C12", "../hunt3/C12/1", "demo needs `--features jsonld` in crate sophia"),
    ("1922a30", "C14", "../hunt3/C14/1", ""),
    ("99d9ba8", "C20", "../hunt3/C20/1", ""), ("5c970bc", "C05", "../hunt3/C06/1", "the demonstration is probabilistic (HashSet order): it runs the canonicalisation several times"),
    ("f0e1e9d", "C08", "../hunt3/C02/1", ""), ("c8771cf", "C08", "../hunt3/C02/3", ""),
    ("d73c37f", "C16", "../hunt3/C16/1", "the demonstration re-runs itself in a child process on a 2 MiB stack"),
]

def sh(cmd, cwd=WT):
    r = subprocess.run(cmd, shell=True, cwd=cwd, stdout=subprocess.PIPE, stderr=subprocess.STDOUT, text=True)
    return r.returncode, r.stdout

head = sh("git -C /repo rev-parse HEAD")[1].strip()
sh("git reset -q --hard && git clean -qfd && git checkout -q --detach %s" % head)
for sha, prop, hunt, note in MAP:
    hd = os.path.join("/verif/findings/hunt", hunt)
    existing = [d for d in glob.glob("/verif/seeded/%s/[0-9]*" % prop)]
    already = [d for d in existing if os.path.exists(os.path.join(d, "meta.json")) and json.load(open(os.path.join(d, "meta.json"))).get("reverse_of") == sha]
    if already:
        print("exists", sha, already[0]); continue
    k = max([int(os.path.basename(d)) for d in existing] + [0]) + 1
    rc, o = sh("git revert --no-commit %s" % sha)
    if rc != 0:
        sh("git revert --abort; git reset -q --hard")
        print("CONFLICT", sha, prop, hunt); continue
    rc, diff = sh("git diff HEAD")
    sh("git revert --abort; git reset -q --hard")
    d = "/verif/seeded/%s/%d" % (prop, k)
    os.makedirs(d)
    open(os.path.join(d, "patch.diff"), "w").write(diff)
    shutil.copy(os.path.join(hd, "demo.rs"), os.path.join(d, "demo.rs"))
    hm = json.load(open(os.path.join(hd, "meta.json")))
    subj = sh("git -C /repo log -1 --format=%%s %s" % sha)[1].strip()
    meta = dict(property=prop, round=3, reverse_of=sha, title="re-introduces a repaired defect: reverse of `%s`" % subj,
                files_changed=sorted({l[6:] for l in diff.splitlines() if l.startswith("+++ b/")}),
                what_breaks=hm.get("what_is_wrong", ""), needs_to_manifest=hm.get("input", ""), demo=hm.get("demo"),
                origin="hunt round: findings/hunt/%s (the hunter's demonstration fails on the pre-repair commit and passes after it)" % hunt, note=note)
    json.dump(meta, open(os.path.join(d, "meta.json"), "w"), indent=1)
    print("made", d, sha)
