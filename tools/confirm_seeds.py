#!/usr/bin/env python3
"""Confirms seeded mutations delivered by sub-agents: for each /verif/seeded/_inbox/<id>/<k>:
 builds, whole test-suite passes with the patch, demo fails with it and passes without it. Writes confirm.json."""
import json, os, re, subprocess, sys, glob, shutil, time
INBOX = "/verif/seeded"
HEADMODE = bool(os.environ.get("CONFIRM_HEAD"))
WT = "/tmp/confirm/wt_head" if HEADMODE else "/tmp/confirm/wt"
PINNED = subprocess.run(["git", "-C", "/repo", "rev-parse", "HEAD"], stdout=subprocess.PIPE, text=True).stdout.strip() if HEADMODE else "9f1ceaf"
PATCH = "patch.head.diff" if HEADMODE else "patch.diff"
OUT = "confirm.head.json" if HEADMODE else "confirm.json"
ENV = dict(os.environ, CARGO_TARGET_DIR="/tmp/confirm/target_head" if HEADMODE else "/tmp/confirm/target", CARGO_NET_OFFLINE="true")
J = os.environ.get("CONFIRM_JOBS", "8")

def sh(cmd, timeout=3600):
    r = subprocess.run(cmd, shell=True, cwd=WT, env=ENV, stdout=subprocess.PIPE, stderr=subprocess.STDOUT, text=True, timeout=timeout)
    return r.returncode, r.stdout

def reset():
    sh("git checkout -q -- . && git clean -qfd -e target")

def main():
    only = sys.argv[1:]
    os.makedirs("/tmp/confirm", exist_ok=True)
    if os.path.isdir(WT) and HEADMODE:
        subprocess.run("git checkout -q --detach %s" % PINNED, shell=True, cwd=WT)
    if not os.path.isdir(WT):
        subprocess.run(["git", "-C", "/repo", "worktree", "add", "--detach", WT, PINNED], check=True, stdout=subprocess.DEVNULL, stderr=subprocess.DEVNULL)
    items = sorted(glob.glob(INBOX + "/C*/[0-9]*"))
    for d in items:
        pid = d.split("/")[-2]; k = d.split("/")[-1]
        tag = "%s/%s" % (pid, k)
        if only and pid not in only and tag not in only:
            continue
        out = os.path.join(d, OUT)
        patch_name = PATCH
        if HEADMODE and not os.path.exists(os.path.join(d, PATCH)):
            # round-2 seeds were written against the repaired tree: their patch.diff is the head patch
            try:
                if json.load(open(os.path.join(d, "meta.json"))).get("round") in (2, 3):
                    patch_name = "patch.diff"
                else:
                    continue
            except Exception:
                continue
        if os.path.exists(out):
            continue
        res = dict(id=tag, t0=time.time())
        try:
            meta = json.load(open(os.path.join(d, "meta.json")))
            demo = meta.get("demo") or {}
            crate = demo.get("crate")
            m = re.search(r"([\w./-]+/tests/[\w-]+\.rs)", json.dumps(demo))
            demo_path = m.group(1) if m else None
            if os.path.isdir(os.path.join(d, "demo")):
                res["error"] = "demo is a directory: manual"
            if not crate or not demo_path:
                res["error"] = "cannot locate demo placement"
                json.dump(res, open(out, "w"), indent=1); continue
            name = os.path.basename(demo_path)[:-3]
            extra = demo.get("extra_args", "")
            reset()
            rc, o = sh("git apply %s" % os.path.join(d, patch_name))
            res["apply"] = rc == 0
            if rc != 0:
                res["error"] = "patch does not apply: " + o[-300:]
                json.dump(res, open(out, "w"), indent=1); continue
            rc, o = sh("cargo build --workspace --offline -j %s 2>&1 | tail -5" % J)
            res["build_ok"] = "error" not in o.lower() or "Finished" in o
            rc, o = sh("cargo test --workspace --offline --no-fail-fast -j %s 2>&1 | grep -E '^test result|FAILED|^error' " % J)
            passed = sum(int(x) for x in re.findall(r"test result: \w+\. (\d+) passed", o))
            failed = sum(int(x) for x in re.findall(r"(\d+) failed", o))
            res["suite_passed"] = passed; res["suite_failed"] = failed; res["suite_errors"] = o.count("\nerror")
            os.makedirs(os.path.join(WT, os.path.dirname(demo_path)), exist_ok=True)
            shutil.copy(os.path.join(d, "demo.rs"), os.path.join(WT, demo_path))
            cmd = "cargo test -p %s --test %s --offline -j %s 2>&1 | tail -15" % (crate, name, J)
            rc, o = sh("cargo test -p %s --test %s --offline -j %s %s > /tmp/confirm/demo.out 2>&1; echo RC=$?; tail -12 /tmp/confirm/demo.out" % (crate, name, J, extra))
            res["demo_with_patch_rc"] = int(re.search(r"RC=(\d+)", o).group(1)); res["demo_with_patch_tail"] = o[-600:]
            rc, o2 = sh("git apply -R %s" % os.path.join(d, patch_name))
            rc, o = sh("cargo test -p %s --test %s --offline -j %s %s > /tmp/confirm/demo.out 2>&1; echo RC=$?; tail -5 /tmp/confirm/demo.out" % (crate, name, J, extra))
            res["demo_without_patch_rc"] = int(re.search(r"RC=(\d+)", o).group(1))
            res["confirmed"] = bool(res["build_ok"] and res["suite_failed"] == 0 and res["suite_passed"] > 2000
                                    and res["demo_with_patch_rc"] != 0 and res["demo_without_patch_rc"] == 0)
            res["demo_path"] = demo_path; res["demo_crate"] = crate
        except Exception as e:
            res["error"] = repr(e)
        res["wall_s"] = round(time.time() - res.pop("t0"), 1)
        json.dump(res, open(out, "w"), indent=1)
        print(tag, res.get("confirmed"), res.get("error", ""), res["wall_s"], flush=True)
    reset()
main()
