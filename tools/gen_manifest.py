#!/usr/bin/env python3
"""Generates /verif/MANIFEST.json from the table below (keeps it schema-valid at all times)."""
import json, os, sys
HERE = os.path.dirname(os.path.dirname(os.path.abspath(__file__)))
sys.path.insert(0, os.path.join(HERE, "tools"))
from manifest_table import CHECKS, NOT_APPLICABLE

BASELINE = ("cd /repo && cargo nextest run --workspace --no-fail-fast --tool-config-file pb:/w/lib/nextest.toml "
            "--profile pb --test-threads 8 --offline || cargo test --workspace --no-fail-fast --offline")

m = {
    "version": 1,
    "setup_cmd": "cd /verif && ./setup.sh",
    "hooks": {
        "guard": "sophia_rs_verif",
        "enable": "none needed: static analysis reads the tree as it is; no hook commits exist",
        "baseline_off_cmd": BASELINE,
        "source_commits": [],
        "add_only": True,
    },
    "engines": [
        {"name": "E1 fact driver", "path": "driver/", "serves_properties": sorted(c["id"] for c in CHECKS),
         "kind_free_text": "rustc_private driver (RUSTC_WORKSPACE_WRAPPER under cargo +nightly check): MIR-lite with "
                           "resolved callees, evaluated constants, switch tables, item facts, one json per crate"},
        {"name": "E2 relang", "path": "relang/", "serves_properties": ["C03", "C04", "C08", "C09", "C20"],
         "kind_free_text": "regular-language engine: regex-syntax/regex-automata DFAs of the repository's regex "
                           "literals vs. transcribed normative grammars; product-automaton emptiness with witnesses"},
        {"name": "E3 rules", "path": "rules/", "serves_properties": sorted(c["id"] for c in CHECKS),
         "kind_free_text": "python rule evaluator over the facts: dominators, def-use, must-pass-through, who-may-call, "
                           "table agreement; audited tables; evidence/report/known-findings plumbing"},
    ],
    "checks": [],
    "not_applicable": NOT_APPLICABLE,
    "notes": "All verdicts are computed from /repo's current source (type-checked MIR + constants) without executing "
             "sophia code. Properties are claimed BY CLAUSE as stated in DESIGN.md §4; the behavioural remainder of "
             "each property is explicitly not decided by this technique family.",
}
for c in CHECKS:
    m["checks"].append({
        "property_id": c["id"],
        "quick_cmd": "cd /verif && ./check %s --tier quick" % c["id"],
        "thorough_cmd": "cd /verif && ./check %s --tier thorough" % c["id"],
        "evidence_file": "/verif/evidence/%s.json" % c["id"],
        "replay_cmd_template": "cat {path}",
        "engine": c.get("engine", "E1+E3"),
        "level_claimed": {"category": c["level"], "text": c["text"], "design_ref": "DESIGN.md §4 " + c["id"]},
        "level_note": c["note"],
        "technique": c["technique"],
    })
json.dump(m, open(os.path.join(HERE, "MANIFEST.json"), "w"), indent=1)
print("MANIFEST.json written: %d checks, %d not applicable" % (len(m["checks"]), len(NOT_APPLICABLE)))
