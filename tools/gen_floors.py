#!/usr/bin/env python3
"""Regenerates the "Floors as armed in the code" table of DESIGN.md §9 from the ck.floor(..) calls in rules/cNN.py."""
import re, glob, os
VERIF = os.path.dirname(os.path.dirname(os.path.abspath(__file__)))
rows = []
for f in sorted(glob.glob(os.path.join(VERIF, "rules", "c[0-9][0-9].py"))):
    cid = "C" + os.path.basename(f)[1:3]
    src = open(f).read()
    for m in re.finditer(r'ck\.floor\(\s*"([^"]+)",\s*"([^"]+)",\s*[^,]+,\s*(\w+)\s*\)', src):
        rule, what, floor = m.groups()
        if not floor.isdigit():
            d = re.search(r"def \w+\([^)]*\b%s=(\d+)" % floor, src)
            calls = re.findall(r"\b%s=(\d+)\)" % floor, src)
            calls = [c for c in calls if c != "0"]
            floor = calls[-1] if calls else ((d.group(1) if d else floor) + " (default)")
        rows.append("| %s | %s | %s | %s |" % (cid, rule, what, floor))
p = os.path.join(VERIF, "DESIGN.md")
s = open(p).read()
head = "| check | rule | what is counted | floor |\n|---|---|---|---|\n"
i = s.index(head, s.index("**Floors as armed in the code**"))
j = i + len(head)
k = j
while s[k:k + 2] == "| ":
    k = s.index("\n", k) + 1
s = s[:j] + "\n".join(rows) + "\n" + s[k:]
open(p, "w").write(s)
print("floors table: %d rows" % len(rows))
