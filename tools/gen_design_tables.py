#!/usr/bin/env python3
"""Regenerates §11 (seeded changes x checks) and §12 (benign variants) of DESIGN.md from seeded/RESULTS.json,
seeded/BENIGN_RESULTS.json and the seeds' meta.json files (between the marker comments)."""
import glob, json, os, re
V = "/verif"
res = json.load(open(os.path.join(V, "seeded", "RESULTS.json")))
ben = json.load(open(os.path.join(V, "seeded", "BENIGN_RESULTS.json"))) if os.path.exists(os.path.join(V, "seeded", "BENIGN_RESULTS.json")) else {}
NOTES = {
    "C01/3": "a C02 defect seeded through the C01 anchor (hash of the language tag): caught by C02's R2.4/R2.5, which C01 lists as its assumption",
    "C04/2": "NOT detected: labelling heuristic of the pretty serializer for quoted triples (C04 ND: build_labelled beyond its position table)",
    "C05/2": "NOT detected: path pruning `<=` for `<` in Hash N-Degree Quads (algorithmic fidelity to RDFC-1.0, C05/C06 ND)",
    "C06/4": "NOT detected: same kind of change as C05/2 (smaller_path rewritten as a prefix test with `<=`)",
    "C12/4": "NOT detected: list bookkeeping re-keyed by (graph, label) slot, which loses the dataset-wide 'referenced once' semantics (C12 ND: list detection)",
    "C05/4": "caught by C06 (new slicing sites in the canonical escaper need an audit entry)",
    "C05/5": "caught by C06's R6.6 (fresh issuer copy per permutation)",
    "C05/6": "caught by C06's R6.7 (step 5.2 skips only canonically issued nodes)",
    "C06/3": "caught by C05's R5.1 (the final sort must compare fixed-length position sequences)",
    "C10/3": "neutralised by the repair 679b310: on the repaired tree the demonstration passes with the patch (clone rebuilds its borrowers), the property holds, no alarm expected; C16 reports the new recursion it introduces",
    "C11/4": "an in-memory iterator defect seeded through C11: caught by C01's R1.5",
    "C11/6": "a matcher defect (Not forwards constant()) seeded through C11: caught by C01's R1.6",
    "C15/4": "a bulk-load override of the store seeded through C15: caught by C01's R1.8 (who may write the index sets)",
    "C16/3": "neutralised by the repair 13e48da (the iterator it reroutes through is a loop now): demonstration passes with the patch on the repaired tree",
    "C18/5": "caught by C15's R15.1 (the Result of finish() is dropped), to which C18 delegates error propagation",
    "C20/2": "same change as C04/3 (unescaped `.`): a C04 language obligation, caught by C04",
    "C20/5": "a quoted_string defect seeded through C20: caught by C03's R3.1c",
    "C13/5": "neutralised by the repair 101eae2: every query dataset is now refused at the top of ExecState::new, so removing the later FROM NAMED test changes nothing (the demonstration passes with the patch on the repaired tree)",
    "C13/12": "NOT detected (round 3, reverse of 1022e6e): the value semantics of `<` on NaN; no structural rule of mine decides it (C13 ND)",
    "C04/7": "NOT detected (round 3, reverse of b99fdd2): correctness of the cycle walk of build_labelled is a graph-algorithm property no structural rule of mine reaches (C04 ND)",
    "C04/8": "round 3, reverse of 5b87013: the missing nesting bound is seen from C16's side (the depth guard of the Prettifier cycle is lost)",
    "C07/9": "round 3, reverse of 49a072a: the root cause is in the default Term::cmp, caught by C02's R2.4c",
    "C14/7": "round 3, reverse of e69d9a5: the panic site is in the value module, caught by C13's R13.17 (library panic audit)",
}
rows = []
n_det = n_own = n_neutral = n_miss = 0
for d in sorted(glob.glob(os.path.join(V, "seeded", "C*", "[0-9]*"))):
    pid, k = d.split("/")[-2:]
    tag = "%s/%s" % (pid, k)
    meta = json.load(open(os.path.join(d, "meta.json")))
    r = res.get(tag, {})
    title = (meta.get("title") or "").replace("|", "/")
    if len(title) > 150:
        title = title[:147] + "..."
    det = r.get("detected_by") or []
    own = r.get("checks", {}).get(pid, {}).get("new_violations") or []
    neutral = tag in ("C10/3", "C16/3", "C13/5")
    if neutral:
        n_neutral += 1
        verdict = "property holds (neutralised)"
    elif pid in det:
        n_own += 1
        n_det += 1
        verdict = "**%s**" % pid + ("".join(", " + x for x in det if x != pid))
    elif det:
        n_det += 1
        verdict = ", ".join(det) + " (not %s)" % pid
    else:
        n_miss += 1
        verdict = "—"
    key = own[0] if own else ""
    key = re.sub(r"<[^>]*>", "", key)[:70]
    rows.append("| %s | %s | %s | %s | `%s` | %s |" % (tag, title, r.get("applied_on", "?") + ("*" if r.get("patch") == "patch.head.diff" else ""),
                                                   verdict, key, NOTES.get(tag, "")))
sec11 = """## 11. Seeded changes and the checks that catch them

%d changes, each compiling, passing the repository's suite, and breaking the property with a demonstration that I
re-ran (`meta.json` of every seed: what it needs to manifest, what was run, my own confirmation run, the detection
result).  Rounds 1 and 2 (113 changes) were each written by a fresh sub-agent from the property text alone.  Round 3
(`"round": 3`, 26 changes, `tools/make_reverse_seeds.py`) is of another kind: the reverse of each `fix:` commit of the
hunt round applied to the final HEAD — it re-introduces a *real* defect of the repository, with the hunter's failing
demonstration (the one repair whose reverse conflicts with a later repair, 208706c, has no seed).  "tree" is the
tree the patch was applied to for the detection run: `head` = the repaired `/repo` HEAD, `pinned` = the pinned
commit (for patches that only apply there); `*` = the change was re-based by hand onto the repaired tree
(`patch.head.diff`) because a `fix:` commit touched the same lines, and re-confirmed there
(`confirmed_on_repaired_head`).  A change counts as detected when a check reports a violation key that the
unpatched tree does not produce.  All registered checks are run on every seed (quick tier).

Totals: %d detected (%d by the property's own check, %d only by another property's check), %d not
detected (listed ND clauses), %d neutralised by a repair (the property holds on the patched repaired tree).

| seed | change | tree | detected by | first key of the own check | note |
|---|---|---|---|---|---|
%s
""" % (len(rows), n_det, n_own, n_det - n_own, n_miss, n_neutral, "\n".join(rows))

BNOTES = {
    "B01/9": "kept: the range construction of quads_matching moved into a generic helper function (`prefix_range` built with array::from_fn); the role "
             "analysis of R1.2 is intra-procedural and fails closed - the residual risk documented in §10",
    "B12/10": "kept: an audited indexing site moved from a closure into its enclosing function (`for` loop instead of filter_map): a new audit key, by design",
    "B08/9": "kept, same class as B09/7: the unchecked construction of `model::datatype`, a *known finding*, moved into a private helper "
             "(`explicit_datatype`) and is reported under its new location (C18's R18.4, \"the datatype passes through unchanged\", sees the helper as a transformation for the same reason)",
    "B12/13": "kept, same class as B12/10: the audited `gs_id[*iparent]` of the `compound_literals.retain` closure moved from an `is_some_and` closure into a "
              "`match` of the enclosing closure: a new audit key (the origin descriptor is part of the key), by design",
    "B12/15": "kept, same class as B12/10: the audited `gs_id[iparent]` of `jsonify` moved into a helper closure",
    "B15/12": "kept, same class as B01/9: the `match` around `rio_format_triples` and both `finish()` calls moved into a private helper function "
              "(`close_document`); R15.14 and C18's pairing rule are intra-procedural and fail closed (the formatter's `finish` is no longer in the function that "
              "feeds it)",
    "B14/15": "kept: the four lexical forms of xsd:boolean compared with `==` on `&str` instead of a string-pattern `match`; rustc promotes `&\"true\"` to a `&&str` constant, "
              "which the fact extractor does not decode (kind `ptr`), so R14.4 cannot read the constants and fails closed - a limitation of E1, not of the rule",
    "B06/11": "kept, same class as B01/9: the fixed escapes of `_cnq::nq` moved into a private helper function (`fixed_escape`); R6.1 evaluates the escaping decision of "
              "`nq` itself for representative code points and does not follow calls",
    "B09/7": "kept, and not a false alarm about the code: a *known finding* (the unwrap of the resolver's Result) moved into a helper function and is "
             "reported under its new location - known findings are suppressed by exact key only",
}
brow = []
fa = 0
for tag in sorted(ben):
    r = ben[tag]
    d = os.path.join(V, "seeded", "benign", tag)
    meta = json.load(open(os.path.join(d, "meta.json"))) if os.path.exists(os.path.join(d, "meta.json")) else {}
    kind = (meta.get("kind") or "").replace("|", "/")[:90]
    files = ", ".join(os.path.basename(f) for f in (meta.get("files_changed") or []))[:60]
    alarms = r.get("false_alarms") or {}
    if alarms or r.get("error"):
        fa += 1
    brow.append("| %s | %s | %s | %s |" % (tag, kind, files, "silent" if not alarms and not r.get("error") else "**ALARM** %s%s" % (
        json.dumps(alarms or r.get("error"))[:120], (" - " + BNOTES[tag]) if tag in BNOTES else "")))
sec12 = """## 12. Behaviour-preserving variants (false-alarm self-test)

%d refactorings of the anchor code of 19 properties, written by sub-agents with the instruction to keep
behaviour, names and signatures and to make the edits a maintainer makes all the time; each keeps the
repository's suite green (recorded in its `meta.json`).  `tools/run_benign.py` applies each one to a scratch
worktree of the repaired tree and runs **all** registered checks: a new violation key is a false alarm.
The first batch (95) consists of free refactorings of the anchor files; the second (45, k = 6..10) was written inside the functions
the hunt-round rules look at, with shape-changing edits (§6); the third (25, `"round": 3`) inside the functions of the rules written after the second and
third hunts; the fourth (25, `"round": 4`) inside the functions of the second-hunt rules that no targeted batch had visited (C01, C02, C06, C07, C14).
Current result: %d of %d raise an alarm (explained in the table).  Of the first batch, thirteen variants raised one at some point; each was corrected by generalising
the idiom the rule recognises, never by loosening the rule: a kind predicate spelled `==` instead of `matches!` (C12,
now decided per kind by `kind_predicate`); `?` replaced by `match .. Ok(true)/Ok(false)/Err` (C01 R1.7, C09
`Namespace::get`, C18 pairing — `try_success_edge` and the path enumerator now treat an explicit `Err(e) => return Err(..)`
like `?`); a panic site spelled as a direct call instead of a function reference passed to `map` (C08, now discharged by a
provenance rule on the re-parsed value); `if g.is_none()` spelled `match g` (C11 guard); a test bound to a boolean first
(`let ok = a && b || ..; if ok`, C04 L4.1 and C20 R20.2 — the path enumerator tracks boolean temporaries per path);
`found.map(..)` spelled as a `match` (C04 R4.2); `unwrap_or_else` spelled as a `match` (C14 R14.2, where the variant would
otherwise have *hidden* the known finding); a flag tested a second time inside a `debug_assert!` (C01 R1.5); audited keys
that contained closure ordinals (C12, shifted by my own repair).

| variant | kind of edit | file(s) | all 19 checks |
|---|---|---|---|
%s
""" % (len(brow), fa, len(brow), "\n".join(brow))

p = os.path.join(V, "DESIGN.md")
s = open(p).read()
for name, body in (("seeded-matrix", sec11), ("benign-matrix", sec12)):
    b, e = "<!-- %s:begin -->" % name, "<!-- %s:end -->" % name
    i, j = s.index(b), s.index(e)
    s = s[:i + len(b)] + "\n" + body + s[j:]
open(p, "w").write(s)
print("§11: %d seeds (%d detected, %d own, %d missed, %d neutralised); §12: %d variants, %d alarms" % (len(rows), n_det, n_own, n_miss, n_neutral, len(brow), fa))
