#!/usr/bin/env python3
"""Post-processing of a self-test run whose worktrees were created at an older /repo commit than the rules were written for:
violation keys that the *current* rules report on that base commit itself (because a later `fix:` commit removed the
construct, and the rule that detects it was added together with the fix) are not detections of the seed / false alarms of
the variant.  usage: rebase_results.py <base-rev> <results.json>...   (rewrites the files in place, records the base)"""
import json, os, re, subprocess, sys
VERIF = "/verif"
base, files = sys.argv[1], sys.argv[2:]
WT = "/tmp/mut/rebase"
def sh(cmd, cwd=None, env=None):
    r = subprocess.run(cmd, shell=True, cwd=cwd, env=env, stdout=subprocess.PIPE, stderr=subprocess.STDOUT, text=True)
    return r.returncode, r.stdout
if not os.path.isdir(WT):
    sh("git -C /repo worktree add --detach %s %s" % (WT, base))
sh("git checkout -q --detach %s && git checkout -q -- . && git clean -qfd" % base, cwd=WT)
props = [c["property_id"] for c in json.load(open(os.path.join(VERIF, "MANIFEST.json")))["checks"]]
artefacts = {}
for p in props:
    rc, out = sh("./check %s" % p, cwd=VERIF, env=dict(os.environ, VERIF_REPO=WT, VERIF_OUT="/tmp/mut/out_rebase", VERIF_FACTS_KEEP="12"))
    artefacts[p] = set(re.findall(r"rule=\S+ key=(.*?)(?: at \S+)?$", out, re.M))
print({p: sorted(v) for p, v in artefacts.items() if v})
for f in files:
    res = json.load(open(f))
    for tag, r in res.items():
        if "checks" in r:
            for p, v in r["checks"].items():
                v["new_violations"] = [k for k in v["new_violations"] if k not in artefacts.get(p, ())]
            pid = tag.split("/")[0]
            r["detected_by"] = sorted(p for p, v in r["checks"].items() if v["new_violations"])
            r["detected_by_own_check"] = bool(r["checks"].get(pid, {}).get("new_violations"))
        if "false_alarms" in r:
            fa = {}
            for p, keys in r["false_alarms"].items():
                keys = [k for k in keys if k not in artefacts.get(p, ())]
                if keys:
                    fa[p] = keys
            r["false_alarms"] = fa
        r["base_rev"] = base
    json.dump(res, open(f, "w"), indent=1, sort_keys=True)
sh("git -C /repo worktree remove --force %s" % WT)
