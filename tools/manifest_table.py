CHECKS = [
    dict(id="C09", level="proof", engine="E1+E2+E3",
         text="Exhaustive decision (all strings) that the regex literals the IRI predicates are built from denote "
              "exactly the RFC 3987 IRI / irelative-ref / IRI-reference languages, that absolute/relative are "
              "disjoint, plus structural rules that every checked constructor goes through these predicates. "
              "A panic audit of the resolution glue (resolve.rs, _wrapper.rs); resolve_into clears its result buffer first. "
              "Decides the language clause of the property and the panic-freedom of the glue, not the resolution algorithm.",
         note="Trusted: rustc const-eval/MIR, regex-syntax+regex-automata, the RFC transcription in rules/grammars.py, "
              "oxiri accepting every RFC 3987 reference (A9). Known findings (KNOWN_FINDINGS.txt): the typed resolve() unwraps a resolution "
              "error that oxiri can report for accepted operands (two sites); the resolver's output for a *relative* base is wrapped unchecked although it is not always an IRI reference (two sites; A9 holds for absolute bases only).",
         technique="static: DFA product-automaton language equivalence on constants read from type-checked MIR + "
                   "dominator/who-calls rules"),
]
CHECKS.append(
    dict(id="C04", level="proof", engine="E1+E2+E3",
         text="Exhaustive language inclusions (all strings): each numeric/boolean shorthand regex, paired with its "
              "datatype as read from write_literal's MIR, is included in the Turtle production and in the XSD lexical "
              "space; the local-name check restricted to IRI text is included in PN_LOCAL-without-escapes; prefixes in "
              "PN_PREFIX. Structural rules: raw emission of a lexical form only behind those tests, `prefix:local` only "
              "from the checked lookup, and the lookup returns (prefix, iri[ns.len()..]) of one entry; write_iri emits only IRI "
              "syntax (no position-dependent abbreviation); list_item's verdict depends on every class of arc; the indentation string is validated against the Turtle WS characters only. Decides the "
              "abbreviation guards, not the isomorphism of the round trip.",
         note="Trusted: rustc const-eval/MIR, regex-syntax+regex-automata, Turtle/XSD transcriptions, rio_turtle as the "
              "reader. Not decided: list/inlining/annotation heuristics, rio formatters.",
         technique="static: DFA language inclusion on regex constants + path rules with per-path boolean tracking + taint/def-use rules over MIR"))
CHECKS.append(
    dict(id="C16", level="other", engine="E1+E3",
         text="Every cycle of the resolved workspace call graph is an audited table entry whose class bounds depth by "
              "data nesting / log n / query size / a constant; unknown cycles, new recursive call sites in audited "
              "cycles, loop-as-recursion patterns and iterators re-wrapped in a loop are violations; an entry may rest on a depth guard that is re-verified on every run (the pretty printer's MAX_DEPTH); every recursive data type of the workspace is classified, and a list-shaped one (one self occurrence per node, drop glue recursing once per element) must have a loop-based Drop. Decides the recursion-structure clause (a necessary "
              "condition for size-independent stack use), not frame sizes.",
         note=""
              "Trusted: rustc's callee resolution; the audit reasons in rules/tables/recursion.py. Calls through type "
              "parameters are not linked to impls (monomorphic recursion through them is bounded by type nesting). "
              "Third-party crates not analysed.",
         technique="static: SCCs of the MIR call graph + audited table + argument-provenance patterns + shape of recursive ADTs"))
CHECKS.append(
    dict(id="C10", level="other", engine="E1+E3",
         text="Enumerates every lifetime-only transmute in sophia_inmem/sophia_api from MIR and enforces the ownership "
              "discipline that makes the self-borrowing term index sound: no derived/field-wise Clone of the borrower "
              "field, only lookup/entry access to the owner field, key inserted on every path after the borrow is stored, "
              "borrow taken from the entry's own key; ensure_owned only extends a fresh clone under is_owned(); store "
              "Clone impls field-wise; no *_unchecked operation in sophia_inmem. Decides which code may exist (a necessary condition for memory safety), not a run.",
         note="Trusted: rustc MIR; std containers; rustc's borrow checker for the E4 compile-fail witnesses. Known finding: the "
              "stores hand out &SimpleTerm<'static> whose clone escapes the store (witness c10_clone_escape, KNOWN_FINDINGS.txt).",
         technique="static: MIR unsafe-site enumeration + who-may-call / must-pass-through / derive rules + compile-fail witnesses"))
CHECKS.append(
    dict(id="C19", level="other", engine="E1+E3",
         text="Taint rule over sophia_resource: every file-system call whose path depends on an IRI parameter is "
              "`dir.join(sub)` with untainted dir and is dominated by a recognised confinement check on the same sub "
              "(components().all(Normal), closure decided from its switch table; or canonicalize+starts_with).",
         note="Trusted: rustc MIR; std::path semantics (Component::Normal excludes .., root, prefix). Symlinks/TOCTOU "
              "not decided.",
         technique="static: forward taint + edge-dominance of a structurally recognised sanitizer"))
CHECKS.append(
    dict(id="C20", level="other", engine="E1+E2+E3",
         text="Per native Term/TryFromTerm impl: datatype constants, boolean constants, plain `{}` rendering with the "
              "Display language included in the XSD lexical space, Display of f64 only off the is_infinite() edge with "
              "INF/-INF constants; conversions parse the lexical form only behind whitelisted datatype tests and on the literal branch, as the Rust type whose value space is the datatype's (xsd:float as f32); the SPARQL engine's own formatting of computed floats/doubles is on the finite edge of a test (one known finding) and of decimals in plain notation; an integer conversion whose datatype has bounds the target type lacks, and the f64 conversion handing any lexical form to Rust's parser, are reported (four known findings); xsd:decimal has its own parse in the f64 conversion and normalises its zero. Decides the construction tables, not std's numeric round trip.",
         note="Trusted: rustc MIR, std Display/FromStr behaviour as stated in the evidence assumptions. Known finding: SparqlValue::lexical_form writes computed infinities as \"inf\" (pinned by two unit tests of the repository); i32/isize/usize conversions do not check the datatype's own range (\"-5\"^^xsd:nonNegativeInteger converts); f64 accepts \"inf\", \"1e3\"^^xsd:decimal.",
         technique="static: table agreement + edge-dominance over MIR; one DFA inclusion"))
CHECKS.append(
    dict(id="C03", level="proof", engine="E1+E2+E3",
         text="Writer-side tables against the N-Quads grammar: the escape decision of quoted_string evaluated for all 256 "
              "byte values (pure comparisons), each escaped byte written as the ECHAR that decodes back to it; emission "
              "templates of write_term/write_triple/nt+nq statement closures extracted over all success paths and compared "
              "with the productions; validator languages included in IRIREF/BLANK_NODE_LABEL/LANGTAG (DFA inclusion, all "
              "strings); the writer constructs no error of its own (never refuses a term). Decides what is written, not that "
              "the re-parse equals the input.",
         note="Trusted: rustc MIR/const-eval, regex engines, grammar transcriptions, rio_turtle as the independent reader.",
         technique="static: finite predicate evaluation of byte tests + path-template extraction + DFA inclusion"))
CHECKS.append(
    dict(id="C08", level="other", engine="E1+E2+E3",
         text="Validator languages include every token the back-ends can certainly deliver (DFA inclusion over all strings); "
              "panic audit of everything reachable from the parser adapters (auto-discharge rules + exact-key audited table, "
              "fail closed); accessor/kind consistency of all 32 Term impls; who-may-construct ArcBnode; every `map_unchecked` of a wrapper is a conversion of the wrapped string or an audited unchecked construction; the JSON-LD adapter hands its configured IRIs to iref before the processor starts and validates json-ld's language tags and blank node labels before a quad is delivered (R8.9, R8.10: use-only-after-successful-check rules). Decides the "
              "workspace's own adapter code, not termination or panics inside rio/json-ld.",
         note="Trusted: the pinned back-ends emit tokens of their normative grammars (A8) except where refuted; rustc MIR; regex engines; "
              "the audited table with one reason per entry. Known findings: four unchecked constructions resting on a back-end guarantee that a reproduction refuted (rio blank node labels; rio IRIs: rio_xml namespace concatenation, rio_turtle prefixed-name concatenation, GTriG without a base; the same in datatype position; iref IRIs incl. bracketed hosts that are no IPv6 addresses): they panic in debug builds.",
         technique="static: DFA language inclusion + MIR panic-site enumeration with dominator-based discharge + call-graph reachability"))
CHECKS.append(
    dict(id="C15", level="other", engine="E1+E3",
         text="Error discipline of the stream machinery decided on every path of every function in scope: no Result of a call "
              "is dropped or left behind on an early return; adapter closures call the downstream callback at most once per "
              "item; SourceError never wraps a callback result and SinkError always does; variant-preserving re-wrapping; "
              "try_for_each_item loops exactly while Ok(true); swapped-out buffers restored on all paths; item buffers are first-in-first-out; a writer's io::Error is never re-wrapped; no collector pre-allocates a size hint; filtering adapters do not forward the source's lower bound; the iterator adapters never poll their source again after an error or the end; a serializer that owns its writer flushes it before reporting success; the streaming serializers built on rio's formatters call finish() on every path but a sink error; an adapter's size hint does not announce a source it will not poll again. Decides the "
              "structural necessary conditions of 'exact prefix, right blame', not the third-party parsers' bookkeeping.",
         note="Trusted: rustc MIR (destination types, resolved callees). A Result handed to another function or stored counts "
              "as delivered.",
         technique="static: path-sensitive must-use dataflow over MIR + provenance/blame rules + parity dataflow"))
CHECKS.append(
    dict(id="C13", level="other", engine="E1+E3",
         text="Dispatch tables of the SPARQL engine read from MIR switch tables (variant names): every GraphPattern/Query/"
              "Expression variant matched explicitly, supported ones reach exactly their evaluator, all others reach "
              "NotImplemented with nothing evaluated, every query dataset (FROM / FROM NAMED) refused up front; FILTER's keep-iff-truthy chain; binding "
              "consistency checks guard every insertion; positional DISTINCT key; GRAPH ?g pre-binding; SPARQL error semantics in "
              "eval (|| and && evaluate both operands, no evaluation error turned into a value, no evaluator/dataset Result "
              "swallowed - one known finding: EXISTS, the active graph threaded unchanged); panic audit of the evaluator core AND of the function library / numeric tower / value comparison (armed after the hunt round: audited table, checked native arithmetic, directed rounding of decimals, no Option-al value compared, no Err item counted as a solution); six further constructs are reported as known findings (silent not-implemented function stubs, projection not restricting solutions, GRAPH without an existence test, the query's base IRI dropped, IN ending at the first error, BNODE ignoring its argument); TRIPLE() accepts the subject kinds the pattern matcher accepts. Decides these structural clauses, not equality with the algebra's multisets.",
         note="Trusted: spargebra's algebra; rustc MIR. Assumption A13: built-in calls have the arity of their grammar production (true for queries parsed by spargebra; a spargebra::Query built by hand and passed through the public From impl is outside it). Known findings: EXISTS swallows NotImplemented/dataset errors; R13.18-R13.22, R13.24 (KNOWN_FINDINGS.txt).",
         technique="static: path/arm template extraction over MIR switch tables + dominator rules + panic audit"))
CHECKS.append(
    dict(id="C18", level="other", engine="E1+E3",
         text="Glue around rio_xml decided on all paths: constructor -> rio_format_triples -> finish pairing, no direct writes, "
              "rio's own formatter and the caller's source handed through unchanged, indentation only to the constructor, and "
              "convert_triple's conversion table (which shapes are skipped; xsd:string -> Simple decided by the NsTerm equality "
              "itself, other datatypes Typed, tagged LanguageTaggedString). Decides the glue, not rio_xml's writer/reader.",
         note="Trusted: rio_xml implements RDF/XML; error propagation of these files is covered by C15 R15.1.",
         technique="static: success-path template extraction + argument provenance over MIR"))
CHECKS.append(
    dict(id="C12", level="other", engine="E1+E3",
         text="The expressibility filter (kind tables of is_subject/is_object/is_bnode read from switch tables, is_jsonld as the "
              "conjunction over s/p/o/g, a quad skipped iff !is_jsonld on every path of process_quads) and a panic audit of the "
              "whole JSON-LD serializer (every unwrap, panic macro, map/vector/string index auto-discharged or audited by exact "
              "key with its invariant). Plus the list bookkeeping clauses: unique-parent reset condition, singleton tests, suppression of a list node only in its parent's graph, the label-keeping rule (a blank node that names a graph or is a subject in several graphs is never folded into @list), compound literals folded only with a recorded unique parent, list marks filtered before anything is rendered (a list containing itself), and the options builders copying every option from the field of the same name. Decides which quads are omitted, these necessary conditions of list folding, and that the engine has no unaudited panic site, not the round trip.",
         note="Trusted: json-ld/json-syntax; the invariants written in the audited table of rules/c12.py. Known finding: a typed rdf:List node is folded and its rdf:type triple dropped (the W3C algorithm is lossy here).",
         technique="static: switch-table extraction + path enumeration + MIR panic-site audit"))
CHECKS.append(
    dict(id="C11", level="other", engine="E1+E3",
         text="Forwarding shape of every method of the four view adapters against an audited table: one call into the wrapped "
              "store, the named target method, own s/p/o parameters in place, the view's graph selector in the graph position, "
              "only into_triple/into_quad/map_err on the way back, default-graph guard dominating GraphAsDataset's forwards; and "
              "the set of overridden trait methods equals the audited set. Decides the per-method forwarding clause, not "
              "coherence over histories.",
         note="Trusted: rustc MIR (resolved callees, argument provenance). Coherence over histories relies on C01.",
         technique="static: forwarding-wrapper rule over MIR (callee, argument provenance, guard dominance, override set)"))
CHECKS.append(
    dict(id="C02", level="other", engine="E1+E3",
         text="Agreement of every comparison code path: TermKind discriminants/derived order; all ~60 PartialEq/Hash/PartialOrd/Ord "
              "impls on Term types delegate to Term::eq/hash/cmp or are audited single-string wrappers; overrides of Term::eq/cmp/"
              "hash are pure forwards (NsTerm::eq: prefix test AND remainder equality); default eq/cmp/hash name all five kinds and "
              "hash reads only what eq compares, cmp at least what eq compares, no structure-flattening accessor, and the literal arm of cmp orders all literals by ONE key sequence in which tag presence comes before anything the tagged branch does not share (the two-key form is cyclic); no unchecked unwrap of a Term accessor in the conversions; no Term accessor is an unconditional panic; language tags compared/hashed only through LanguageTag's case-folding impls; "
              "conversions rebuild the same kind from the matching accessor; accessor/kind consistency of all Term impls. Decides "
              "the reduction of the laws to component orders, not the laws on values.",
         note="Trusted: std's str/char comparison and hashing; rustc item facts (derive markers, discriminants) and MIR.",
         technique="static: trait-impl enumeration + delegation/forwarding rules + per-kind component tables over MIR"))
CHECKS.append(
    dict(id="C01", level="other", engine="E1+E3",
         text="Index/scan consistency of the four generic in-memory stores by a role-propagation abstract interpretation of their "
              "MIR (roles g/s/p/o on terms, indexes, matchers, arrays, iterators, closures): same key permutation on insert and "
              "remove for every ordered set, guarded secondary writes, returned flag; every range scan over the set whose key order "
              "starts with the fixed roles with covering bounds; every non-fixed role filtered by its own matcher on its own "
              "position; results re-ordered to (g,[s,p,o]); unknown constants touch no set; matching-iterator caches; constant() "
              "contract of all matcher impls; bulk-operation counters; index-full reported before any mutation; index sets written only by insert/remove; range bounds are ZERO/MAX at every free position (no reliance on what a TermIndex issues); the flags of the Vec/HashSet/BTreeSet-backed collections are the container's own or true exactly after a change, and list-backed removal covers every occurrence; the union-graph view forwards only subjects/predicates/objects (not the term-set enumerations that include graph names). Decides these structural necessary conditions for all "
              "pattern shapes and index widths, not BTreeSet/Term::eq themselves nor result equality across implementations.",
         note="Trusted: rustc MIR; the role-preserving callee list and iterator summaries in rules/roles.py; BTreeSet/HashMap.",
         technique="static: abstract interpretation (role propagation) over MIR + dominator / who-may-write rules + compile-fail witness"))
CHECKS.append(
    dict(id="C07", level="other", engine="E1+E3",
         text="The blank-blind comparison never reaches the label-sensitive Term::eq/cmp when both sides are quoted triples or both "
              "blank nodes (reachability under the kind assumption, over every comparison impl of IsoTerm and the helpers they "
              "call) and recurses component-wise; eq_gn's decision table; early Ok(false) exits, same sort on both sides, helpers "
              "applied to both arguments, Source/Sink blame, verdict = equality of colour histograms; colour = a commutative, non-cancelling combination (wrapping sum, NOT XOR) over an ordered set with no order-dependent step; the refinement loop has a counter-bounded exit; duplicates yielded by a container are removed with an exact comparison first; atomic ground terms compared as whole terms; the colour hash recurses into every "
              "quoted triple; IsoTerm quads never de-duplicated. Decides these structural clauses, not hash-collision freedom or "
              "completeness of the refinement.",
         note="Trusted: rustc MIR; std sort/hash.",
         technique="static: assumption-guided CFG reachability + decision-table extraction over MIR"))
CHECKS.append(
    dict(id="C05", level="other", engine="E1+E3",
         text="Order/label independence by construction: every place where order could leak is behind a sort of the very data "
              "consumed (first-degree lines, hash-path list, final quads; the final comparator over fixed-length position "
              "sequences), blank nodes enter first-degree hashes only as the two placeholders, first-degree hashing covers s,p,o,g, "
              "no hash-ordered container exists in the crate, the returned identifier map is the one applied, the list of related blank nodes is sorted before it is permuted; the two places where equal candidates are ordered/chosen are reported when the key is the hash/path alone (two known findings). Decides these "
              "necessary conditions of the invariant, not its completeness (the `only if`).",
         note="Trusted: BTreeMap ordering, std sorts, sha2. Known findings: with blank graph names equal hashes do not imply interchangeable nodes; ties are broken by label order (step 5.3) and quad order (step 5.4.6): RDFC-1.0 itself is label-dependent on such inputs.",
         technique="static: must-pass-through (dominator) rules + constant/flow rules over MIR"))
CHECKS.append(
    dict(id="C06", level="other", engine="E1+E3",
         text="The canonical N-Quads escaping table read from _cnq::nq's character switch and format template (upper-case \\uXXXX), "
              "the safeguards' dataflow (compared only, failing with ToxicGraph), unsupported input rejected before any quad is "
              "recorded with the closed set of error variants, every related blank node occurrence appended in Hash N-Degree Quads, one reference per blank node and quad in step 2.1, literals refused in subject / predicate / graph-name position, the consumed writer flushed before Ok, what the two safeguards are compared with (two known findings), and a panic audit of the canonicalisation functions. Decides these "
              "clauses, not equality with the W3C algorithm's hashes/paths.",
         note="Trusted: the RDF 1.2 canonical N-Quads escape table in rules/c06.py (incl. U+FFFE/U+FFFF); sha2; audited panic table. Known findings: the permutation limit counts occurrences, not nodes; the recursion bound grows with the input (stack overflow on long chains).",
         technique="static: switch-table/format-template extraction + taint of safeguard reads + dominator rules + panic audit"))
CHECKS.append(
    dict(id="C14", level="other", engine="E1+E3",
         text="Comparator structure of ORDER BY: the per-key decision table of cmp_bindings_with (unbound first, DESC reverses only "
              "this key, ties broken by the remaining keys), the total-by-construction discipline (a partial comparison falling back "
              "to a different order is reported — one known finding on the unchanged tree), the datatype->parser table that gives "
              "derived numeric types their value, (incl. the four lexical forms of xsd:boolean), operand order and promotion table of the numeric coercion, whether ORDER BY treats pairs of numbers itself (known finding: it hands them to the lossy-promoting `<`), that sort keys are evaluated once per solution and not inside the comparator (known finding), that no decimal is narrowed through an f64 on the way to f32, and a panic audit of the comparator. Decides "
              "these structural clauses, not the numeric values compared.",
         note="Trusted: rustc MIR; std sort. Known findings: sparql_order_by's partial order with Term::cmp fallback; numbers ordered by the promoting `<`; ORDER BY keys re-evaluated at every comparison (non-deterministic keys make the comparator inconsistent) (KNOWN_FINDINGS.txt).",
         technique="static: decision-table extraction over MIR paths + flow rule on Option<Ordering> fallbacks + table agreement"))
NOT_APPLICABLE = [
    dict(property_id="C17", reason="relativise/resolve inverse is an equation between runtime-computed strings "
         "(byte-offset arithmetic); no structural clause that is a genuine necessary condition without freezing the "
         "code; static analysis in reach cannot decide it"),
]
# properties not yet wired in this commit are listed as not applicable *for now* by gen (see below)
PENDING = [
           ]
for p in PENDING:
    if p not in [c["id"] for c in CHECKS]:
        NOT_APPLICABLE.append(dict(property_id=p, reason="check under construction in this commit (planned per "
                                   "DESIGN.md §4); not yet claimed"))
