#!/usr/bin/env python3
"""Self-test: runs the registered checks against every confirmed seeded mutation.
 usage: run_seeded.py [--all-checks] [ids...]      (ids like C01 or C01/2)
For each seed: apply the patch to a scratch worktree of /repo's HEAD (falling back to the pinned commit when the patch
conflicts with a later fix), run the check(s) with VERIF_REPO pointing at it, and record which NEW violation keys
(relative to the unpatched tree) appear.  Results: /verif/seeded/RESULTS.json"""
import glob, json, os, re, subprocess, sys, shutil
VERIF = "/verif"
PINNED = "9f1ceaf"
SLOT = os.environ.get("RUN_SLOT", "")
WT = {"head": "/tmp/mut/head" + SLOT, "pinned": "/tmp/mut/pinned" + SLOT}

def sh(cmd, cwd=None, env=None):
    r = subprocess.run(cmd, shell=True, cwd=cwd, env=env, stdout=subprocess.PIPE, stderr=subprocess.STDOUT, text=True)
    return r.returncode, r.stdout

def ensure_wt():
    os.makedirs("/tmp/mut", exist_ok=True)
    head = sh("git -C /repo rev-parse HEAD")[1].strip()
    for k, rev in (("head", head), ("pinned", PINNED)):
        if not os.path.isdir(WT[k]):
            sh("git -C /repo worktree add --detach %s %s" % (WT[k], rev))
        else:
            sh("git checkout -q --detach %s && git checkout -q -- . && git clean -qfd" % rev, cwd=WT[k])

def claimed():
    m = json.load(open(os.path.join(VERIF, "MANIFEST.json")))
    return [c["property_id"] for c in m["checks"]]

def run_check(prop, tree):
    env = dict(os.environ, VERIF_REPO=tree, VERIF_OUT="/tmp/mut/out" + SLOT, VERIF_FACTS_KEEP="12")
    rc, out = sh("./check %s --tier %s" % (prop, TIER), cwd=VERIF, env=env)
    keys = set(re.findall(r"rule=\S+ key=(.*?)(?: at \S+)?$", out, re.M))
    return rc, keys, out

TIER = "quick"


def main():
    global TIER
    if "--tier" in sys.argv:
        TIER = sys.argv[sys.argv.index("--tier") + 1]
    args = [a for a in sys.argv[1:] if not a.startswith("--") and a != TIER]
    all_checks = "--all-checks" in sys.argv
    ensure_wt()
    props = claimed()
    base = {"head": {}, "pinned": {}}
    def baseline(which, prop):
        if prop not in base[which]:
            sh("git checkout -q -- . && git clean -qfd", cwd=WT[which])
            base[which][prop] = run_check(prop, WT[which])[1]
        return base[which][prop]
    res_path = os.path.join(VERIF, "seeded", "RESULTS%s.json" % SLOT)
    results = json.load(open(res_path)) if os.path.exists(res_path) else {}
    seeds = sorted(glob.glob(os.path.join(VERIF, "seeded", "C*", "[0-9]*")))
    for d in seeds:
        pid, k = d.split("/")[-2], d.split("/")[-1]
        tag = "%s/%s" % (pid, k)
        if args and pid not in args and tag not in args:
            continue
        # patch.head.diff = the same change re-based onto the repaired tree (when a later fix touched the same lines)
        patch = os.path.join(d, "patch.head.diff")
        if not os.path.exists(patch):
            patch = os.path.join(d, "patch.diff")
        which = "head"
        sh("git checkout -q -- . && git clean -qfd", cwd=WT["head"])
        rc, o = sh("git apply --check %s" % patch, cwd=WT["head"])
        if rc != 0:
            which = "pinned"
            sh("git checkout -q -- . && git clean -qfd", cwd=WT["pinned"])
        todo = props if all_checks else [p for p in props if p == pid]
        r = dict(applied_on=which, patch=os.path.basename(patch), tier=TIER, checks={})
        for p in todo:
            b = baseline(which, p)
        rc, o = sh("git apply %s" % patch, cwd=WT[which])
        if rc != 0:
            r["error"] = "patch does not apply: " + o[-200:]
            results[tag] = r
            continue
        for p in todo:
            rc, keys, out = run_check(p, WT[which])
            new = sorted(keys - base[which][p])
            r["checks"][p] = dict(new_violations=new, exit=rc)
        sh("git checkout -q -- . && git clean -qfd", cwd=WT[which])
        r["detected_by_own_check"] = bool(r["checks"].get(pid, {}).get("new_violations"))
        r["detected_by"] = sorted(p for p, v in r["checks"].items() if v["new_violations"])
        results[tag] = r
        print(tag, "on", which, "detected_by", r["detected_by"], (r["checks"].get(pid, {}).get("new_violations") or [""])[0][:110], flush=True)
        json.dump(results, open(res_path, "w"), indent=1, sort_keys=True)
main()
