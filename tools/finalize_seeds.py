#!/usr/bin/env python3
"""Moves confirmed seeds from seeded/_inbox/<id>/<k>/ to seeded/<id>/<k>/ and folds my own confirmation run
(confirm.json / confirm.head.json: build, suite, demonstration with and without the patch) and the detection results
(RESULTS.json) into meta.json."""
import glob, json, os, shutil
V = "/verif/seeded"
res = json.load(open(os.path.join(V, "RESULTS.json"))) if os.path.exists(os.path.join(V, "RESULTS.json")) else {}
for d in sorted(glob.glob(os.path.join(V, "_inbox", "C*", "[0-9]*"))):
    pid, k = d.split("/")[-2:]
    dst = os.path.join(V, pid, k)
    os.makedirs(os.path.dirname(dst), exist_ok=True)
    if os.path.exists(dst):
        shutil.rmtree(dst)
    shutil.move(d, dst)
for d in sorted(glob.glob(os.path.join(V, "C*", "[0-9]*"))):
    pid, k = d.split("/")[-2:]
    tag = "%s/%s" % (pid, k)
    mp = os.path.join(d, "meta.json")
    meta = json.load(open(mp)) if os.path.exists(mp) else {"property": pid}
    for name, key in (("confirm.json", "confirmed_on_pinned"), ("confirm.head.json", "confirmed_on_repaired_head")):
        cp = os.path.join(d, name)
        if os.path.exists(cp):
            c = json.load(open(cp))
            c.pop("demo_with_patch_tail", None) if len(json.dumps(c)) > 4000 else None
            meta[key] = c
    if tag in res:
        r = res[tag]
        meta["detection"] = dict(applied_on=r.get("applied_on"), patch=r.get("patch", "patch.diff"), tier=r.get("tier", "quick"),
                                 detected_by=r.get("detected_by"), own_check_keys=r.get("checks", {}).get(pid, {}).get("new_violations"),
                                 error=r.get("error"))
    json.dump(meta, open(mp, "w"), indent=1)
for d in glob.glob(os.path.join(V, "_inbox", "C*")) + [os.path.join(V, "_inbox")]:
    try:
        os.rmdir(d)
    except OSError:
        pass
print("seeds:", len(glob.glob(os.path.join(V, "C*", "[0-9]*"))))
