//! E2 — regular-language engine.
//!
//! Reads a small line-oriented script on stdin:
//!     lang <name> <hex(utf8 pattern)>        a language = { w valid UTF-8 | Regex::new(pattern).is_match(w) }
//!     empty <id> <k> <prefix-expr>           obligation: the boolean combination denotes the empty language
//!                                            prefix-expr tokens:  & e e | "|" e e | ! e | <name>
//! and prints one JSON line per `lang` (state count) and per `empty` (verdict + up to k shortest witnesses,
//! hex encoded).  Languages are compiled with the same parser/translator the `regex` crate uses
//! (regex-syntax) into dense byte DFAs (regex-automata) with *unanchored search* semantics, so a pattern
//! missing `^`/`$` gets exactly the language `is_match` gives it.  Obligations are decided by a
//! breadth-first walk of the product automaton (bytes + end-of-input), exhaustively.
use regex_automata::dfa::{dense, Automaton, StartKind};
use regex_automata::util::primitives::StateID;
use regex_automata::util::start;
use regex_automata::Anchored;
use std::collections::HashMap;
use std::io::Read;

const SINK: u32 = u32::MAX; // sticky "already matched"
const DEAD: u32 = u32::MAX - 1; // can never match

struct Lang {
    name: String,
    dfa: dense::DFA<Vec<u32>>,
    start: u32,
    // dense numbering of the states we meet, so that tuples are small
    ids: HashMap<StateID, u32>,
    rev: Vec<StateID>,
}

impl Lang {
    fn intern(&mut self, s: StateID) -> u32 {
        if let Some(&i) = self.ids.get(&s) {
            return i;
        }
        let i = self.rev.len() as u32;
        self.ids.insert(s, i);
        self.rev.push(s);
        i
    }
    fn step(&mut self, s: u32, b: u8) -> u32 {
        if s == SINK || s == DEAD {
            return s;
        }
        let sid = self.rev[s as usize];
        let n = self.dfa.next_state(sid, b);
        if self.dfa.is_match_state(n) {
            return SINK;
        }
        if self.dfa.is_dead_state(n) {
            return DEAD;
        }
        if self.dfa.is_quit_state(n) {
            panic!("quit state reached in {}", self.name);
        }
        self.intern(n)
    }
    fn accepts_at_end(&self, s: u32) -> bool {
        if s == SINK {
            return true;
        }
        if s == DEAD {
            return false;
        }
        let sid = self.rev[s as usize];
        let e = self.dfa.next_eoi_state(sid);
        self.dfa.is_match_state(e)
    }
}

fn unhex(s: &str) -> Vec<u8> {
    (0..s.len() / 2).map(|i| u8::from_str_radix(&s[2 * i..2 * i + 2], 16).unwrap()).collect()
}
fn hex(b: &[u8]) -> String {
    b.iter().map(|x| format!("{:02x}", x)).collect()
}

#[derive(Debug)]
enum Expr {
    And(Box<Expr>, Box<Expr>),
    Or(Box<Expr>, Box<Expr>),
    Not(Box<Expr>),
    L(usize),
}

fn parse_expr(toks: &mut std::iter::Peekable<std::slice::Iter<&str>>, names: &HashMap<String, usize>) -> Expr {
    let t = toks.next().expect("expr token");
    match *t {
        "&" => {
            let a = parse_expr(toks, names);
            let b = parse_expr(toks, names);
            Expr::And(Box::new(a), Box::new(b))
        }
        "|" => {
            let a = parse_expr(toks, names);
            let b = parse_expr(toks, names);
            Expr::Or(Box::new(a), Box::new(b))
        }
        "!" => Expr::Not(Box::new(parse_expr(toks, names))),
        n => Expr::L(*names.get(n).unwrap_or_else(|| panic!("unknown language {}", n))),
    }
}

fn eval(e: &Expr, acc: &dyn Fn(usize) -> bool) -> bool {
    match e {
        Expr::And(a, b) => eval(a, acc) && eval(b, acc),
        Expr::Or(a, b) => eval(a, acc) || eval(b, acc),
        Expr::Not(a) => !eval(a, acc),
        Expr::L(i) => acc(*i),
    }
}

fn used(e: &Expr, out: &mut Vec<usize>) {
    match e {
        Expr::And(a, b) | Expr::Or(a, b) => {
            used(a, out);
            used(b, out);
        }
        Expr::Not(a) => used(a, out),
        Expr::L(i) => {
            if !out.contains(i) {
                out.push(*i)
            }
        }
    }
}

fn build(name: &str, pat: &str) -> Result<Lang, String> {
    let dfa = dense::Builder::new()
        .configure(
            dense::Config::new()
                .start_kind(StartKind::Unanchored)
                .byte_classes(true)
                .minimize(false)
                .dfa_size_limit(Some(512 << 20))
                .determinize_size_limit(Some(512 << 20)),
        )
        .build(pat)
        .map_err(|e| format!("{}", e))?;
    let st = dfa
        .start_state(&start::Config::new().anchored(Anchored::No))
        .map_err(|e| format!("{}", e))?;
    let mut l = Lang { name: name.to_string(), dfa, start: 0, ids: HashMap::new(), rev: vec![] };
    let s = if l.dfa.is_match_state(st) {
        SINK
    } else if l.dfa.is_dead_state(st) {
        DEAD
    } else {
        l.intern(st)
    };
    l.start = s;
    Ok(l)
}

fn main() {
    let mut input = String::new();
    std::io::stdin().read_to_string(&mut input).unwrap();
    let mut langs: Vec<Lang> = vec![];
    let mut names: HashMap<String, usize> = HashMap::new();
    // implicit language of all valid UTF-8 strings (inputs are &str)
    let utf8 = build("__utf8", "(?s)^.*$").unwrap();
    names.insert("__utf8".to_string(), 0);
    langs.push(utf8);
    for line in input.lines() {
        let line = line.trim();
        if line.is_empty() || line.starts_with('#') {
            continue;
        }
        let parts: Vec<&str> = line.split_whitespace().collect();
        match parts[0] {
            "lang" => {
                let name = parts[1];
                let pat = String::from_utf8(unhex(parts[2])).unwrap();
                match build(name, &pat) {
                    Ok(l) => {
                        println!(
                            "{{\"lang\":\"{}\",\"ok\":true,\"dfa_states\":{},\"bytes\":{}}}",
                            name,
                            l.dfa.memory_usage() / (l.dfa.stride() * 4).max(1),
                            l.dfa.memory_usage()
                        );
                        names.insert(name.to_string(), langs.len());
                        langs.push(l);
                    }
                    Err(e) => {
                        println!(
                            "{{\"lang\":\"{}\",\"ok\":false,\"error\":\"{}\"}}",
                            name,
                            e.replace('\\', "\\\\").replace('"', "'").replace('\n', " ")
                        );
                    }
                }
            }
            "empty" => {
                let id = parts[1];
                let k: usize = parts[2].parse().unwrap();
                let toks: Vec<&str> = parts[3..].to_vec();
                let mut it = toks.iter().peekable();
                let expr = parse_expr(&mut it, &names);
                let mut u = vec![0usize];
                used(&expr, &mut u);
                // product BFS
                let n = u.len();
                let mut index: HashMap<Vec<u32>, u32> = HashMap::new();
                let mut nodes: Vec<Vec<u32>> = vec![];
                let mut parent: Vec<(u32, u8)> = vec![];
                let startt: Vec<u32> = u.iter().map(|&i| langs[i].start).collect();
                index.insert(startt.clone(), 0);
                nodes.push(startt);
                parent.push((u32::MAX, 0));
                let mut witnesses: Vec<String> = vec![];
                let mut head = 0usize;
                let mut transitions: u64 = 0;
                while head < nodes.len() {
                    let cur = nodes[head].clone();
                    // acceptance at end of input
                    let acc = |li: usize| -> bool {
                        let pos = u.iter().position(|&x| x == li).unwrap();
                        langs[li].accepts_at_end(cur[pos])
                    };
                    if acc(0) && eval(&expr, &acc) {
                        // reconstruct
                        let mut bytes = vec![];
                        let mut x = head as u32;
                        while parent[x as usize].0 != u32::MAX {
                            bytes.push(parent[x as usize].1);
                            x = parent[x as usize].0;
                        }
                        bytes.reverse();
                        witnesses.push(hex(&bytes));
                        if witnesses.len() >= k {
                            break;
                        }
                    }
                    // if utf8 component is dead, prune
                    if cur[0] != DEAD {
                        for b in 0u16..256 {
                            let b = b as u8;
                            let mut nxt = Vec::with_capacity(n);
                            for (pos, &li) in u.iter().enumerate() {
                                nxt.push(langs[li].step(cur[pos], b));
                            }
                            transitions += 1;
                            if nxt[0] == DEAD {
                                continue;
                            }
                            if !index.contains_key(&nxt) {
                                let id2 = nodes.len() as u32;
                                index.insert(nxt.clone(), id2);
                                nodes.push(nxt);
                                parent.push((head as u32, b));
                            }
                        }
                    }
                    head += 1;
                }
                let exhaustive = witnesses.len() < k;
                let w: Vec<String> = witnesses.iter().map(|h| format!("\"{}\"", h)).collect();
                println!(
                    "{{\"id\":\"{}\",\"empty\":{},\"witnesses\":[{}],\"product_states\":{},\"transitions\":{},\"exhaustive\":{}}}",
                    id,
                    witnesses.is_empty(),
                    w.join(","),
                    nodes.len(),
                    transitions,
                    exhaustive
                );
            }
            other => panic!("unknown directive {}", other),
        }
    }
}
