//! Drop into `xml/tests/hunt_C02_1.rs` and run with
//!   cargo test -p sophia_xml --test hunt_C02_1 --offline
//!
//! Property C02: for ALL well-formed terms, term equality / hashing / ordering are available and
//! lawful whatever the Rust type holding the term, and converting the term into another term type
//! yields an equal term.
//!
//! `_:a..b` is a well-formed blank node label:
//!   BLANK_NODE_LABEL ::= '_:' (PN_CHARS_U | [0-9]) ((PN_CHARS | '.')* PN_CHARS)?
//! (Turtle / N-Triples / SPARQL all share this production; the dots in the middle may be
//! consecutive, only the last character must not be a dot),
//! and `a..b` is also a valid NCName, hence a valid `rdf:nodeID` in RDF/XML.
//!
//! But the regular expression behind `BnodeId` only accepts a dot that is immediately followed by
//! a PN_CHARS character, so that:
//!  * `BnodeId::new("a..b")` refuses a well-formed label (the term can not be built),
//!  * the parser-backed term that the RDF/XML parser yields for `rdf:nodeID="a..b"`
//!    panics in `Term::bnode_id()`, and therefore in `Term::eq`, `Term::hash`, `Term::cmp`
//!    and in every conversion (`into_term`, `as_simple`, `ArcStrStash::copy_term`...),
//!    as soon as debug assertions are on (the default for `cargo test` / `cargo build`).

use sophia_api::prelude::*;
use sophia_api::term::{BnodeId, SimpleTerm};
use std::cmp::Ordering;

const XML: &str = r#"<?xml version="1.0" encoding="utf-8"?>
<rdf:RDF xmlns:rdf="http://www.w3.org/1999/02/22-rdf-syntax-ns#" xmlns:ex="http://example.org/">
  <rdf:Description rdf:nodeID="a..b">
    <ex:p rdf:nodeID="a..b"/>
  </rdf:Description>
</rdf:RDF>"#;

/// Expected: every label matching BLANK_NODE_LABEL is accepted by the checked constructor.
#[test]
fn well_formed_label_with_consecutive_dots_is_accepted() {
    // sanity: single dots are fine
    assert!(BnodeId::new("a.b").is_ok());
    assert!(BnodeId::new("a.b.c").is_ok());
    // (PN_CHARS | '.')* PN_CHARS : "..", then "b"
    assert!(
        BnodeId::new("a..b").is_ok(),
        "`a..b` matches BLANK_NODE_LABEL but BnodeId::new rejects it"
    );
    assert!(BnodeId::new("a...b").is_ok());
    assert!(BnodeId::new("0..1").is_ok());
    // still invalid: trailing or leading dot
    assert!(BnodeId::new("a..").is_err());
    assert!(BnodeId::new("..a").is_err());
}

/// Expected: the blank node read from RDF/XML is equal to itself, hashes, compares as Equal,
/// and converts to an equal `SimpleTerm` -- without panicking.
#[test]
fn parser_backed_blank_node_can_be_compared_and_converted() {
    let mut seen = 0;
    sophia_xml::parser::parse_str(XML)
        .for_each_triple(|t| {
            let s = t.s();
            let o = t.o();
            assert!(s.is_blank_node());
            // on the current code, all the lines below panic with
            // "assertion failed: BnodeId::new(b.id).is_ok()" (rio/src/model.rs)
            assert!(Term::eq(&s, o));
            assert_eq!(Term::cmp(&s, o), Ordering::Equal);
            let copy: SimpleTerm = s.into_term();
            assert!(Term::eq(&copy, o));
            assert_eq!(copy.bnode_id().unwrap().as_str(), "a..b");
            seen += 1;
        })
        .unwrap();
    assert_eq!(seen, 1);
}
