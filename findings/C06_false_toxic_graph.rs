//! Property C06 - drop into `c14n/tests/hunt_C06_3.rs`, run with
//! `cargo test -p sophia_c14n --test hunt_C06_3 --offline`
//!
//! "Canonicalisation fails only with an explicit error: unsupported input or a configured
//! complexity limit actually being exceeded, never for a dataset within the limits."
//!
//! `permutation_limit` is documented as: "the algorithm will not try to disambiguate more than
//! `permutation_limit` undistinguishable blank nodes (blank nodes with the same immediate
//! neighbourhood)".
//!
//! In Hash N-Degree Quads (step 3) the same related blank node is added to the list of a
//! related hash once per quad in which it occurs.  When the triple `_:n <p> _:m` is asserted in
//! k graphs, the list for `_:n` is `[m, m, ..., m]` (k times).  `hash_n_degree_quads` compares
//! the *length of that list* with `permutation_limit`, so with the default limit (6) a dataset
//! in which ONE blank node is related to another one in 7 named graphs is rejected as
//! "Toxic graph detected: Too many permutations (7 nodes, limit set to 6)" although there is a
//! single blank node in the list and nothing to disambiguate (all the "permutations" are the
//! same sequence).  RDFC-1.0 defines a result for this dataset.

use sophia_api::quad::Spog;
use sophia_api::term::{BnodeId, IriRef, SimpleTerm};
use sophia_c14n::hash::Sha256;
use sophia_c14n::rdfc10::{normalize, normalize_with, DEFAULT_DEPTH_FACTOR};
use std::collections::HashSet;

type MyDataset = HashSet<Spog<SimpleTerm<'static>>>;

fn iri(i: String) -> SimpleTerm<'static> {
    SimpleTerm::Iri(IriRef::new_unchecked(i.into()))
}
fn bn(i: String) -> SimpleTerm<'static> {
    SimpleTerm::BlankNode(BnodeId::new_unchecked(i.into()))
}

/// two isomorphic components `_:n{i} <p> _:m{i}` (i = 1, 2), each triple asserted in the
/// named graphs g0 .. g{k-1}  (4 blank nodes, 2*k quads)
fn same_triple_in_k_graphs(k: usize) -> MyDataset {
    let mut d = MyDataset::new();
    for i in 1..=2 {
        for g in 0..k {
            d.insert((
                [
                    bn(format!("n{i}")),
                    iri("http://example.org/p".into()),
                    bn(format!("m{i}")),
                ],
                Some(iri(format!("http://example.org/g{g}"))),
            ));
        }
    }
    d
}

fn expected(k: usize) -> String {
    // from an independent implementation of RDFC-1.0 (and forced by the symmetry of the input:
    // the object gets the smaller identifier of each component)
    let mut exp = String::new();
    for (s, o) in [(1, 0), (3, 2)] {
        for g in 0..k {
            exp.push_str(&format!(
                "_:c14n{s} <http://example.org/p> _:c14n{o} <http://example.org/g{g}> .\n"
            ));
        }
    }
    exp
}

/// default limits, 7 named graphs, 4 blank nodes, 14 quads
#[test]
fn same_triple_in_seven_graphs_with_default_limits() {
    let d = same_triple_in_k_graphs(7);
    let mut out = Vec::new();
    let res = normalize(&d, &mut out);
    assert!(
        res.is_ok(),
        "each list of related blank nodes holds ONE blank node, the permutation limit (6) is not exceeded; got: {}",
        res.unwrap_err()
    );
    assert_eq!(String::from_utf8(out).unwrap(), expected(7));
}

/// permutation_limit = 1 ("do not disambiguate anything"): a dataset where no two blank nodes
/// are ever in the same list must still be accepted
#[test]
fn same_triple_in_two_graphs_with_permutation_limit_1() {
    let d = same_triple_in_k_graphs(2);
    // sanity: with the default limit the result is the expected one
    let mut out = Vec::new();
    normalize(&d, &mut out).unwrap();
    assert_eq!(String::from_utf8(out).unwrap(), expected(2));

    let mut out = Vec::new();
    let res = normalize_with::<Sha256, _, _>(&d, &mut out, DEFAULT_DEPTH_FACTOR, 1);
    assert!(
        res.is_ok(),
        "the limit may only reject graphs that exceed it; got: {}",
        res.unwrap_err()
    );
    assert_eq!(String::from_utf8(out).unwrap(), expected(2));
}
