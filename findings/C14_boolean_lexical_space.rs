//! Hunt C14 / violation 2 -- drop into `sparql/tests/hunt_C14_2.rs`, run with
//! `cargo test -p sophia_sparql --test hunt_C14_2 --offline`
//!
//! Property C14: "... any two values that SPARQL's '<' can compare (numerics of any type,
//! strings, BOOLEANS, dateTimes) appear in that order (reversed for DESC) ..."
//!
//! The lexical space of xsd:boolean is {"true", "false", "1", "0"}
//! (https://www.w3.org/TR/xmlschema-2/#boolean), but `SparqlValue::try_from_literal`
//! uses `str::parse::<bool>`, which only knows "true" and "false".
//! "1"^^xsd:boolean and "0"^^xsd:boolean are therefore handled as ill-typed literals:
//! ORDER BY falls back to `Term::cmp`, i.e. to the order of the lexical forms,
//! where "1" < "false" -- although true > false.

use sophia_api::prelude::*;
use sophia_api::quad::Spog;
use sophia_api::sparql::Query;
use sophia_api::term::{IriRef, SimpleTerm};
use sophia_sparql::*;

const XSD: &str = "http://www.w3.org/2001/XMLSchema#";

fn lit(lex: &'static str, dt: &str) -> SimpleTerm<'static> {
    SimpleTerm::LiteralDatatype(lex.into(), IriRef::new_unchecked(format!("{XSD}{dt}").into()))
}

fn iri(i: String) -> SimpleTerm<'static> {
    SimpleTerm::Iri(IriRef::new_unchecked(i.into()))
}

/// Store the given values (one solution each, enumerated in the given order:
/// a `Vec` dataset enumerates its quads in insertion order),
/// and return `SELECT ?x { ?s <tag:v> ?x } ORDER BY <order>`.
fn order_by(values: &[SimpleTerm<'static>], order: &str) -> Vec<String> {
    let dataset: Vec<Spog<SimpleTerm<'static>>> = values
        .iter()
        .enumerate()
        .map(|(i, v)| ([iri(format!("tag:s{i}")), iri("tag:v".into()), v.clone()], None))
        .collect();
    let wrapper = SparqlWrapper(&dataset);
    let query = SparqlQuery::parse(&format!("SELECT ?x {{ ?s <tag:v> ?x }} ORDER BY {order}")).unwrap();
    wrapper
        .query(&query)
        .unwrap()
        .into_bindings()
        .into_iter()
        .map(|row| row.unwrap()[0].as_ref().unwrap().lexical_form().unwrap().to_string())
        .collect()
}

/// Expected: false < true (op:boolean-less-than), so `false` comes first, `"1"` (i.e. true) second.
/// Observed: ["1", "false"].
#[test]
fn one_is_true() {
    let exp = vec!["false", "1"];
    assert_eq!(order_by(&[lit("1", "boolean"), lit("false", "boolean")], "?x"), exp);
    assert_eq!(order_by(&[lit("false", "boolean"), lit("1", "boolean")], "?x"), exp);
}

/// Expected: DESC puts true (written "1") before false.
/// Observed: ["false", "1"].
#[test]
fn one_is_true_desc() {
    let exp = vec!["1", "false"];
    assert_eq!(order_by(&[lit("1", "boolean"), lit("false", "boolean")], "DESC(?x)"), exp);
    assert_eq!(order_by(&[lit("false", "boolean"), lit("1", "boolean")], "DESC(?x)"), exp);
}

/// Expected: with all four lexical forms, the two false values come before the two true values.
/// Observed: ["0", "1", "false", "true"]
#[test]
fn all_four_lexical_forms() {
    let got = order_by(
        &[lit("true", "boolean"), lit("0", "boolean"), lit("1", "boolean"), lit("false", "boolean")],
        "?x",
    );
    let truth: Vec<bool> = got.iter().map(|lex| lex == "true" || lex == "1").collect();
    assert_eq!(truth, vec![false, false, true, true], "got {got:?}");
}

/// Expected: "1"^^xsd:boolean and true are the same value, so the second key decides
/// ("later keys breaking ties"): ?x = true/"1" are tied, the order is given by ?s descending.
/// Observed: the first key tells them apart ("1" before "true"), the second key is never used.
#[test]
fn tie_is_broken_by_second_key() {
    // s0 -> "1", s1 -> true ; ORDER BY ?x DESC(?s) must give s1 (true) then s0 ("1")
    let got = order_by(&[lit("1", "boolean"), lit("true", "boolean")], "?x DESC(?s)");
    assert_eq!(got, vec!["true", "1"]);
}

/// Control (passes): the lexical forms "true" and "false" are ordered correctly.
#[test]
fn control_true_false() {
    let exp = vec!["false", "true"];
    assert_eq!(order_by(&[lit("true", "boolean"), lit("false", "boolean")], "?x"), exp);
}
