//! Hunt C12 / 1 -- a list node that is also the NAME of a graph is folded into `@list`.
//!
//! Drop into `sophia/tests/hunt_C12_1.rs` and run
//! `cargo test -p sophia --features jsonld --test hunt_C12_1 --offline`
//!
//! Property C12: serialising a dataset as JSON-LD and parsing it back gives an isomorphic dataset
//! (blank nodes shared between graphs included; "list compaction never changes meaning").
//!
//! `Engine::mark_list_node` decides that a blank node can be replaced by an anonymous `@list`
//! by looking at `unique_parent` only, i.e. at the places where the node is an *object*.
//! That the same blank node is also used as a graph name is ignored
//! (when the list lives in the default graph, the `@graph` key happens to protect it;
//! when it lives in a named graph, nothing does).
//! After the round-trip the list head is a fresh blank node,
//! and the graph name is another one: the link between the two is lost.

use sophia::api::prelude::*;
use sophia::api::quad::Spog;
use sophia::api::term::SimpleTerm;
use sophia::isomorphism::isomorphic_datasets;
use sophia::jsonld::options::ProcessingMode;
use sophia::jsonld::{JsonLdOptions, JsonLdParser, JsonLdStringifier};
use sophia::turtle::parser::nq;
use std::collections::HashSet;

type Ds = HashSet<Spog<SimpleTerm<'static>>>;

const RDF: &str = "http://www.w3.org/1999/02/22-rdf-syntax-ns#";

/// Parse N-Quads (`rdf:` is expanded for readability).
fn load(src: &str) -> Ds {
    let src = src.replace("rdf:", RDF);
    nq::parse_str(&src).collect_quads().unwrap()
}

fn dump(d: &Ds) -> String {
    let mut lines: Vec<String> = d.iter().map(|q| format!("    {q:?}")).collect();
    lines.sort();
    lines.join("\n")
}

/// Serialise `d1` as JSON-LD, parse the result back (same options on both sides),
/// and require the outcome to be isomorphic to `d1` (this is property C12).
fn assert_roundtrip(d1: &Ds, mode: ProcessingMode, use_rdf_type: bool, spaces: u16) {
    let opts = || {
        JsonLdOptions::new()
            .with_processing_mode(mode)
            .with_use_rdf_type(use_rdf_type)
            .with_spaces(spaces)
    };
    let mut ser = JsonLdStringifier::new_stringifier_with_options(opts());
    let json = ser.serialize_dataset(d1).unwrap().to_string();
    let d2: Ds = JsonLdParser::new_with_options(opts())
        .parse_str(&json)
        .collect_quads()
        .unwrap();
    assert!(
        isomorphic_datasets(d1, &d2).unwrap(),
        "round-trip is not isomorphic [{mode:?}, use_rdf_type={use_rdf_type}, spaces={spaces}]\n  input ({} quads):\n{}\n  JSON-LD: {json}\n  parsed back ({} quads):\n{}",
        d1.len(),
        dump(d1),
        d2.len(),
        dump(&d2),
    );
}

/// All the lossless configurations named by the property.
fn assert_roundtrip_everywhere(src: &str) {
    let d1 = load(src);
    for mode in [ProcessingMode::JsonLd1_0, ProcessingMode::JsonLd1_1] {
        for use_rdf_type in [false, true] {
            for spaces in [0, 2] {
                assert_roundtrip(&d1, mode, use_rdf_type, spaces);
            }
        }
    }
}

/// `_:l` is the head of a well-formed list in <tag:g>, and `_:l` also names a graph.
/// Expected: the blank node that names the graph is still the head of the list after the round-trip.
#[test]
fn list_head_in_named_graph_also_names_another_graph() {
    assert_roundtrip_everywhere(
        r#"
        <tag:s> <tag:p> _:l <tag:g> .
        _:l <rdf:first> "a" <tag:g> .
        _:l <rdf:rest> <rdf:nil> <tag:g> .
        <tag:x> <tag:y> <tag:z> _:l .
    "#,
    );
}

/// The same, the list being described in the very graph it names.
#[test]
fn list_head_names_the_graph_it_lives_in() {
    assert_roundtrip_everywhere(
        r#"
        <tag:s> <tag:p> _:l _:l .
        _:l <rdf:first> "a" _:l .
        _:l <rdf:rest> <rdf:nil> _:l .
    "#,
    );
}

/// The same for a node in the middle of a list.
#[test]
fn inner_list_node_also_names_a_graph() {
    assert_roundtrip_everywhere(
        r#"
        <tag:s> <tag:p> _:l1 <tag:g> .
        _:l1 <rdf:first> "a" <tag:g> .
        _:l1 <rdf:rest> _:l2 <tag:g> .
        _:l2 <rdf:first> "b" <tag:g> .
        _:l2 <rdf:rest> <rdf:nil> <tag:g> .
        <tag:x> <tag:y> <tag:z> _:l2 .
    "#,
    );
}

/// Control: when the list is in the default graph, the very same sharing round-trips
/// (the `@graph` key of the default-graph node makes `is_list_node` fail).
#[test]
fn control_list_in_default_graph_names_a_graph() {
    assert_roundtrip_everywhere(
        r#"
        <tag:s> <tag:p> _:l .
        _:l <rdf:first> "a" .
        _:l <rdf:rest> <rdf:nil> .
        <tag:x> <tag:y> <tag:z> _:l .
    "#,
    );
}
