//! C07 hunt, violation 3 -- drop into `turtle/tests/hunt_C07_3.rs`, run with
//! `cargo test -p sophia_turtle --test hunt_C07_3 --offline`
//! (sophia_turtle already has sophia_isomorphism as a dev-dependency)
//!
//! Property C07: the isomorphism test "answers false whenever the two [graphs] differ [...] in any
//! statement once blank nodes are blanked out" (no blindness to ground differences).
//!
//! Observed: the two *ground* one-triple graphs
//!     <http://e/s> <http://e/p> "a"@en .
//!     <http://e/s> <http://e/p> "a"^^rdf:langString .
//! are declared isomorphic, although `Term::eq` says that the two literals are different terms
//! (and a HashSet/BTreeSet graph keeps both of them).
//! The second literal is ill-typed (rdf:langString without a language tag) but it is
//! representable by every term type of the toolkit and accepted by the N-Triples/Turtle parsers,
//! so it reaches `isomorphic_graphs` by plain API use.
//!
//! Why: for ground terms `IsoTerm`'s `==` is `Term::cmp(..) == Equal`; for two literals of which
//! only one has a language tag, `Term::cmp` compares the datatypes (both rdf:langString) and the
//! lexical forms, and never looks at the language tag again: it answers `Equal` for terms that
//! `Term::eq` distinguishes.
use sophia_api::prelude::*;
use sophia_api::term::SimpleTerm;
use sophia_isomorphism::isomorphic_graphs;

type MyGraph = Vec<[SimpleTerm<'static>; 3]>;

const DOC1: &str = "<http://e/s> <http://e/p> \"a\"@en .\n";
const DOC2: &str =
    "<http://e/s> <http://e/p> \"a\"^^<http://www.w3.org/1999/02/22-rdf-syntax-ns#langString> .\n";

fn parse(doc: &str) -> MyGraph {
    sophia_turtle::parser::nt::parse_str(doc)
        .collect_triples()
        .unwrap()
}

/// Expected: the two graphs differ by a ground term (no blank node involved at all),
/// so the answer is `false`, in both directions.
#[test]
fn ground_graphs_with_different_literals_are_not_isomorphic() {
    let g1 = parse(DOC1);
    let g2 = parse(DOC2);
    // the two graphs really are different: the object of g1's only triple is not in g2
    let [s, p, o] = &g1[0];
    assert!(!Term::eq(o, &g2[0][2]));
    assert!(!g2.contains(s, p, o).unwrap());
    assert!(
        !isomorphic_graphs(&g1, &g2).unwrap(),
        "g1 and g2 differ by a ground literal, they can not be isomorphic"
    );
    assert!(
        !isomorphic_graphs(&g2, &g1).unwrap(),
        "g2 and g1 differ by a ground literal, they can not be isomorphic"
    );
}

/// Expected: the same when the graphs also contain blank nodes
/// (here in another triple than the one holding the literal).
#[test]
fn graphs_with_bnodes_and_different_literals_are_not_isomorphic() {
    let g1 = parse(&format!("_:b1 <http://e/p> _:b2 .\n{DOC1}"));
    let g2 = parse(&format!("{DOC2}_:x1 <http://e/p> _:x2 .\n"));
    assert!(!isomorphic_graphs(&g1, &g2).unwrap());
    assert!(!isomorphic_graphs(&g2, &g1).unwrap());
}
