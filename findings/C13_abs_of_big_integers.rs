use sophia_api::prelude::*;
use sophia_api::sparql::{SparqlDataset, SparqlResult};
use sophia_inmem::dataset::LightDataset;
use sophia_sparql::SparqlWrapper;

fn ask(q: &str) -> Result<bool, String> {
    let d = LightDataset::new();
    let w = SparqlWrapper(&d);
    match std::panic::catch_unwind(std::panic::AssertUnwindSafe(|| w.query(q).map(|r| matches!(r, SparqlResult::Boolean(true))).map_err(|e| e.to_string()))) {
        Ok(r) => r,
        Err(_) => Err("PANIC".into()),
    }
}
#[test]
fn abs_of_a_big_negative_integer() {
    assert_eq!(ask("ASK { FILTER(ABS(-99999999999999999999999) = 99999999999999999999999) }"), Ok(true));
}
#[test]
fn abs_of_the_smallest_native_integer() {
    assert_eq!(ask("ASK { FILTER(ABS(-9223372036854775808) = 9223372036854775808) }"), Ok(true));
}

#[test]
fn abs_of_the_smallest_native_integer_in_the_data() {
    use sophia_api::term::SimpleTerm;
    use sophia_api::ns::xsd;
    let mut d = LightDataset::new();
    let lit = SimpleTerm::LiteralDatatype(isize::MIN.to_string().into(), xsd::integer.iri().unwrap().map_unchecked(|m| m.to_string().into()));
    d.insert(Iri::new_unchecked("tag:s"), Iri::new_unchecked("tag:p"), lit, None as Option<Iri<&str>>).unwrap();
    let w = SparqlWrapper(&d);
    let n = match w.query("SELECT ?o { ?s ?p ?o FILTER(ABS(?o) > 0) }").unwrap() {
        SparqlResult::Bindings(b) => b.into_iter().count(),
        _ => panic!(),
    };
    assert_eq!(n, 1);
}
