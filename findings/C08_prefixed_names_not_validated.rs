//! Hunt C08 / 1 -- drop into `turtle/tests/hunt_C08_1.rs`, run with
//! `cargo test -p sophia_turtle --test hunt_C08_1 --offline`
//!
//! Property C08: for any input, a parser either reports an error or yields statements
//! all of whose terms satisfy the toolkit's own validity rules (IRIs accepted by
//! `sophia_iri::Iri::new` in the strict parsers); it never panics.
//!
//! Defect: rio_turtle builds the IRI of a *prefixed name* by appending the local part to the
//! namespace IRI and never validates the result. The Turtle grammar lets the local part contain
//! characters that are not allowed at that place of an IRI (`\#`, `\%`, U+FFF0..U+FFFD,
//! U+xFFFE/U+xFFFF), and a namespace can end in the middle of a component (`<http://example.org:>`).
//! `sophia_rio::model::Trusted` then wraps the string with `IriRef::new_unchecked`:
//! * debug builds: `debug_assert!(IriRef::new(n.iri).is_ok())` panics in rio/src/model.rs `iri()`;
//! * release builds: an `IriRef` that is not an IRI reference is handed to the consumer.
use sophia_api::parser::{QuadParser, TripleParser};
use sophia_api::quad::Quad;
use sophia_api::source::{QuadSource, TripleSource};
use sophia_api::term::Term;
use sophia_api::triple::Triple;
use sophia_iri::Iri;
use sophia_turtle::parser::{trig::TriGParser, turtle::TurtleParser};

/// Expected behaviour: Err(_) from the parser, or only valid absolute IRIs. Never a panic.
fn check_turtle(doc: &str) {
    let mut iris: Vec<String> = vec![];
    let res = TurtleParser { base: None }
        .parse_str(doc)
        .for_each_triple(|t| {
            for term in [t.s(), t.p(), t.o()] {
                // NB: in debug builds this accessor is where the panic occurs
                if let Some(iri) = term.iri() {
                    iris.push(iri.as_str().to_string());
                }
                if let Some(dt) = term.datatype() {
                    iris.push(dt.as_str().to_string());
                }
            }
        });
    if res.is_ok() {
        for iri in iris {
            assert!(
                Iri::new(iri.as_str()).is_ok(),
                "Turtle parser yielded {iri:?}, which sophia_iri::Iri::new rejects"
            );
        }
    }
}

#[test]
fn escaped_hash_after_hash_namespace() {
    // valid Turtle (PN_LOCAL_ESC); the resulting string has two '#'
    check_turtle("@prefix ex: <http://example.org/ns#> .\nex:s ex:p ex:a\\#b .\n");
}

#[test]
fn escaped_percent() {
    // valid Turtle (PN_LOCAL_ESC '\%'); the resulting string has a bare '%'
    check_turtle("@prefix ex: <http://example.org/ns/> .\nex:s ex:p ex:100\\% .\n");
}

#[test]
fn replacement_character_in_local_name() {
    // U+FFFD is in PN_CHARS_BASE ([#xFDF0-#xFFFD]) but not in RFC 3987 ucschar (..#xFFEF)
    check_turtle("@prefix ex: <http://example.org/ns/> .\nex:s ex:p ex:caf\u{FFFD} .\n");
}

#[test]
fn plane_1_noncharacter_in_local_name() {
    // U+1FFFE is in PN_CHARS_BASE ([#x10000-#xEFFFF]) but not in ucschar (%x10000-1FFFD)
    check_turtle("@prefix ex: <http://example.org/ns/> .\nex:s ex:p ex:\u{1FFFE} .\n");
}

#[test]
fn namespace_ending_inside_the_authority() {
    // <http://example.org:> is a valid IRI (empty port); "http://example.org:p" is not
    check_turtle("@prefix ex: <http://example.org:> .\n<http://example.org/s> ex:p <http://example.org/o> .\n");
}

#[test]
fn datatype_position() {
    check_turtle("@prefix ex: <http://example.org/ns#> .\nex:s ex:p \"1\"^^ex:a\\#b .\n");
}

#[test]
fn trig_has_the_same_defect() {
    let doc = "@prefix ex: <http://example.org/ns#> .\nex:g { ex:s ex:p ex:a\\#b }\n";
    let mut iris: Vec<String> = vec![];
    let res = TriGParser { base: None }.parse_str(doc).for_each_quad(|q| {
        if let Some(iri) = q.o().iri() {
            iris.push(iri.as_str().to_string());
        }
    });
    if res.is_ok() {
        for iri in iris {
            assert!(Iri::new(iri.as_str()).is_ok(), "TriG parser yielded {iri:?}");
        }
    }
}
