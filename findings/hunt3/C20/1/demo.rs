//! C20, clause "converting any other term to a native type [...] when it succeeds,
//! returns the value that the literal's lexical form denotes".
//!
//! `"-0"`, `"-0.0"`, `"-.0"`, `"-0."`, `"-000.000"` are *valid* lexical forms of xsd:decimal,
//! and they all denote the (only) zero of the decimal value space: xsd:decimal has no negative
//! zero (XSD 1.1 part 2, §3.3.3). Converting decimal zero to xsd:double gives positive zero
//! (XPath F&O §19.1.2.1: decimal -> double goes through the canonical lexical form, "0").
//! `f64::try_from_term` must therefore return +0.0 for these literals, exactly as it does
//! for `"0"^^xsd:decimal` and `"+0.0"^^xsd:decimal`.
//!
//! On the current code the lexical form is handed to Rust's float parser as if it were an
//! xsd:double, and the result is IEEE negative zero (sign bit set, 1/x = -INF), i.e. the
//! xsd:double value `negativeZero`, which no xsd:decimal literal denotes.
//!
//! Drop into `api/tests/hunt_C20_1.rs`, run with
//! `cargo test -p sophia_api --test hunt_C20_1 --offline`.

use sophia_api::ns::xsd;
use sophia_api::term::{Term, TryFromTerm};

const DECIMAL_ZEROS: &[&str] = &["-0", "-0.0", "-.0", "-0.", "-000.000"];

/// expected: every valid lexical form of decimal zero converts to the same f64 (positive zero)
#[test]
fn negative_signed_decimal_zero_is_positive_zero() {
    let reference = f64::try_from_term("0" * xsd::decimal).unwrap();
    assert_eq!(reference.to_bits(), 0.0_f64.to_bits());
    for lex in DECIMAL_ZEROS {
        let got = f64::try_from_term(*lex * xsd::decimal)
            .unwrap_or_else(|e| panic!("{lex:?}^^xsd:decimal is well-typed, but: {e}"));
        assert_eq!(
            got.to_bits(),
            reference.to_bits(),
            "{lex:?}^^xsd:decimal denotes the same number as \"0\"^^xsd:decimal, \
             but converts to {got:?} (sign bit set: {}), 1/x = {}",
            got.is_sign_negative(),
            1.0 / got,
        );
    }
}

/// expected: two literals denoting the same decimal number give native values
/// that are the same term when used as terms again
/// (observed: "0"^^xsd:double for one, "-0"^^xsd:double for the other)
#[test]
fn same_decimal_value_same_native_term() {
    let a = f64::try_from_term("0.0" * xsd::decimal).unwrap();
    let b = f64::try_from_term("-0.0" * xsd::decimal).unwrap();
    assert!(
        Term::eq(&a, b),
        "0.0 and -0.0 (xsd:decimal) are the same value, but convert to the distinct terms {:?} and {:?}",
        a.lexical_form().unwrap(),
        b.lexical_form().unwrap(),
    );
}

/// control (passes): xsd:double and xsd:float *do* have a negative zero, which must be kept
#[test]
fn negative_zero_kept_for_double_and_float() {
    let d = f64::try_from_term("-0" * xsd::double).unwrap();
    assert!(d == 0.0 && d.is_sign_negative());
    let f = f64::try_from_term("-0.0" * xsd::float).unwrap();
    assert!(f == 0.0 && f.is_sign_negative());
}

/// control (passes): a negative decimal that merely *rounds* to zero keeps its sign,
/// this is the IEEE rounding of a non-zero negative number
#[test]
fn tiny_negative_decimal_rounds_to_negative_zero() {
    let lex = format!("-0.{}1", "0".repeat(400));
    let v = f64::try_from_term(lex.as_str() * xsd::decimal).unwrap();
    assert!(v == 0.0 && v.is_sign_negative());
}
