//! C12 / hunt 3 / finding 2 -- drop into `sophia/tests/hunt_C12_2.rs`, run with
//!   cargo test -p sophia --features jsonld --test hunt_C12_2 --offline
//!
//! RFC 3986/3987:  IPvFuture = "v" 1*HEXDIG "." 1*( unreserved / sub-delims / ":" )
//! and ABNF literals are case-insensitive, so `http://[V1.x]/` is an IRI; `sophia_iri::Iri::new`
//! and the N-Quads parser accept it. The JSON-LD serializer writes it out verbatim, but the
//! JSON-LD parser relies on `iref` 2.2.3, whose `parse_ipvfuture_literal` only accepts a
//! lower-case `v`: the string is "not an IRI" for json-ld, so
//!  * as a subject, predicate, object, graph name or rdf:type value, the node / property /
//!    graph is silently dropped: the quad (for a graph name: the whole graph) is lost;
//!  * as a datatype, the whole document is rejected ("Invalid typed value").
//! (`jsonld/src/parser.rs` already works around this very discrepancy for the *base* IRI.)
//!
//! Expected (property C12): IRI subject / predicate / object / graph name: the quads are
//! expressible, so the round-trip must give an isomorphic dataset.

use sophia::api::prelude::*;
use sophia::inmem::dataset::LightDataset;
use sophia::isomorphism::isomorphic_datasets;
use sophia::jsonld::{JsonLdOptions, JsonLdParser, JsonLdSerializer};
use sophia::turtle::parser::nq;

const IRI: &str = "http://[V1.x]/";

fn check_roundtrip(nquads: &str) {
    assert!(sophia::iri::Iri::new(IRI).is_ok(), "Sophia accepts this IRI");
    let nquads = nquads.replace("IRI", IRI);
    let input: LightDataset = nq::parse_str(&nquads).collect_quads().unwrap();
    assert_eq!(input.quads().count(), 2);

    let mut ser = JsonLdSerializer::new_stringifier_with_options(JsonLdOptions::new());
    ser.serialize_dataset(&input).unwrap();
    let json = ser.to_string();

    let output: LightDataset = match JsonLdParser::new_with_options(JsonLdOptions::new())
        .parse_str(&json)
        .collect_quads()
    {
        Ok(d) => d,
        Err(e) => panic!("the serializer's own output is rejected: {e}\nJSON-LD: {json}"),
    };

    assert!(
        isomorphic_datasets(&input, &output).unwrap(),
        "round-trip is not isomorphic: {} quads in, {} quads out\nJSON-LD: {json}",
        input.quads().count(),
        output.quads().count(),
    );
}

/// Expected: 2 quads out. Observed: 1 (the node object of the subject is dropped).
#[test]
fn as_subject() {
    check_roundtrip("<IRI> <tag:p> \"o\" .\n<tag:s> <tag:p> \"control\" .\n");
}

/// Expected: 2 quads out. Observed: 1 (the property is dropped).
#[test]
fn as_predicate() {
    check_roundtrip("<tag:s> <IRI> \"o\" .\n<tag:s> <tag:p> \"control\" .\n");
}

/// Expected: 2 quads out. Observed: 1 (the node reference is dropped).
#[test]
fn as_object() {
    check_roundtrip("<tag:s> <tag:p> <IRI> .\n<tag:s> <tag:p> \"control\" .\n");
}

/// Expected: 2 quads out. Observed: 1 (the whole named graph is dropped).
#[test]
fn as_graph_name() {
    check_roundtrip("<tag:s> <tag:p> \"o\" <IRI> .\n<tag:s> <tag:p> \"control\" .\n");
}

/// Expected: 2 quads out. Observed: 1 (the @type value is dropped).
#[test]
fn as_rdf_type_value() {
    check_roundtrip(
        "<tag:s> <http://www.w3.org/1999/02/22-rdf-syntax-ns#type> <IRI> .\n<tag:s> <tag:p> \"control\" .\n",
    );
}

/// Expected: 2 quads out. Observed: the parser refuses the document ("Invalid typed value").
#[test]
fn as_datatype() {
    check_roundtrip("<tag:s> <tag:p> \"o\"^^<IRI> .\n<tag:s> <tag:p> \"control\" .\n");
}
