//! C12 / hunt 3 / finding 3 -- drop into `sophia/tests/hunt_C12_3.rs`, run with
//!   cargo test -p sophia --features jsonld --test hunt_C12_3 --offline
//!
//! A canonical rdf:JSON literal is converted by `Engine::convert_rdf_object` into a native
//! `@json` value, i.e. its JSON tree is spliced into the output tree. `json_syntax` parses
//! iteratively, but *prints* (`compact_print` / `print_with` in `serialize_quads`) and *drops*
//! recursively, and the expansion algorithm of `json_ld` recurses into the value as well.
//! A literal that is nothing but nested arrays therefore overflows the stack:
//!   * serializer: from ~1 200 levels (debug build, 2 MiB thread) / ~20 000 levels (release,
//!     2 MiB thread) / ~50 000 levels (release, 8 MiB main thread), i.e. a literal of 2.4 kB
//!     to 100 kB;
//!   * parser, on the serializer's own output: from ~5 000 levels (release, 2 MiB thread).
//! The process is aborted (SIGABRT, "thread ... has overflowed its stack"): no document, no
//! error. (This is not the recursion convert_rdf_object <-> populate_list of nested *RDF
//! lists*, which is already known: no list is involved, the dataset has ONE quad.)
//!
//! Expected (property C12): `[[[...]]]` is canonical JSON (RFC 8785), the quad has an IRI
//! subject and predicate: the round-trip must give an isomorphic dataset (the literal could
//! e.g. be written as `{"@value": "<lexical form>", "@type": ".../22-rdf-syntax-ns#JSON"}`,
//! which the parser reads back verbatim without ever building the tree).
//!
//! NB: this test does not fail with an assertion: it kills the test process.

use sophia::api::prelude::*;
use sophia::inmem::dataset::LightDataset;
use sophia::isomorphism::isomorphic_datasets;
use sophia::jsonld::{JsonLdOptions, JsonLdParser, JsonLdSerializer};
use sophia::turtle::parser::nq;

fn check_roundtrip(depth: usize) {
    let lexical = format!("{}{}", "[".repeat(depth), "]".repeat(depth));
    let nquads = format!(
        "<tag:s> <tag:p> \"{lexical}\"^^<http://www.w3.org/1999/02/22-rdf-syntax-ns#JSON> .\n"
    );
    let input: LightDataset = nq::parse_str(&nquads).collect_quads().unwrap();
    assert_eq!(input.quads().count(), 1);

    let mut ser = JsonLdSerializer::new_stringifier_with_options(JsonLdOptions::new());
    ser.serialize_dataset(&input).unwrap();
    let json = ser.to_string();
    eprintln!("depth {depth}: serialised ({} bytes)", json.len());

    let output: LightDataset = JsonLdParser::new_with_options(JsonLdOptions::new())
        .parse_str(&json)
        .collect_quads()
        .unwrap();
    eprintln!("depth {depth}: parsed back");

    assert!(
        isomorphic_datasets(&input, &output).unwrap(),
        "round-trip is not isomorphic: {} quads in, {} quads out",
        input.quads().count(),
        output.quads().count(),
    );
}

/// Control: 500 levels round-trip.
#[test]
fn json_literal_nested_500_deep() {
    check_roundtrip(500);
}

/// A 60 kB literal. Expected: 1 quad out.
/// Observed: "thread 'json_literal_nested_30000_deep' has overflowed its stack", SIGABRT
/// (in the serializer, in debug and in release builds).
#[test]
fn json_literal_nested_30000_deep() {
    check_roundtrip(30_000);
}
