//! C12 / hunt 3 / finding 1 -- drop into `sophia/tests/hunt_C12_1.rs`, run with
//!   cargo test -p sophia --features jsonld --test hunt_C12_1 --offline
//!
//! In processing mode 1.1 (the default) a list may be an item of a list, so
//! `Engine::mark_list_node` also accepts a list node whose unique parent refers to it through
//! rdf:first. Nothing checks that following the parents of a list node ever leads to a node
//! that is NOT a list node, i.e. to a node object that will actually render the `@list`.
//! When a list contains itself (directly, or through another list), every node of the cycle
//! is marked as list node, every one of them is suppressed from the node objects, and no
//! `@list` is emitted anywhere: all the quads of the cycle are silently dropped.
//!
//! Expected (property C12): blank subjects, IRI predicates: JSON-LD can express all these
//! quads (as plain node objects, which is what processing mode 1.0 produces), so the
//! round-trip must give an isomorphic dataset.

use sophia::api::prelude::*;
use sophia::inmem::dataset::LightDataset;
use sophia::isomorphism::isomorphic_datasets;
use sophia::jsonld::{JsonLdOptions, JsonLdParser, JsonLdSerializer};
use sophia::turtle::parser::nq;

const RDF: &str = "http://www.w3.org/1999/02/22-rdf-syntax-ns#";

/// serialise with the default options (processing mode 1.1), parse back, compare
fn check_roundtrip(nquads: &str) {
    let nquads = nquads.replace("rdf:first", &format!("<{RDF}first>"));
    let nquads = nquads.replace("rdf:rest", &format!("<{RDF}rest>"));
    let nquads = nquads.replace("rdf:nil", &format!("<{RDF}nil>"));
    let input: LightDataset = nq::parse_str(&nquads).collect_quads().unwrap();

    let mut ser = JsonLdSerializer::new_stringifier_with_options(JsonLdOptions::new());
    ser.serialize_dataset(&input).unwrap();
    let json = ser.to_string();

    let output: LightDataset = JsonLdParser::new_with_options(JsonLdOptions::new())
        .parse_str(&json)
        .collect_quads()
        .unwrap();

    assert!(
        isomorphic_datasets(&input, &output).unwrap(),
        "round-trip is not isomorphic: {} quads in, {} quads out\nJSON-LD: {json}",
        input.quads().count(),
        output.quads().count(),
    );
}

/// `_:l` is a one-item list whose only item is `_:l` itself.
/// Expected: 2 quads out. Observed: `[]`, 0 quads out.
#[test]
fn list_containing_itself() {
    check_roundtrip(
        "_:l rdf:first _:l .
         _:l rdf:rest rdf:nil .
        ",
    );
}

/// Same thing in a named graph.
/// Expected: 2 quads out. Observed: `[{"@id":"tag:g","@graph":[]}]`, 0 quads out.
#[test]
fn list_containing_itself_in_named_graph() {
    check_roundtrip(
        "_:l rdf:first _:l <tag:g> .
         _:l rdf:rest rdf:nil <tag:g> .
        ",
    );
}

/// A well-formed two-item list ("1" , _:a) whose second item is its own head.
/// Expected: 4 quads out. Observed: `[]`, 0 quads out.
#[test]
fn list_whose_last_item_is_its_head() {
    check_roundtrip(
        "_:a rdf:first \"1\" .
         _:a rdf:rest _:b .
         _:b rdf:first _:a .
         _:b rdf:rest rdf:nil .
        ",
    );
}

/// Two one-item lists, each one being the item of the other;
/// the unrelated quad of <tag:s> shows that the rest of the dataset is serialised as usual.
/// Expected: 5 quads out. Observed: only the quad of <tag:s> comes back.
#[test]
fn two_lists_containing_each_other() {
    check_roundtrip(
        "_:a rdf:first _:b .
         _:a rdf:rest rdf:nil .
         _:b rdf:first _:a .
         _:b rdf:rest rdf:nil .
         <tag:s> <tag:p> \"o\" .
        ",
    );
}
