//! Hunt C01/1 -- drop into `inmem/tests/hunt_C01_1.rs`, run with
//! `cargo test -p sophia_inmem --test hunt_C01_1 --offline`
//!
//! The term enumerations of every graph / dataset (`graph_names`, `iris`, `blank_nodes`,
//! `literals`, `quoted_triples`, `variables` -- all default methods of `Dataset` / `Graph`, so they
//! are what FastDataset, LightDataset, FastGraph, LightGraph, HashSet, BTreeSet and Vec deliver)
//! announce a `size_hint` that the enumeration then contradicts:
//!  * `graph_names()` promises *at least* as many items as there are quads, but yields nothing
//!    for the quads of the default graph;
//!  * `iris()` & co. promise *at most* as many items as there are triples / quads, but yield up to
//!    3 (4, or more with quoted triples) terms per triple / quad.
//! `Iterator::size_hint` requires lower <= number of items <= upper; the project's own conformance
//! macros (`assert_consistent_hint` in `test_graph_impl!` / `test_dataset_impl!`) check exactly this
//! for `triples()`, `quads()` and the `*_matching` enumerations, but never for these methods.
use sophia_api::dataset::{Dataset, MutableDataset};
use sophia_api::graph::{Graph, MutableGraph};
use sophia_api::ns::{rdf, xsd};
use sophia_api::quad::Spog;
use sophia_api::term::{BnodeId, GraphName, SimpleTerm, Term, VarName};
use std::collections::{BTreeSet, HashSet};

type T = SimpleTerm<'static>;

/// The contract of `Iterator::size_hint`
/// (same check as `sophia_api::graph::test::assert_consistent_hint`).
#[track_caller]
fn assert_consistent_hint<I: Iterator>(what: &str, iter: I) {
    let hint = iter.size_hint();
    let val = iter.count();
    assert!(
        hint.0 <= val,
        "{what}: size_hint {hint:?} promises at least {} items, the enumeration yields {val}",
        hint.0
    );
    assert!(
        val <= hint.1.unwrap_or(val),
        "{what}: size_hint {hint:?} promises at most {} items, the enumeration yields {val}",
        hint.1.unwrap()
    );
}

fn fill_dataset<D: MutableDataset>(d: &mut D) {
    let b = BnodeId::new_unchecked("b");
    let v = VarName::new_unchecked("v");
    let qt: T = SimpleTerm::Triple(Box::new([b.into_term(), rdf::value.into_term(), 42.into_term()]));
    // two quads in the default graph, one in a named graph
    d.insert(rdf::type_, rdf::type_, rdf::Property, None as GraphName<T>).unwrap();
    d.insert(b, rdf::value, "hello", None as GraphName<T>).unwrap();
    d.insert(&qt, rdf::type_, v, Some(xsd::string)).unwrap();
}

fn fill_graph<G: MutableGraph>(g: &mut G) {
    let b = BnodeId::new_unchecked("b");
    let v = VarName::new_unchecked("v");
    let qt: T = SimpleTerm::Triple(Box::new([b.into_term(), rdf::value.into_term(), 42.into_term()]));
    g.insert(rdf::type_, rdf::type_, rdf::Property).unwrap();
    g.insert(b, rdf::value, "hello").unwrap();
    g.insert(&qt, rdf::type_, v).unwrap();
}

fn check_dataset<D: Dataset>(name: &str, d: &D) {
    // controls (these hold)
    assert_consistent_hint(&format!("{name}::quads"), d.quads());
    assert_consistent_hint(&format!("{name}::subjects"), d.subjects());
    // expected: lower <= count <= upper for every enumeration
    assert_consistent_hint(&format!("{name}::graph_names"), d.graph_names());
    assert_consistent_hint(&format!("{name}::iris"), d.iris());
    assert_consistent_hint(&format!("{name}::blank_nodes"), d.blank_nodes());
    assert_consistent_hint(&format!("{name}::literals"), d.literals());
    assert_consistent_hint(&format!("{name}::variables"), d.variables());
}

fn check_graph<G: Graph>(name: &str, g: &G) {
    assert_consistent_hint(&format!("{name}::triples"), g.triples());
    assert_consistent_hint(&format!("{name}::objects"), g.objects());
    assert_consistent_hint(&format!("{name}::iris"), g.iris());
    assert_consistent_hint(&format!("{name}::blank_nodes"), g.blank_nodes());
    assert_consistent_hint(&format!("{name}::literals"), g.literals());
    assert_consistent_hint(&format!("{name}::variables"), g.variables());
}

/// The smallest case: one quad in the default graph.
/// Expected: `graph_names()` yields nothing, so its lower bound must be 0.
#[test]
fn graph_names_of_a_dataset_with_only_a_default_graph() {
    let mut d = sophia_inmem::dataset::FastDataset::new();
    d.insert(rdf::type_, rdf::type_, rdf::Property, None as GraphName<T>).unwrap();
    assert_eq!(d.graph_names().count(), 0);
    assert_eq!(
        d.graph_names().size_hint().0,
        0,
        "graph_names() announces at least one graph name, but the dataset has none"
    );
}

/// The smallest case: one triple made of three IRIs.
/// Expected: `iris()` yields 3 terms, so its upper bound must be None or >= 3.
#[test]
fn iris_of_a_graph_with_one_triple() {
    let mut g = sophia_inmem::graph::FastGraph::new();
    g.insert(rdf::type_, rdf::type_, rdf::Property).unwrap();
    assert_eq!(g.iris().count(), 3);
    let upper = g.iris().size_hint().1;
    assert!(
        upper.is_none_or(|u| u >= 3),
        "iris() announces at most {upper:?} IRIs, but yields 3"
    );
}

/// Expected: `quoted_triples()` yields the nested triples too, within the announced bounds.
#[test]
fn quoted_triples_nested() {
    let inner: T = SimpleTerm::Triple(Box::new([rdf::type_.into_term(), rdf::type_.into_term(), 1.into_term()]));
    let outer: T = SimpleTerm::Triple(Box::new([inner.clone(), rdf::type_.into_term(), inner.clone()]));
    let mut g = sophia_inmem::graph::FastGraph::new();
    g.insert(&outer, rdf::type_, &outer).unwrap();
    assert_eq!(g.quoted_triples().count(), 6);
    assert_consistent_hint("FastGraph::quoted_triples", g.quoted_triples());
}

#[test]
fn fast_dataset() {
    let mut d = sophia_inmem::dataset::FastDataset::new();
    fill_dataset(&mut d);
    check_dataset("FastDataset", &d);
}

#[test]
fn light_dataset_16_bits() {
    let mut d = sophia_inmem::dataset::small::LightDataset::new();
    fill_dataset(&mut d);
    check_dataset("small::LightDataset", &d);
}

#[test]
fn hashset_and_btreeset_datasets() {
    let mut d: HashSet<Spog<T>> = HashSet::new();
    fill_dataset(&mut d);
    check_dataset("HashSet<Spog>", &d);
    let mut d: BTreeSet<Spog<T>> = BTreeSet::new();
    fill_dataset(&mut d);
    check_dataset("BTreeSet<Spog>", &d);
}

#[test]
fn fast_and_light_graph() {
    let mut g = sophia_inmem::graph::FastGraph::new();
    fill_graph(&mut g);
    check_graph("FastGraph", &g);
    let mut g = sophia_inmem::graph::LightGraph::new();
    fill_graph(&mut g);
    check_graph("LightGraph", &g);
}

#[test]
fn hashset_graph_and_graph_view_of_a_dataset() {
    let mut g: HashSet<[T; 3]> = HashSet::new();
    fill_graph(&mut g);
    check_graph("HashSet<[T;3]>", &g);
    let mut d = sophia_inmem::dataset::FastDataset::new();
    fill_dataset(&mut d);
    check_graph("FastDataset::union_graph", &d.union_graph());
}
