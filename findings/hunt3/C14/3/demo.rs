//! C14 / hunt3 / 3 -- xsd:dateTime values that differ beyond the 9th fractional digit of the
//! seconds are tied by ORDER BY (and by `<`, `=`): they come out in the store's order.
//!
//! Drop this file into `sparql/tests/hunt_C14_3.rs` and run
//! `cargo test -p sophia_sparql --test hunt_C14_3 --offline`.
//!
//! Property C14: "any two values that SPARQL's '<' can compare (numerics of any type, strings,
//! booleans, dateTimes) appear in that order (reversed for DESC), with later keys breaking ties".
//!
//! The lexical space of xsd:dateTime allows any number of fractional digits
//! (https://www.w3.org/TR/xmlschema-2/#dateTime : `'.' s+`), and the value space is not
//! limited to nanoseconds: "…00.0000000001Z" < "…00.0000000002Z".
//! `XsdDateTime::new` (sparql/src/value/_xsd_date_time.rs) silently *truncates* the fraction
//! to 9 digits (`fraction[..9]`), so both literals get the same value:
//! ORDER BY ties them (the later key decides, or the enumeration order of the store),
//! `?a < ?b` is false and `?a = ?b` is true.
use sophia_api::prelude::*;
use sophia_api::sparql::Query;
use sophia_api::term::SimpleTerm;
use sophia_sparql::*;

type MyQuad = ([SimpleTerm<'static>; 3], Option<SimpleTerm<'static>>);

fn iri(s: &'static str) -> SimpleTerm<'static> {
    SimpleTerm::Iri(IriRef::new_unchecked(s.into()))
}

fn xsd(lex: &'static str, dt: &str) -> SimpleTerm<'static> {
    SimpleTerm::LiteralDatatype(
        lex.into(),
        IriRef::new_unchecked(format!("http://www.w3.org/2001/XMLSchema#{dt}").into()),
    )
}

const EARLIER: &str = "2024-01-01T00:00:00.0000000001Z";
const LATER: &str = "2024-01-01T00:00:00.0000000002Z";

/// <x:a> <x:d> LATER; <x:n> 1 .   <x:b> <x:d> EARLIER; <x:n> 2 .
fn dataset() -> Vec<MyQuad> {
    vec![
        ([iri("x:a"), iri("x:d"), xsd(LATER, "dateTime")], None),
        ([iri("x:b"), iri("x:d"), xsd(EARLIER, "dateTime")], None),
        ([iri("x:a"), iri("x:n"), xsd("1", "integer")], None),
        ([iri("x:b"), iri("x:n"), xsd("2", "integer")], None),
    ]
}

fn select_d(query: &str) -> Vec<String> {
    let ds = dataset();
    let wrapper = SparqlWrapper(&ds);
    let query = SparqlQuery::parse(query).unwrap();
    wrapper
        .query(&query)
        .unwrap()
        .into_bindings()
        .into_iter()
        .map(|row| row.unwrap()[0].as_ref().unwrap().lexical_form().unwrap().to_string())
        .collect()
}

/// Expected: the earlier dateTime first.
#[test]
fn asc() {
    let got = select_d("SELECT ?d { ?s <x:d> ?d } ORDER BY ?d");
    assert_eq!(got, [EARLIER, LATER]);
}

/// Expected: the first key decides (the dateTimes are different), the second key is not used.
#[test]
fn asc_then_other_key() {
    let got = select_d("SELECT ?d { ?s <x:d> ?d ; <x:n> ?n } ORDER BY ?d ?n");
    assert_eq!(got, [EARLIER, LATER]);
}

/// Expected: the later dateTime first.
#[test]
fn desc_then_other_key() {
    let got = select_d("SELECT ?d { ?s <x:d> ?d ; <x:n> ?n } ORDER BY DESC(?d) DESC(?n)");
    assert_eq!(got, [LATER, EARLIER]);
}

/// The operator `<` itself: exactly one solution (?a = EARLIER, ?b = LATER) is expected.
#[test]
fn less_than() {
    let got = select_d("SELECT ?a { ?s <x:d> ?a . ?t <x:d> ?b FILTER(?a < ?b) }");
    assert_eq!(got, [EARLIER]);
}

/// Control: the same with a difference in the 9th digit passes.
#[test]
fn control_nanoseconds() {
    let ds: Vec<MyQuad> = vec![
        ([iri("x:a"), iri("x:d"), xsd("2024-01-01T00:00:00.000000002Z", "dateTime")], None),
        ([iri("x:b"), iri("x:d"), xsd("2024-01-01T00:00:00.000000001Z", "dateTime")], None),
    ];
    let wrapper = SparqlWrapper(&ds);
    let query = SparqlQuery::parse("SELECT ?d { ?s <x:d> ?d } ORDER BY ?d").unwrap();
    let got: Vec<String> = wrapper
        .query(&query)
        .unwrap()
        .into_bindings()
        .into_iter()
        .map(|row| row.unwrap()[0].as_ref().unwrap().lexical_form().unwrap().to_string())
        .collect();
    assert_eq!(got, ["2024-01-01T00:00:00.000000001Z", "2024-01-01T00:00:00.000000002Z"]);
}
