//! C14 / hunt3 / 1 -- ORDER BY sorts on a variable that is *not in scope*
//! (a variable of a sub-SELECT that the sub-SELECT does not project).
//!
//! Drop this file into `sparql/tests/hunt_C14_1.rs` and run
//! `cargo test -p sophia_sparql --test hunt_C14_1 --offline`.
//!
//! Property C14: "The sequence produced by ORDER BY is a permutation of the unordered
//! solutions in which, for every key, unbound comes before blank nodes, ..., and any two
//! values that SPARQL's '<' can compare appear in that order (reversed for DESC),
//! with later keys breaking ties."
//!
//! In `SELECT ?x { { SELECT ?x { ... ?y ... } } } ORDER BY ?y ?x`, the variable ?y of the
//! sub-SELECT is not projected: in the solutions of the outer query, ?y is unbound in *every*
//! solution (SPARQL 1.1, section 12 "Subqueries": "only variables projected out of the
//! subquery will be visible to the outer query").
//! The first key therefore ties everywhere, and the second key (?x) must decide.
//!
//! `ExecState::project` (sparql/src/exec.rs) only replaces the *list* of variables;
//! the non-projected variables stay in every `Binding`, where the ORDER BY of the
//! enclosing query still finds them (`ArcExpression::Variable` looks into `binding.v`).
use sophia_api::prelude::*;
use sophia_api::sparql::Query;
use sophia_api::term::SimpleTerm;
use sophia_sparql::*;

type MyQuad = ([SimpleTerm<'static>; 3], Option<SimpleTerm<'static>>);

fn iri(s: &'static str) -> SimpleTerm<'static> {
    SimpleTerm::Iri(IriRef::new_unchecked(s.into()))
}

fn int(lex: &'static str) -> SimpleTerm<'static> {
    SimpleTerm::LiteralDatatype(
        lex.into(),
        IriRef::new_unchecked("http://www.w3.org/2001/XMLSchema#integer".into()),
    )
}

/// x:a :p 1 ; :q 20 .   x:b :p 2 ; :q 30 .   x:c :p 3 ; :q 10 .
fn dataset() -> Vec<MyQuad> {
    vec![
        ([iri("x:a"), iri("x:p"), int("1")], None),
        ([iri("x:b"), iri("x:p"), int("2")], None),
        ([iri("x:c"), iri("x:p"), int("3")], None),
        ([iri("x:a"), iri("x:q"), int("20")], None),
        ([iri("x:b"), iri("x:q"), int("30")], None),
        ([iri("x:c"), iri("x:q"), int("10")], None),
    ]
}

/// Run `query` (which must select ?x first), and return the lexical forms of ?x.
fn xs(query: &str) -> Vec<String> {
    let ds = dataset();
    let wrapper = SparqlWrapper(&ds);
    let query = SparqlQuery::parse(query).unwrap();
    wrapper
        .query(&query)
        .unwrap()
        .into_bindings()
        .into_iter()
        .map(|row| {
            let row = row.unwrap();
            row[0]
                .as_ref()
                .map(|t| t.lexical_form().unwrap().to_string())
                .unwrap_or_else(|| "UNDEF".into())
        })
        .collect()
}

/// ?y is out of scope in the outer query (unbound in every solution): ?x decides.
#[test]
fn asc_key_on_a_variable_hidden_by_a_subselect_is_a_tie() {
    let got = xs("SELECT ?x { { SELECT ?x { ?s <x:p> ?x . ?s <x:q> ?y } } } ORDER BY ?y ?x");
    assert_eq!(got, ["1", "2", "3"], "expected: all solutions tie on ?y (unbound), then ASC(?x)");
}

/// Same with DESC keys: ties on ?y, then DESC(?x).
#[test]
fn desc_key_on_a_variable_hidden_by_a_subselect_is_a_tie() {
    let got = xs(
        "SELECT ?x { { SELECT ?x { ?s <x:p> ?x . ?s <x:q> ?y } } } ORDER BY DESC(?y) DESC(?x)",
    );
    assert_eq!(got, ["3", "2", "1"], "expected: all solutions tie on ?y (unbound), then DESC(?x)");
}

/// Same when the hidden variable comes from a BIND inside the sub-SELECT.
#[test]
fn key_on_a_variable_bound_by_bind_inside_a_subselect_is_a_tie() {
    let got = xs("SELECT ?x { { SELECT ?x { ?s <x:p> ?x BIND(-?x AS ?y) } } } ORDER BY ?y ?x");
    assert_eq!(got, ["1", "2", "3"], "expected: all solutions tie on ?y (unbound), then ASC(?x)");
}

/// Same with SELECT * in the outer query (its variables are those of the sub-SELECT: ?x only).
#[test]
fn select_star_over_a_subselect() {
    let got = xs("SELECT * { { SELECT ?x { ?s <x:p> ?x . ?s <x:q> ?y } } } ORDER BY ?y ?x");
    assert_eq!(got, ["1", "2", "3"], "expected: all solutions tie on ?y (unbound), then ASC(?x)");
}

/// Control: the same keys directly on the sub-SELECT's pattern, where ?y *is* in scope,
/// do sort by ?y (10 < 20 < 30, i.e. ?x = 3, 1, 2) -- this one passes.
#[test]
fn control_in_scope() {
    let got = xs("SELECT ?x { ?s <x:p> ?x . ?s <x:q> ?y } ORDER BY ?y ?x");
    assert_eq!(got, ["3", "1", "2"]);
}
