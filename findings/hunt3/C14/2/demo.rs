//! C14 / hunt3 / 2 -- inside ONE class of well-typed, mutually "<"-related values,
//! ORDER BY returns values that `<` orders in the wrong order:
//!   * numbers, as soon as a NaN is among the solutions;
//!   * xsd:dateTime, as soon as values with and without a timezone are among the solutions.
//!
//! Drop this file into `sparql/tests/hunt_C14_2.rs` and run
//! `cargo test -p sophia_sparql --test hunt_C14_2 --offline`.
//!
//! Property C14: "... any two values that SPARQL's '<' can compare (numerics of any type,
//! strings, booleans, dateTimes) appear in that order (reversed for DESC) ...
//! The order used is a genuine total preorder, so results are reproducible".
//! (quantifier: "... every numeric XSD type (including ... NaN, infinities ...")
//!
//! `EvalResult::sparql_order_by` (sparql/src/expression.rs) uses the value comparison when it
//! is defined, and `Term::cmp` (datatype IRI, then lexical form) otherwise.
//! The value comparison is undefined for NaN against any number, and for a dateTime without
//! timezone against a timezoned one less than 14 hours away; the fallback then compares
//! *lexical forms and datatype IRIs*, which contradicts the value order of the other pairs:
//!     "1.0"^^xsd:float  <  "2.0"^^xsd:double              (by value)
//!     "2.0"^^xsd:double <  "NaN"^^xsd:double              (same datatype, "2.0" < "NaN")
//!     "NaN"^^xsd:double <  "1.0"^^xsd:float               (datatype IRI: ...#double < ...#float)
//! All the literals below are well-typed and belong to a single value class; no unknown
//! datatype nor ill-typed literal is involved (that other case is already known).
use sophia_api::prelude::*;
use sophia_api::sparql::Query;
use sophia_api::term::SimpleTerm;
use sophia_sparql::*;

type MyQuad = ([SimpleTerm<'static>; 3], Option<SimpleTerm<'static>>);

fn iri(s: &'static str) -> SimpleTerm<'static> {
    SimpleTerm::Iri(IriRef::new_unchecked(s.into()))
}

fn xsd(lex: &'static str, dt: &str) -> SimpleTerm<'static> {
    SimpleTerm::LiteralDatatype(
        lex.into(),
        IriRef::new_unchecked(format!("http://www.w3.org/2001/XMLSchema#{dt}").into()),
    )
}

/// Store `values` (in that enumeration order) as objects of <x:p>,
/// and return the lexical forms of `SELECT ?x { ?s <x:p> ?x } ORDER BY <order>`.
fn order_by(values: &[SimpleTerm<'static>], order: &str) -> Vec<String> {
    let ds: Vec<MyQuad> = values
        .iter()
        .map(|v| ([iri("x:s"), iri("x:p"), v.clone()], None))
        .collect();
    let wrapper = SparqlWrapper(&ds);
    let query =
        SparqlQuery::parse(&format!("SELECT ?x {{ ?s <x:p> ?x }} ORDER BY {order}")).unwrap();
    wrapper
        .query(&query)
        .unwrap()
        .into_bindings()
        .into_iter()
        .map(|row| row.unwrap()[0].as_ref().unwrap().lexical_form().unwrap().to_string())
        .collect()
}

const PERMUTATIONS: [[usize; 3]; 6] = [
    [0, 1, 2],
    [0, 2, 1],
    [1, 0, 2],
    [1, 2, 0],
    [2, 0, 1],
    [2, 1, 0],
];

fn position(haystack: &[String], needle: &str) -> usize {
    haystack.iter().position(|x| x == needle).unwrap()
}

/// Expected: whatever the place given to NaN, 1.0 comes before 2.0 (1.0 < 2.0 is true),
/// and the result does not depend on the enumeration order of the store.
#[test]
fn nan_must_not_disturb_the_order_of_the_numbers() {
    let values = [xsd("1.0", "float"), xsd("2.0", "double"), xsd("NaN", "double")];
    let mut results = vec![];
    for p in PERMUTATIONS {
        let stored = p.map(|i| values[i].clone());
        let got = order_by(&stored, "?x");
        assert!(
            position(&got, "1.0") < position(&got, "2.0"),
            "store order {p:?}: ORDER BY ?x returned {got:?}, with 2.0 before 1.0"
        );
        results.push(got);
    }
    results.dedup();
    assert_eq!(results.len(), 1, "the same 3 solutions come in different orders: {results:?}");
}

/// Same with DESC: 2.0 must come before 1.0.
#[test]
fn nan_must_not_disturb_the_order_of_the_numbers_desc() {
    let values = [xsd("1.0", "float"), xsd("2.0", "double"), xsd("NaN", "double")];
    for p in PERMUTATIONS {
        let stored = p.map(|i| values[i].clone());
        let got = order_by(&stored, "DESC(?x)");
        assert!(
            position(&got, "2.0") < position(&got, "1.0"),
            "store order {p:?}: ORDER BY DESC(?x) returned {got:?}, with 1.0 before 2.0"
        );
    }
}

/// A larger result: 300 pseudo-random floats and doubles, among which some NaN;
/// expected: the numbers other than NaN come out in ascending order.
#[test]
fn nan_among_many_numbers() {
    let mut state = 4_u64;
    let mut next = move || {
        state = state
            .wrapping_mul(6364136223846793005)
            .wrapping_add(1442695040888963407);
        state >> 33
    };
    let mut values = vec![];
    for _ in 0..300 {
        let lex: &'static str = Box::leak(format!("{}.0", next() % 1000).into_boxed_str());
        values.push(match next() % 7 {
            0..=2 => xsd(lex, "float"),
            3 | 4 => xsd(lex, "double"),
            5 => xsd("NaN", "double"),
            _ => xsd("NaN", "float"),
        });
    }
    let got = order_by(&values, "?x");
    assert_eq!(got.len(), 300);
    let numbers: Vec<f64> = got
        .iter()
        .filter(|lex| *lex != "NaN")
        .map(|lex| lex.parse().unwrap())
        .collect();
    let descents: Vec<_> = numbers.windows(2).filter(|w| w[0] > w[1]).collect();
    assert!(
        descents.is_empty(),
        "the numbers are not in ascending order: {descents:?} in {numbers:?}"
    );
}

/// Three well-formed xsd:dateTime:
///   A = 2024-01-02T05:00:00+10:00  (= 2024-01-01T19:00:00Z)
///   B = 2024-01-01T20:00:00Z
///   N = 2024-01-02T00:00:00        (no timezone: `<` is undefined against A and B)
/// A < B is true, so A must come before B, wherever N is placed.
#[test]
fn datetime_without_timezone_must_not_disturb_the_order_of_the_others() {
    const A: &str = "2024-01-02T05:00:00+10:00";
    const B: &str = "2024-01-01T20:00:00Z";
    const N: &str = "2024-01-02T00:00:00";
    let values = [xsd(A, "dateTime"), xsd(B, "dateTime"), xsd(N, "dateTime")];
    let mut results = vec![];
    for p in PERMUTATIONS {
        let stored = p.map(|i| values[i].clone());
        let got = order_by(&stored, "?x");
        assert!(
            position(&got, A) < position(&got, B),
            "store order {p:?}: ORDER BY ?x returned {got:?}, with B before A although A < B"
        );
        results.push(got);
    }
    results.dedup();
    assert_eq!(results.len(), 1, "the same 3 solutions come in different orders: {results:?}");
}

/// Control: without NaN / without the timezone-less value, the order is right (these pass).
#[test]
fn control() {
    for p in [[0, 1], [1, 0]] {
        let values = [xsd("1.0", "float"), xsd("2.0", "double")];
        assert_eq!(order_by(&p.map(|i| values[i].clone()), "?x"), ["1.0", "2.0"]);
        let values = [
            xsd("2024-01-02T05:00:00+10:00", "dateTime"),
            xsd("2024-01-01T20:00:00Z", "dateTime"),
        ];
        assert_eq!(
            order_by(&p.map(|i| values[i].clone()), "?x"),
            ["2024-01-02T05:00:00+10:00", "2024-01-01T20:00:00Z"]
        );
    }
}
