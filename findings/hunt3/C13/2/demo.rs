//! C13 / hunt3 / 2 -- chains of `-` `+` and of `/` `*` are evaluated right to left.
//!
//! Drop this file in `sparql/tests/hunt_C13_2.rs` and run
//! `cargo test -p sophia_sparql --test hunt_C13_2 --offline`.
//!
//! SPARQL 1.1 grammar, rules [116] and [117]:
//!   AdditiveExpression       ::= MultiplicativeExpression ( '+' MultiplicativeExpression | '-' MultiplicativeExpression | ... )*
//!   MultiplicativeExpression ::= UnaryExpression ( '*' UnaryExpression | '/' UnaryExpression )*
//! i.e. operators of the same precedence associate to the LEFT: `10 - 3 - 2` is `(10 - 3) - 2` = 5.
//! The parser used by `SparqlQuery::parse` (spargebra 0.3.5, `AdditiveExpression_inner` /
//! `MultiplicativeExpression_inner` recurse on the right) builds `10 - (3 - 2)`,
//! and sophia_sparql evaluates that tree: BIND binds a wrong value, FILTER keeps / drops the wrong solutions.
//! No error is reported: the query "succeeds" with a wrong answer.

use sophia_api::prelude::*;
use sophia_api::sparql::{Query, SparqlDataset};
use sophia_inmem::dataset::LightDataset;
use sophia_sparql::{SparqlQuery, SparqlWrapper};

const DATA: &str = r#"
    @prefix : <tag:> .
    :a :price 10 ; :discount 3 ; :voucher 2 .
    :b :price 10 ; :discount 1 ; :voucher 1 .
"#;

fn dataset() -> LightDataset {
    sophia_turtle::parser::trig::parse_str(DATA)
        .collect_quads()
        .unwrap()
}

/// The rows of a one-column SELECT, as sorted strings ("UNBOUND" for an unbound variable)
fn select1(query: &str) -> Vec<String> {
    let dataset = dataset();
    let query = SparqlQuery::parse(query).unwrap();
    let bindings = SparqlWrapper(&dataset)
        .query(&query)
        .unwrap()
        .into_bindings();
    let mut rows: Vec<String> = bindings
        .into_iter()
        .map(|row| match &row.unwrap()[0] {
            Some(term) => term.to_string(),
            None => "UNBOUND".to_string(),
        })
        .collect();
    rows.sort();
    rows
}

const XSD: &str = "http://www.w3.org/2001/XMLSchema#";

/// Expected: 10 - 3 - 2 = (10 - 3) - 2 = 5
#[test]
fn subtraction_is_left_associative() {
    assert_eq!(
        select1("SELECT ?x { BIND(10 - 3 - 2 AS ?x) }"),
        [format!("\"5\"^^<{XSD}integer>")]
    );
}

/// Expected: 1 - 2 + 3 = (1 - 2) + 3 = 2
#[test]
fn mixed_additive_chain() {
    assert_eq!(
        select1("SELECT ?x { BIND(1 - 2 + 3 AS ?x) }"),
        [format!("\"2\"^^<{XSD}integer>")]
    );
}

/// Expected: 8 / 4 / 2 = (8 / 4) / 2 = 1 (an xsd:decimal, written "1.0" by this implementation)
#[test]
fn division_is_left_associative() {
    assert_eq!(
        select1("SELECT ?x { BIND(8 / 4 / 2 AS ?x) }"),
        [format!("\"1.0\"^^<{XSD}decimal>")]
    );
}

/// Expected: 8 / 2 * 4 = (8 / 2) * 4 = 16
#[test]
fn mixed_multiplicative_chain() {
    assert_eq!(
        select1("SELECT ?x { BIND(8 / 2 * 4 AS ?x) }"),
        [format!("\"16.0\"^^<{XSD}decimal>")]
    );
}

/// Expected: with variables bound by a basic graph pattern, the filter
/// `?p - ?d - ?v = 5` keeps :a (10 - 3 - 2 = 5) and drops :b (10 - 1 - 1 = 8).
#[test]
fn filter_on_a_chain_of_subtractions() {
    assert_eq!(
        select1(
            "PREFIX : <tag:> SELECT ?s { ?s :price ?p ; :discount ?d ; :voucher ?v FILTER(?p - ?d - ?v = 5) }"
        ),
        ["<tag:a>"]
    );
}

/// Control: explicit parentheses give the right answers (this passes today).
#[test]
fn control_with_parentheses() {
    assert_eq!(
        select1("SELECT ?x { BIND((10 - 3) - 2 AS ?x) }"),
        [format!("\"5\"^^<{XSD}integer>")]
    );
    assert_eq!(
        select1("SELECT ?x { BIND(10 - (3 - 2) AS ?x) }"),
        [format!("\"9\"^^<{XSD}integer>")]
    );
}
