//! C13 / hunt3 / 1 -- `IN` is not evaluated as the disjunction of equalities that SPARQL 1.1 defines.
//!
//! Drop this file in `sparql/tests/hunt_C13_1.rs` and run
//! `cargo test -p sophia_sparql --test hunt_C13_1 --offline`.
//!
//! SPARQL 1.1, 17.4.1.9: `lhs IN (e1, e2, ...)` is equivalent to `(lhs = e1) || (lhs = e2) || ...`;
//! "errors in comparisons cause the IN expression to raise an error [only] if the RDF term being
//! tested is not found elsewhere in the list". The specification gives the examples
//! `2 IN (<http://example/iri>, "str", 2.0)` = true and `2 IN (1/0, 2)` = true.
//! `ArcExpression::eval` stops at the first element whose comparison is *not false*,
//! so an error placed before the matching element makes the whole expression an error:
//! FILTER drops the solution, BIND leaves the variable unbound.

use sophia_api::prelude::*;
use sophia_api::sparql::{Query, SparqlDataset};
use sophia_inmem::dataset::LightDataset;
use sophia_sparql::{SparqlQuery, SparqlWrapper};

const DATA: &str = r#"
    @prefix : <tag:> .
    :s1 :p 1 .
    :s2 :p "str" .
    :s3 :p :other .
"#;

fn dataset() -> LightDataset {
    sophia_turtle::parser::trig::parse_str(DATA)
        .collect_quads()
        .unwrap()
}

fn ask(query: &str) -> bool {
    let dataset = dataset();
    let query = SparqlQuery::parse(query).unwrap();
    SparqlWrapper(&dataset)
        .query(&query)
        .unwrap()
        .into_boolean()
}

/// The rows of a one-column SELECT, as sorted strings ("UNBOUND" for an unbound variable)
fn select1(query: &str) -> Vec<String> {
    let dataset = dataset();
    let query = SparqlQuery::parse(query).unwrap();
    let bindings = SparqlWrapper(&dataset)
        .query(&query)
        .unwrap()
        .into_bindings();
    let mut rows: Vec<String> = bindings
        .into_iter()
        .map(|row| match &row.unwrap()[0] {
            Some(term) => term.to_string(),
            None => "UNBOUND".to_string(),
        })
        .collect();
    rows.sort();
    rows
}

/// Expected: true (this is, literally, an example of section 17.4.1.9)
#[test]
fn spec_example_error_before_the_match() {
    assert!(ask("ASK { FILTER(2 IN (1/0, 2)) }"));
}

/// Expected: true (example of section 17.4.1.9; `2 = "str"` is a type error, `2 = 2.0` is true)
#[test]
fn spec_example_incomparable_literal_before_the_match() {
    assert!(ask(
        r#"ASK { FILTER(2 IN (<http://example/iri>, "str", 2.0)) }"#
    ));
}

/// Expected: `?o IN ("str", 1)` selects the same solutions as `?o = "str" || ?o = 1`,
/// i.e. :s1 (1) and :s2 ("str"). The order of the list must not matter either.
#[test]
fn in_is_equivalent_to_the_disjunction() {
    let with_or =
        select1(r#"PREFIX : <tag:> SELECT ?s { ?s :p ?o FILTER(?o = "str" || ?o = 1) }"#);
    assert_eq!(with_or, ["<tag:s1>", "<tag:s2>"]);
    let in_1 = select1(r#"PREFIX : <tag:> SELECT ?s { ?s :p ?o FILTER(?o IN (1, "str")) }"#);
    let in_2 = select1(r#"PREFIX : <tag:> SELECT ?s { ?s :p ?o FILTER(?o IN ("str", 1)) }"#);
    assert_eq!(in_1, with_or, "?o IN (1, \"str\")");
    assert_eq!(in_2, with_or, "?o IN (\"str\", 1)");
}

/// Expected: `2 NOT IN (1/0, 2)` is false (example of section 17.4.1.10), not an error:
/// ?b is bound to false.
#[test]
fn not_in_with_error_before_the_match() {
    let rows = select1("SELECT ?b { BIND(2 NOT IN (1/0, 2) AS ?b) }");
    assert_eq!(
        rows,
        ["\"false\"^^<http://www.w3.org/2001/XMLSchema#boolean>"]
    );
}

/// Control: an error *without* any match is still an error (`2 IN (3, 1/0)` raises an error),
/// and a match placed before the error is found (`2 IN (2, 1/0)` = true). Both hold today.
#[test]
fn control_cases() {
    assert_eq!(select1("SELECT ?b { BIND(2 IN (3, 1/0) AS ?b) }"), ["UNBOUND"]);
    assert!(ask("ASK { FILTER(2 IN (2, 1/0)) }"));
}
