//! C13 / hunt3 / 4 -- a quoted triple whose SUBJECT is a quoted triple can be matched by a
//! triple pattern, but can not be built by an expression.
//!
//! Drop this file in `sparql/tests/hunt_C13_4.rs` and run
//! `cargo test -p sophia_sparql --test hunt_C13_4 --offline`.
//!
//! In RDF-star / SPARQL-star the subject of a (quoted) triple is an IRI, a blank node or a quoted
//! triple. The pattern matcher (matcher.rs, binding.rs) handles all three, and so does the object
//! position of `function::triple`; but `function::triple` rejects a subject that is neither an IRI
//! nor a blank node. The constant `<< << :a :b :c >> :p :o >>` in an expression (which the parser
//! turns into TRIPLE(TRIPLE(:a, :b, :c), :p, :o)) is therefore an *error*: a FILTER comparing a
//! matched term with it drops the solution, BIND leaves its variable unbound.

use sophia_api::prelude::*;
use sophia_api::sparql::{Query, SparqlDataset};
use sophia_inmem::dataset::LightDataset;
use sophia_sparql::{SparqlQuery, SparqlWrapper};

const DATA: &str = r#"
    @prefix : <tag:> .
    << << :a :b :c >> :p :o >> :certainty 0.5 .
    << :a :b << :a :b :c >> >> :certainty 0.8 .
    << :a :b :c >> :certainty 0.9 .
"#;

fn dataset() -> LightDataset {
    sophia_turtle::parser::trig::parse_str(DATA)
        .collect_quads()
        .unwrap()
}

/// The rows of a one-column SELECT, as sorted strings ("UNBOUND" for an unbound variable)
fn select1(query: &str) -> Vec<String> {
    let dataset = dataset();
    let query = SparqlQuery::parse(query).unwrap();
    let bindings = SparqlWrapper(&dataset)
        .query(&query)
        .unwrap()
        .into_bindings();
    let mut rows: Vec<String> = bindings
        .into_iter()
        .map(|row| match &row.unwrap()[0] {
            Some(term) => term.to_string(),
            None => "UNBOUND".to_string(),
        })
        .collect();
    rows.sort();
    rows
}

const NESTED_SUBJECT: &str = "<< << <tag:a> <tag:b> <tag:c> >> <tag:p> <tag:o> >>";

/// Control: the triple pattern with the nested quoted triple as a constant finds the statement
/// (this passes today).
#[test]
fn control_pattern_matching() {
    assert_eq!(
        select1("PREFIX : <tag:> SELECT ?c { << << :a :b :c >> :p :o >> :certainty ?c }"),
        ["\"0.5\"^^<http://www.w3.org/2001/XMLSchema#decimal>"]
    );
    assert_eq!(
        select1("PREFIX : <tag:> SELECT ?t { ?t :certainty 0.5 }"),
        [NESTED_SUBJECT]
    );
}

/// Expected: the same question asked with a FILTER has the same answer.
#[test]
fn filter_with_nested_subject() {
    assert_eq!(
        select1(
            "PREFIX : <tag:> SELECT ?c { ?t :certainty ?c FILTER(?t = << << :a :b :c >> :p :o >>) }"
        ),
        ["\"0.5\"^^<http://www.w3.org/2001/XMLSchema#decimal>"]
    );
}

/// Control: nesting in the *object* position works in expressions (this passes today).
#[test]
fn control_filter_with_nested_object() {
    assert_eq!(
        select1(
            "PREFIX : <tag:> SELECT ?c { ?t :certainty ?c FILTER(?t = << :a :b << :a :b :c >> >>) }"
        ),
        ["\"0.8\"^^<http://www.w3.org/2001/XMLSchema#decimal>"]
    );
}

/// Expected: ?t is bound to the nested quoted triple.
#[test]
fn bind_with_nested_subject() {
    assert_eq!(
        select1("PREFIX : <tag:> SELECT ?t { BIND(<< << :a :b :c >> :p :o >> AS ?t) }"),
        [NESTED_SUBJECT]
    );
    assert_eq!(
        select1("PREFIX : <tag:> SELECT ?t { BIND(TRIPLE(TRIPLE(:a, :b, :c), :p, :o) AS ?t) }"),
        [NESTED_SUBJECT]
    );
}

/// Expected: building the triple from matched terms works too:
/// every ?s of `?s :certainty ?c` is a quoted triple here, so there are three solutions.
#[test]
fn triple_built_from_a_matched_quoted_triple() {
    assert_eq!(
        select1("PREFIX : <tag:> SELECT ?t { ?s :certainty ?c BIND(TRIPLE(?s, :certainty, ?c) AS ?t) FILTER(isTRIPLE(?t)) }").len(),
        3
    );
}
