//! C13 / hunt3 / 3 -- `BNODE(str)` ignores its argument.
//!
//! Drop this file in `sparql/tests/hunt_C13_3.rs` and run
//! `cargo test -p sophia_sparql --test hunt_C13_3 --offline`.
//!
//! SPARQL 1.1, 17.4.2.9: "If a simple literal is passed, [...] each different string produces a
//! different blank node for the current solution mapping, and *the same string produces the same
//! blank node within the solution mapping*. Blank nodes constructed per solution mapping are
//! distinct from all other solution mappings."
//! `function::bnode1` discards its argument and returns a fresh blank node on every call
//! ("mimic Jena for the moment: ignore the argument"), so two calls with the same string in the
//! same solution give two different blank nodes: a FILTER comparing them drops every solution,
//! BIND produces two unrelated nodes.

use sophia_api::prelude::*;
use sophia_api::sparql::{Query, SparqlDataset};
use sophia_inmem::dataset::LightDataset;
use sophia_sparql::{SparqlQuery, SparqlWrapper};

const DATA: &str = r#"
    @prefix : <tag:> .
    :alice :name "Alice" ; :nick "Alice" .
    :bob   :name "Bob"   ; :nick "Bobby" .
"#;

fn dataset() -> LightDataset {
    sophia_turtle::parser::trig::parse_str(DATA)
        .collect_quads()
        .unwrap()
}

/// The rows of a SELECT, each one as the vector of its terms ("UNBOUND" for an unbound variable)
fn select(query: &str) -> Vec<Vec<String>> {
    let dataset = dataset();
    let query = SparqlQuery::parse(query).unwrap();
    let bindings = SparqlWrapper(&dataset)
        .query(&query)
        .unwrap()
        .into_bindings();
    let mut rows: Vec<Vec<String>> = bindings
        .into_iter()
        .map(|row| {
            row.unwrap()
                .iter()
                .map(|term| match term {
                    Some(term) => term.to_string(),
                    None => "UNBOUND".to_string(),
                })
                .collect()
        })
        .collect();
    rows.sort();
    rows
}

/// Expected: within one solution, BNODE("a") is one blank node: ?x and ?y are the same term,
/// and BNODE("b") is another one.
#[test]
fn same_string_same_bnode_within_a_solution() {
    let rows = select(r#"SELECT ?x ?y ?z { BIND(BNODE("a") AS ?x) BIND(BNODE("a") AS ?y) BIND(BNODE("b") AS ?z) }"#);
    assert_eq!(rows.len(), 1);
    let [x, y, z] = &rows[0][..] else { panic!() };
    assert!(x.starts_with("_:"));
    assert_ne!(x, z, "different strings, different blank nodes");
    assert_eq!(x, y, "same string, same blank node");
}

/// Expected: one solution (sameTerm(BNODE("a"), BNODE("a")) is true in any solution mapping).
#[test]
fn filter_on_two_calls_with_the_same_string() {
    let dataset = dataset();
    let query = SparqlQuery::parse(r#"ASK { FILTER(sameTerm(BNODE("a"), BNODE("a"))) }"#).unwrap();
    let answer = SparqlWrapper(&dataset)
        .query(&query)
        .unwrap()
        .into_boolean();
    assert!(answer);
}

/// Expected: the usual idiom "one blank node per distinct value in the row":
/// for :alice, ?name and ?nick are the same string, hence the same blank node;
/// for :bob they differ; and the nodes of :alice are not those of :bob.
#[test]
fn bnode_per_value_in_each_row() {
    let rows = select(
        "PREFIX : <tag:> SELECT ?s ?b1 ?b2 { ?s :name ?name ; :nick ?nick BIND(BNODE(?name) AS ?b1) BIND(BNODE(?nick) AS ?b2) }",
    );
    assert_eq!(rows.len(), 2);
    let (alice, bob) = (&rows[0], &rows[1]);
    assert_eq!(alice[0], "<tag:alice>");
    assert_eq!(bob[0], "<tag:bob>");
    assert_ne!(bob[1], bob[2], "Bob / Bobby: two blank nodes");
    assert_ne!(alice[1], bob[1], "blank nodes are not shared between solutions");
    assert_eq!(alice[1], alice[2], "Alice / Alice: one blank node");
}
