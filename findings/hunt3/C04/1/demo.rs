//! Property C04 - Turtle/TriG output (plain or pretty) parses back to an isomorphic dataset.
//!
//! Drop this file in `turtle/tests/hunt_C04_1.rs` and run
//! `cargo test -p sophia_turtle --test hunt_C04_1 --offline`.
//!
//! `LanguageTag::new` accepts tags whose *first* subtag contains digits (`a1`, `e2-US` ...).
//! The grammar of Turtle / TriG (and N-Triples, SPARQL) only allows letters there:
//!     LANGTAG ::= '@' [a-zA-Z]+ ('-' [a-zA-Z0-9]+)*
//! Both the streaming and the pretty serializer copy the tag verbatim after `@`,
//! so a literal that Sophia considers valid is written as `"chat"@a1`,
//! which is not a Turtle token: the document does not parse back.

use sophia_api::prelude::*;
use sophia_api::quad::Spog;
use sophia_api::term::{LanguageTag, SimpleTerm};
use sophia_isomorphism::{isomorphic_datasets, isomorphic_graphs};
use sophia_turtle::parser::{trig, turtle};
use sophia_turtle::serializer::trig::{TrigConfig, TrigSerializer};
use sophia_turtle::serializer::turtle::{TurtleConfig, TurtleSerializer};

type T = SimpleTerm<'static>;

fn iri(s: &'static str) -> T {
    SimpleTerm::Iri(IriRef::new(s.into()).unwrap())
}

/// A language-tagged literal built only with *checked* constructors
/// (None if Sophia rejects the tag: then there is nothing to serialize, and the property holds).
fn literal(tag: &'static str) -> Option<T> {
    let tag = LanguageTag::new(tag).ok()?;
    Some("chat" * tag)
}

fn turtle_roundtrip(tag: &'static str, pretty: bool) {
    let Some(lit) = literal(tag) else { return };
    let g1: Vec<[T; 3]> = vec![[
        iri("http://example.org/s"),
        iri("http://example.org/p"),
        lit,
    ]];
    let config = TurtleConfig::new().with_pretty(pretty);
    let out = TurtleSerializer::new_stringifier_with_config(config)
        .serialize_triples(g1.triples())
        .unwrap()
        .to_string();
    // EXPECTED (C04): the output is a valid Turtle document ...
    let g2: Vec<[T; 3]> = turtle::parse_str(&out)
        .collect_triples()
        .unwrap_or_else(|e| panic!("pretty={pretty}: output is not valid Turtle: {e}\n{out}"));
    // ... whose parse is isomorphic to the input (same lexical form, same language tag).
    assert!(isomorphic_graphs(&g1, &g2).unwrap(), "{out}");
}

fn trig_roundtrip(tag: &'static str, pretty: bool) {
    let Some(lit) = literal(tag) else { return };
    let d1: Vec<Spog<T>> = vec![(
        [
            iri("http://example.org/s"),
            iri("http://example.org/p"),
            lit,
        ],
        Some(iri("http://example.org/g")),
    )];
    let config = TrigConfig::new().with_pretty(pretty);
    let out = TrigSerializer::new_stringifier_with_config(config)
        .serialize_quads(d1.quads())
        .unwrap()
        .to_string();
    let d2: Vec<Spog<T>> = trig::parse_str(&out)
        .collect_quads()
        .unwrap_or_else(|e| panic!("pretty={pretty}: output is not valid TriG: {e}\n{out}"));
    assert!(isomorphic_datasets(&d1, &d2).unwrap(), "{out}");
}

/// Sanity check: an ordinary tag round-trips in the four configurations.
#[test]
fn ordinary_tag_roundtrips() {
    for pretty in [false, true] {
        turtle_roundtrip("fr-FR", pretty);
        trig_roundtrip("fr-FR", pretty);
    }
}

/// EXPECTED: whatever `LanguageTag::new` accepts can be written in Turtle and read back.
/// OBSERVED: `"chat"@a1` is written; the parser rejects it (`a1` is not a LANGTAG).
#[test]
fn digit_in_first_subtag_turtle_streaming() {
    turtle_roundtrip("a1", false);
}

#[test]
fn digit_in_first_subtag_turtle_pretty() {
    turtle_roundtrip("a1", true);
}

#[test]
fn digit_in_first_subtag_trig_streaming() {
    trig_roundtrip("e2-US", false);
}

#[test]
fn digit_in_first_subtag_trig_pretty() {
    trig_roundtrip("e2-US", true);
}
