//! Property C04 - Turtle/TriG output (plain or pretty) parses back to an isomorphic dataset.
//!
//! Drop this file in `turtle/tests/hunt_C04_2.rs` and run
//! `cargo test -p sophia_turtle --test hunt_C04_2 --offline`.
//!
//! A blank node identifier may contain consecutive dots:
//!     BLANK_NODE_LABEL ::= '_:' (PN_CHARS_U | [0-9]) ((PN_CHARS | '.')* PN_CHARS)?
//! `BnodeId::new("a..b")` (rightly) accepts it, the streaming serializers (Rio formatters) and the
//! pretty serializer (for every blank node that keeps its label) write `_:a..b` verbatim,
//! but the Turtle/TriG parser used by Sophia (rio_turtle `parse_blank_node_label`) only looks one
//! character ahead after a '.', stops the label at `a` and then chokes on `..b`.
//! So a strict RDF graph, serialized by Sophia, can not be read back by Sophia.

use sophia_api::prelude::*;
use sophia_api::quad::Spog;
use sophia_api::term::{BnodeId, SimpleTerm};
use sophia_isomorphism::{isomorphic_datasets, isomorphic_graphs};
use sophia_turtle::parser::{trig, turtle};
use sophia_turtle::serializer::trig::{TrigConfig, TrigSerializer};
use sophia_turtle::serializer::turtle::{TurtleConfig, TurtleSerializer};

type T = SimpleTerm<'static>;

fn iri(s: &'static str) -> T {
    SimpleTerm::Iri(IriRef::new(s.into()).unwrap())
}

/// A blank node built with the *checked* constructor.
fn bnode(id: &'static str) -> T {
    SimpleTerm::BlankNode(
        BnodeId::new(id)
            .expect("valid BLANK_NODE_LABEL")
            .map_unchecked(Into::into),
    )
}

fn turtle_roundtrip(id: &'static str, pretty: bool) {
    let p = iri("http://example.org/p");
    // the blank node is the object of two triples: the pretty serializer must keep its label
    let g1: Vec<[T; 3]> = vec![
        [iri("http://example.org/s1"), p.clone(), bnode(id)],
        [iri("http://example.org/s2"), p.clone(), bnode(id)],
        [bnode(id), p.clone(), iri("http://example.org/o")],
    ];
    let config = TurtleConfig::new().with_pretty(pretty);
    let out = TurtleSerializer::new_stringifier_with_config(config)
        .serialize_triples(g1.triples())
        .unwrap()
        .to_string();
    // EXPECTED (C04): the output is a valid Turtle document ...
    let g2: Vec<[T; 3]> = turtle::parse_str(&out)
        .collect_triples()
        .unwrap_or_else(|e| panic!("pretty={pretty}: output does not parse back: {e}\n{out}"));
    // ... whose parse is isomorphic to the input.
    assert_eq!(g2.len(), 3, "{out}");
    assert!(isomorphic_graphs(&g1, &g2).unwrap(), "{out}");
}

fn trig_roundtrip(id: &'static str, pretty: bool) {
    let p = iri("http://example.org/p");
    // the blank node is used as graph name and as object
    let d1: Vec<Spog<T>> = vec![
        (
            [iri("http://example.org/s"), p.clone(), iri("http://example.org/o")],
            Some(bnode(id)),
        ),
        ([iri("http://example.org/s"), p.clone(), bnode(id)], None),
    ];
    let config = TrigConfig::new().with_pretty(pretty);
    let out = TrigSerializer::new_stringifier_with_config(config)
        .serialize_quads(d1.quads())
        .unwrap()
        .to_string();
    let d2: Vec<Spog<T>> = trig::parse_str(&out)
        .collect_quads()
        .unwrap_or_else(|e| panic!("pretty={pretty}: output does not parse back: {e}\n{out}"));
    assert_eq!(d2.len(), 2, "{out}");
    assert!(isomorphic_datasets(&d1, &d2).unwrap(), "{out}");
}

/// Sanity check: a label with single dots round-trips in the four configurations.
#[test]
fn single_dots_roundtrip() {
    for pretty in [false, true] {
        turtle_roundtrip("a.b.c", pretty);
        trig_roundtrip("a.b.c", pretty);
    }
}

/// EXPECTED: `_:a..b` is a legal label, the output parses back to an isomorphic graph.
/// OBSERVED: parse error "unexpected character '.'".
#[test]
fn consecutive_dots_turtle_streaming() {
    turtle_roundtrip("a..b", false);
}

#[test]
fn consecutive_dots_turtle_pretty() {
    turtle_roundtrip("a..b", true);
}

#[test]
fn consecutive_dots_trig_streaming() {
    trig_roundtrip("b1...x", false);
}

#[test]
fn consecutive_dots_trig_pretty() {
    trig_roundtrip("b1...x", true);
}
