//! C16 - stack use must not grow with the amount of data processed.
//!
//! Drop this file in `jsonld/tests/hunt_C16_3.rs` and run
//! `cargo test -p sophia_jsonld --test hunt_C16_3 --offline -- --test-threads 1`.
//!
//! `JsonLdParser::parse_str` (jsonld/src/parser.rs) hands the document to
//! `json_ld::JsonLdProcessor::to_rdf_with_using` on the calling thread (`rt.block_on(..)`).
//! The expansion algorithm of the `json-ld` crate (json_ld_expansion 0.15: expand_element ->
//! expand_node -> expand_node_entries, boxed recursive futures polled on the caller's stack)
//! uses five very large stack frames (~130 KiB in a dev build) per node object nested in
//! another one. A document that is just a *chain of 20 statements* written with nested node
//! objects (`{"p": {"p": {"p": ... 1}}}`, no collection, no quoted triple: the RDF is flat)
//! overflows a 2 MiB stack in a dev build (14 levels pass, 15 overflow); in a release build
//! 100 levels pass and 300 overflow. The process is aborted, no error value is returned
//! (compare with the Turtle parser, which answers "more than 128 nested constructions"
//! with an error value for `[ p [ p [ ...`).
//!
//! A stack overflow aborts the process, so each test re-runs itself in a child process
//! (env var `HUNT_C16_CHILD`) and checks the exit status of the child.

use sophia_api::prelude::*;
use sophia_api::term::SimpleTerm;
use sophia_jsonld::JsonLdParser;

type Q = ([SimpleTerm<'static>; 3], Option<SimpleTerm<'static>>);

/// nesting depth used by the failing test: 20 statements in a dev build, 400 in a release build
const DEPTH: usize = if cfg!(debug_assertions) { 20 } else { 400 };

fn on_2mib_stack<F: FnOnce() + Send + 'static>(f: F) {
    std::thread::Builder::new()
        .stack_size(2 * 1024 * 1024)
        .spawn(f)
        .unwrap()
        .join()
        .unwrap();
}

fn run_child(name: &str) -> std::process::ExitStatus {
    std::process::Command::new(std::env::current_exe().unwrap())
        .args([name, "--exact", "--test-threads", "1"])
        .env("HUNT_C16_CHILD", "1")
        .status()
        .unwrap()
}

fn is_child() -> bool {
    std::env::var_os("HUNT_C16_CHILD").is_some()
}

/// `_:b0 <http://e/p> _:b1 . _:b1 <http://e/p> _:b2 . ... _:b(k-1) <http://e/p> 1 .`
/// written as k nested node objects
fn chain(k: usize) -> String {
    let mut doc = String::new();
    for _ in 0..k {
        doc.push_str("{\"http://e/p\":");
    }
    doc.push('1');
    for _ in 0..k {
        doc.push('}');
    }
    doc
}

/// Parse the chain: the expected outcome is k quads (an error *value* would also be acceptable
/// for the property, a process abort is not).
fn parse_chain(k: usize) {
    let res = JsonLdParser::new()
        .parse_str(&chain(k))
        .collect_quads::<Vec<Q>>();
    match res {
        Ok(quads) => assert_eq!(quads.len(), k),
        Err(e) => eprintln!("rejected with an error value: {e}"),
    }
}

/// Control: a chain of 5 statements is parsed on a 2 MiB stack.
#[test]
fn control_chain_of_5_nested_node_objects() {
    if is_child() {
        on_2mib_stack(|| parse_chain(5));
        return;
    }
    let status = run_child("control_chain_of_5_nested_node_objects");
    assert!(status.success(), "control failed: {status:?}");
}

/// Expected (C16): parsing completes (or fails with an error value) on a 2 MiB stack;
/// the stack may depend on the nesting of quoted triples and collections, not on the number
/// of statements of a blank node chain.
/// Observed: the child process dies with "thread has overflowed its stack" (SIGABRT).
#[test]
fn chain_of_nested_node_objects() {
    if is_child() {
        on_2mib_stack(|| parse_chain(DEPTH));
        return;
    }
    let status = run_child("chain_of_nested_node_objects");
    assert!(
        status.success(),
        "JsonLdParser::parse_str did not complete on a 2 MiB stack \
         for a chain of {DEPTH} nested node objects: {status:?}"
    );
}
