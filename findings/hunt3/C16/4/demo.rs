//! C16 - stack use must not grow with the amount of data processed.
//!
//! Drop this file in `jsonld/tests/hunt_C16_4.rs` and run
//! `cargo test -p sophia_jsonld --test hunt_C16_4 --offline -- --test-threads 1`.
//!
//! The JSON-LD serializer turns an `rdf:JSON` literal into a JSON tree
//! (`Engine::convert_rdf_object`, jsonld/src/serializer/engine.rs: `JsonValue::parse_str(txt, ..)`)
//! and embeds it in the output, which `JsonLdSerializer::serialize_quads`
//! (jsonld/src/serializer.rs) prints with `compact_print()` / `print_with(..)`.
//! json_syntax parses iteratively, but prints (and drops) the tree recursively:
//! `pre_compute_size` / `fmt_with` use ~4 frames per nested array or object.
//! One single statement whose literal is `[[[[ ... 1 ... ]]]]` (flat RDF: no quoted triple,
//! no collection; 10 001 characters) overflows a 2 MiB stack in a dev build
//! (nesting 1000 passes, 2000 overflows; release: 5000 passes, 20 000 overflows).
//! The process is aborted, no error value is returned.
//!
//! A stack overflow aborts the process, so each test re-runs itself in a child process
//! (env var `HUNT_C16_CHILD`) and checks the exit status of the child.

use sophia_api::prelude::*;
use sophia_api::term::{IriRef, SimpleTerm};
use sophia_jsonld::JsonLdSerializer;

type Q = ([SimpleTerm<'static>; 3], Option<SimpleTerm<'static>>);

/// nesting of the JSON value in the literal
const DEPTH: usize = if cfg!(debug_assertions) { 5_000 } else { 50_000 };

fn on_2mib_stack<F: FnOnce() + Send + 'static>(f: F) {
    std::thread::Builder::new()
        .stack_size(2 * 1024 * 1024)
        .spawn(f)
        .unwrap()
        .join()
        .unwrap();
}

fn run_child(name: &str) -> std::process::ExitStatus {
    std::process::Command::new(std::env::current_exe().unwrap())
        .args([name, "--exact", "--test-threads", "1"])
        .env("HUNT_C16_CHILD", "1")
        .status()
        .unwrap()
}

fn is_child() -> bool {
    std::env::var_os("HUNT_C16_CHILD").is_some()
}

/// Serialize `<http://e/s> <http://e/p> "[[[..1..]]]"^^rdf:JSON .` (nesting `k`) as JSON-LD.
/// The expected outcome is a document containing the value
/// (an error *value* would also be acceptable for the property, a process abort is not).
fn serialize_json_literal(k: usize) {
    let lex = format!("{}1{}", "[".repeat(k), "]".repeat(k));
    let d: Vec<Q> = vec![(
        [
            SimpleTerm::Iri(IriRef::new_unchecked("http://e/s".into())),
            SimpleTerm::Iri(IriRef::new_unchecked("http://e/p".into())),
            SimpleTerm::LiteralDatatype(
                lex.clone().into(),
                IriRef::new_unchecked("http://www.w3.org/1999/02/22-rdf-syntax-ns#JSON".into()),
            ),
        ],
        None,
    )];
    let mut ser = JsonLdSerializer::new_stringifier();
    match ser.serialize_quads(d.quads()) {
        Ok(ser) => assert!(ser.as_str().contains(&lex)),
        Err(e) => eprintln!("rejected with an error value: {e}"),
    }
}

/// Control: nesting 50 is serialized on a 2 MiB stack.
#[test]
fn control_json_literal_nested_50() {
    if is_child() {
        on_2mib_stack(|| serialize_json_literal(50));
        return;
    }
    let status = run_child("control_json_literal_nested_50");
    assert!(status.success(), "control failed: {status:?}");
}

/// Expected (C16): serializing one statement completes (or fails with an error value) on a
/// 2 MiB stack, whatever the number of characters of its literal.
/// Observed: the child process dies with "thread has overflowed its stack" (SIGABRT).
#[test]
fn json_literal_deeply_nested() {
    if is_child() {
        on_2mib_stack(|| serialize_json_literal(DEPTH));
        return;
    }
    let status = run_child("json_literal_deeply_nested");
    assert!(
        status.success(),
        "JsonLdSerializer did not complete on a 2 MiB stack for one rdf:JSON literal of {} characters \
         (JSON nesting {DEPTH}): {status:?}",
        2 * DEPTH + 1
    );
}
