//! C16 - stack use must not grow with the amount of data processed.
//!
//! Drop this file in `turtle/tests/hunt_C16_1.rs` and run
//! `cargo test -p sophia_turtle --test hunt_C16_1 --offline -- --test-threads 1`.
//!
//! The streaming (non pretty) Turtle and TriG serializers - the *default* configuration of
//! `TurtleSerializer` / `TrigSerializer` - go through `sophia_rio::serializer::rio_format_triples`
//! / `rio_format_quads`. These convert each statement with `convert_triple`, which pushes every
//! quoted triple of the statement on a home made linked list
//! (`enum Stack<T> { Empty, Node(Box<(T, Stack<T>)>) }`, rio/src/serializer.rs).
//! The conversion itself recurses once per *nesting level*, which is fine, but the list has one
//! node per *quoted triple* of the statement, and its compiler generated drop glue recurses once
//! per node. A statement whose terms are quoted triples on both sides (a "wide" term: nesting
//! depth 16, 65 535 quoted triples) therefore needs ~200 000 stack frames to be *dropped*,
//! and overflows a 2 MiB stack (in a dev build from ~22 000 quoted triples, i.e. nesting depth 15;
//! in a release build at nesting depth 17).
//!
//! The N-Triples serializer and the pretty Turtle serializer handle the same statement
//! with a recursion depth of 16.
//!
//! A stack overflow aborts the process, so each test re-runs itself in a child process
//! (env var `HUNT_C16_CHILD`) and checks the exit status of the child.

use sophia_api::prelude::*;
use sophia_api::term::{IriRef, SimpleTerm};
use sophia_turtle::serializer::nt::NtSerializer;
use sophia_turtle::serializer::trig::TrigSerializer;
use sophia_turtle::serializer::turtle::{TurtleConfig, TurtleSerializer};

/// nesting depth of the quoted triples (the statement contains 2^DEPTH - 1 quoted triples)
const DEPTH: usize = 16;

type T = [SimpleTerm<'static>; 3];
type Q = ([SimpleTerm<'static>; 3], Option<SimpleTerm<'static>>);

fn iri(s: String) -> SimpleTerm<'static> {
    SimpleTerm::Iri(IriRef::new_unchecked(s.into()))
}

/// `<< << .. >> <http://e/p> << .. >> >>`, a balanced tree of quoted triples of depth `d`
fn wide(d: usize, c: &mut usize) -> SimpleTerm<'static> {
    if d == 0 {
        *c += 1;
        return iri(format!("http://e/{c}"));
    }
    SimpleTerm::Triple(Box::new([
        wide(d - 1, c),
        iri("http://e/p".into()),
        wide(d - 1, c),
    ]))
}

fn statement() -> T {
    let mut c = 0;
    [
        wide(DEPTH, &mut c),
        iri("http://e/p".into()),
        iri("http://e/o".into()),
    ]
}

fn on_2mib_stack<F: FnOnce() + Send + 'static>(f: F) {
    std::thread::Builder::new()
        .stack_size(2 * 1024 * 1024)
        .spawn(f)
        .unwrap()
        .join()
        .unwrap();
}

/// Run test `name` of this very test binary in a child process, and return how it ended.
fn run_child(name: &str) -> std::process::ExitStatus {
    std::process::Command::new(std::env::current_exe().unwrap())
        .args([name, "--exact", "--test-threads", "1"])
        .env("HUNT_C16_CHILD", "1")
        .status()
        .unwrap()
}

fn is_child() -> bool {
    std::env::var_os("HUNT_C16_CHILD").is_some()
}

/// Control: the same statement is serialized by the N-Triples serializer and by the pretty
/// Turtle serializer on a 2 MiB stack (their recursion depth is the nesting depth, 16).
#[test]
fn control_nt_and_pretty_turtle_serialize_the_wide_statement() {
    if is_child() {
        on_2mib_stack(|| {
            let g: Vec<T> = vec![statement()];
            let mut nt = NtSerializer::new_stringifier();
            nt.serialize_triples(g.triples()).unwrap();
            assert!(nt.as_str().len() > 1_000_000);
            let mut pretty =
                TurtleSerializer::new_stringifier_with_config(TurtleConfig::new().with_pretty(true));
            pretty.serialize_triples(g.triples()).unwrap();
            assert!(pretty.as_str().len() > 1_000_000);
        });
        return;
    }
    let status = run_child("control_nt_and_pretty_turtle_serialize_the_wide_statement");
    assert!(status.success(), "control failed: {status:?}");
}

/// Expected (C16): serializing one statement of nesting depth 16 completes on a 2 MiB stack,
/// whatever the number of quoted triples it contains.
/// Observed: the child process dies with "thread has overflowed its stack" (SIGABRT).
#[test]
fn default_turtle_serializer_on_a_wide_quoted_triple() {
    if is_child() {
        on_2mib_stack(|| {
            let g: Vec<T> = vec![statement()];
            let mut ser = TurtleSerializer::new_stringifier();
            ser.serialize_triples(g.triples()).unwrap();
            assert!(ser.as_str().len() > 1_000_000);
        });
        return;
    }
    let status = run_child("default_turtle_serializer_on_a_wide_quoted_triple");
    assert!(
        status.success(),
        "TurtleSerializer (default config) did not complete on a 2 MiB stack \
         for one statement of nesting depth {DEPTH} ({} quoted triples): {status:?}",
        (1usize << DEPTH) - 1
    );
}

/// Same expectation for the default (streaming) TriG serializer (`rio_format_quads`).
#[test]
fn default_trig_serializer_on_a_wide_quoted_triple() {
    if is_child() {
        on_2mib_stack(|| {
            let d: Vec<Q> = vec![(statement(), Some(iri("http://e/g".into())))];
            let mut ser = TrigSerializer::new_stringifier();
            ser.serialize_quads(d.quads()).unwrap();
            assert!(ser.as_str().len() > 1_000_000);
        });
        return;
    }
    let status = run_child("default_trig_serializer_on_a_wide_quoted_triple");
    assert!(
        status.success(),
        "TrigSerializer (default config) did not complete on a 2 MiB stack \
         for one statement of nesting depth {DEPTH} ({} quoted triples): {status:?}",
        (1usize << DEPTH) - 1
    );
}
