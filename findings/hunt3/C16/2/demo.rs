//! C16 - stack use must not grow with the size of what is processed.
//!
//! Drop this file in `sparql/tests/hunt_C16_2.rs` and run
//! `cargo test -p sophia_sparql --test hunt_C16_2 --offline -- --test-threads 1`.
//!
//! `ExecState::order_by` (sparql/src/exec.rs) compares two solutions with the local function
//! `cmp_bindings_with`, which handles the *first* sort criterion and calls itself on the rest of
//! the slice (`o.then_with(|| cmp_bindings_with(b1, b2, rest, ..))`): one stack frame (plus one
//! closure frame) per sort criterion on which the two solutions tie.
//! The ORDER BY clause is a flat list in the query and a flat `Vec<OrderExpression>` in the algebra,
//! there is no nesting whatsoever in it; still, 3000 criteria overflow a 2 MiB stack in a dev build
//! (2000 pass), as soon as two solutions tie on all of them.
//!
//! A stack overflow aborts the process, so the test re-runs itself in a child process
//! (env var `HUNT_C16_CHILD`) and checks the exit status of the child.

use sophia_api::prelude::*;
use sophia_api::sparql::Query;
use sophia_api::term::{IriRef, SimpleTerm};
use sophia_inmem::dataset::LightDataset;
use sophia_sparql::*;
use std::fmt::Write;

fn iri(s: String) -> SimpleTerm<'static> {
    SimpleTerm::Iri(IriRef::new_unchecked(s.into()))
}

fn on_2mib_stack<F: FnOnce() + Send + 'static>(f: F) {
    std::thread::Builder::new()
        .stack_size(2 * 1024 * 1024)
        .spawn(f)
        .unwrap()
        .join()
        .unwrap();
}

fn run_child(name: &str) -> std::process::ExitStatus {
    std::process::Command::new(std::env::current_exe().unwrap())
        .args([name, "--exact", "--test-threads", "1"])
        .env("HUNT_C16_CHILD", "1")
        .status()
        .unwrap()
}

fn is_child() -> bool {
    std::env::var_os("HUNT_C16_CHILD").is_some()
}

/// `SELECT ?s { ?s ?p ?o } ORDER BY ?o ?o ... ?o ?s` (n times `?o`, on which all solutions tie)
/// over three triples with the same object; returns the subjects in the order of the results.
fn sorted_subjects(n: usize) -> Vec<String> {
    let mut d = LightDataset::new();
    for i in [2, 0, 1] {
        d.insert(
            iri(format!("http://e/s{i}")),
            iri("http://e/p".into()),
            iri("http://e/o".into()),
            None::<SimpleTerm>,
        )
        .unwrap();
    }
    let mut q = String::from("SELECT ?s { ?s ?p ?o } ORDER BY");
    for _ in 0..n {
        write!(q, " ?o").unwrap();
    }
    q.push_str(" DESC(?s)");
    let q = SparqlQuery::parse(&q).unwrap();
    SparqlWrapper(&d)
        .query(&q)
        .unwrap()
        .into_bindings()
        .into_iter()
        .map(|r| r.unwrap()[0].as_ref().unwrap().to_string())
        .collect()
}

/// Control: the same query with 100 criteria is answered (and correctly sorted) on a 2 MiB stack.
#[test]
fn control_order_by_100_criteria() {
    if is_child() {
        on_2mib_stack(|| {
            assert_eq!(
                sorted_subjects(100),
                ["<http://e/s2>", "<http://e/s1>", "<http://e/s0>"]
            );
        });
        return;
    }
    let status = run_child("control_order_by_100_criteria");
    assert!(status.success(), "control failed: {status:?}");
}

/// Expected (C16): the query completes (or fails with an error value) on a 2 MiB stack:
/// the list of sort criteria is flat, comparing two solutions is a loop over it.
/// Observed: the child process dies with "thread has overflowed its stack" (SIGABRT).
#[test]
fn order_by_5000_criteria() {
    if is_child() {
        on_2mib_stack(|| {
            assert_eq!(
                sorted_subjects(5000),
                ["<http://e/s2>", "<http://e/s1>", "<http://e/s0>"]
            );
        });
        return;
    }
    let status = run_child("order_by_5000_criteria");
    assert!(
        status.success(),
        "ORDER BY with 5000 criteria over 3 solutions did not complete on a 2 MiB stack: {status:?}"
    );
}
