//! C15 / hunt 3 / violation 2
//!
//! Drop this file into `api/tests/hunt_C15_2.rs` and run
//! `cargo test -p sophia_api --test hunt_C15_2 --offline`.
//!
//! Property C15: "If the source fails at item k [...] processing stops there: exactly
//! the items before k have been consumed, none after".
//!
//! `MapSource::into_iter()` (the iterator view of `map_items` / `map_triples` /
//! `map_quads`) now stops for good once its source has failed (flag `done`, set by the
//! repair "map / filter-map source iterators stop polling a source that has failed or
//! ended"). But `MapSourceIterator::size_hint` does not look at that flag: it still adds
//! the hint of the abandoned source to the number of buffered items. For a source that is
//! an iterator of results (a vector of results, `Graph::triples()` of a fallible store...),
//! that hint counts the items *after* the fault, which are never going to be yielded.
//! So after having yielded `Err(MyErr(k))` the iterator announces `n - k - 1` more items
//! (lower bound!) and then yields `None`: the contract of `Iterator::size_hint`
//! ("the lower bound must not be greater than the number of remaining items") is broken,
//! and the hint promises exactly the items that C15 says must not be delivered.
//! (The sibling `FilterMapSourceIterator::size_hint` uses `buffered` as its lower bound
//! and is correct.)

use sophia_api::source::Source;

#[derive(Debug, PartialEq)]
struct MyErr(usize);
impl std::fmt::Display for MyErr {
    fn fmt(&self, f: &mut std::fmt::Formatter<'_>) -> std::fmt::Result {
        write!(f, "MyErr({})", self.0)
    }
}
impl std::error::Error for MyErr {}

const N: usize = 6;

/// A source of N items which fails (instead of yielding) at item k.
fn failing_source(k: usize) -> std::vec::IntoIter<Result<usize, MyErr>> {
    (0..N)
        .map(|i| if i == k { Err(MyErr(i)) } else { Ok(i) })
        .collect::<Vec<_>>()
        .into_iter()
}

/// Expected: once the iterator has yielded the fault of its source, it is finished;
/// so from then on the lower bound of `size_hint()` must be 0
/// (`Iterator::size_hint`: the lower bound is at most the number of remaining items).
///
/// Observed: once the source has failed at item k (k < N-1), `next()` returns `None`
/// for ever, but `size_hint()` returns `(N-k-1, Some(N-k-1))`.
#[test]
fn map_iterator_hint_is_honest_after_a_source_fault_at_every_position() {
    for k in 0..N {
        // what the iterator yields: exactly the prefix before the fault, then the fault
        let yielded: Vec<_> = failing_source(k).map_items(|i| i * 10).into_iter().collect();
        let mut exp: Vec<Result<usize, MyErr>> = (0..k).map(|i| Ok(i * 10)).collect();
        exp.push(Err(MyErr(k)));
        assert_eq!(yielded, exp, "k={k}");

        let mut it = failing_source(k).map_items(|i| i * 10).into_iter();
        for i in 0..k {
            assert_eq!(it.next(), Some(Ok(i * 10)));
        }
        assert_eq!(it.next(), Some(Err(MyErr(k))));
        // the fault has been reported: nothing more will come...
        let hint = it.size_hint();
        assert_eq!(it.next(), None);
        assert_eq!(it.next(), None);
        // ... so the iterator must not have announced anything
        assert_eq!(
            hint.0, 0,
            "source fault at item {k} of {N}: after having yielded the fault, the iterator \
             announced {hint:?} more items, and then yielded None"
        );
        assert_eq!(it.size_hint().0, 0, "k={k}: a finished iterator announces more items");
    }
}

/// Same thing one level up: a chain filter -> map (depth 2), iterated.
#[test]
fn filter_then_map_iterator_hint_after_a_source_fault() {
    let k = 1;
    let mut it = failing_source(k)
        .filter_items(|i| i % 2 == 0)
        .map_items(|i| i * 10)
        .into_iter();
    assert_eq!(it.next(), Some(Ok(0)));
    assert_eq!(it.next(), Some(Err(MyErr(1))));
    // upper bound: fine (Some(4)); lower bound comes from FilterSource: 0. Fine as well.
    assert_eq!(it.size_hint().0, 0);
    assert_eq!(it.next(), None);

    // but map -> map is wrong
    let mut it = failing_source(k)
        .map_items(|i| i + 1)
        .map_items(|i| i * 10)
        .into_iter();
    assert_eq!(it.next(), Some(Ok(10)));
    assert_eq!(it.next(), Some(Err(MyErr(1))));
    let hint = it.size_hint();
    assert_eq!(it.next(), None);
    assert_eq!(
        hint.0, 0,
        "the iterator had nothing left to yield, but its size_hint() was {hint:?}"
    );
}
