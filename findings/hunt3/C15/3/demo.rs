//! C15 / hunt 3 / violation 3
//!
//! Drop this file into `xml/tests/hunt_C15_3.rs` and run
//! `cargo test -p sophia_xml --test hunt_C15_3 --offline`.
//!
//! Property C15: "[if] the consumer fails on item k, processing stops there [...] and the
//! error is reported as [...] a sink error [...], carrying the original error value",
//! for a sink fault "writer I/O error" at every position.
//!
//! `RdfXmlSerializer::serialize_triples` has `Error = io::Error`, like the N-Triples,
//! N-Quads, Turtle and TriG serializers, which all hand back the very `io::Error` raised
//! by the writer (for N-Triples / N-Quads that was repaired after an earlier review).
//! The RDF/XML serializer never does: whatever the position of the fault, the
//! `SinkError` carries a *new* `io::Error` built by `rio_xml::formatter::map_err`
//! (`io::Error::new(error.kind(), error)` around quick-xml's `Arc<io::Error>`).
//! The kind survives, but the value does not: `raw_os_error()` is `None`, so the errno
//! (ENOSPC, EPIPE, EDQUOT, EIO...) is lost, and a custom payload put in the error by the
//! writer can not be downcast any more.

use sophia_api::prelude::*;
use sophia_api::source::StreamError;
use sophia_api::term::SimpleTerm;
use sophia_xml::serializer::RdfXmlSerializer;
use std::cell::RefCell;
use std::convert::Infallible;
use std::io::{self, Write};
use std::rc::Rc;

type MyTerm = SimpleTerm<'static>;

fn iri(s: String) -> MyTerm {
    SimpleTerm::Iri(sophia_iri::IriRef::new_unchecked(s.into()))
}

fn triples(n: usize) -> impl Iterator<Item = Result<[MyTerm; 3], Infallible>> {
    (0..n).map(|i| {
        Ok([
            iri(format!("http://example.org/s{}", i / 2)),
            iri(format!("http://example.org/p{}", i % 2)),
            iri(format!("http://example.org/o{i}")),
        ])
    })
}

const ENOSPC: i32 = 28;

/// A writer (think of a file on a small device) that accepts `limit` bytes,
/// then fails with the OS error ENOSPC.
#[derive(Clone)]
struct SmallDisk {
    limit: usize,
    written: Rc<RefCell<Vec<u8>>>,
}

impl Write for SmallDisk {
    fn write(&mut self, buf: &[u8]) -> io::Result<usize> {
        let mut written = self.written.borrow_mut();
        let room = self.limit - written.len();
        if room == 0 {
            return Err(io::Error::from_raw_os_error(ENOSPC));
        }
        let n = room.min(buf.len());
        written.extend_from_slice(&buf[..n]);
        Ok(n)
    }
    fn flush(&mut self) -> io::Result<()> {
        Ok(())
    }
}

fn small_disk(limit: usize) -> SmallDisk {
    SmallDisk {
        limit,
        written: Rc::new(RefCell::new(vec![])),
    }
}

/// Control: what the writer raises is an OS error.
#[test]
fn control_the_writer_raises_enospc() {
    let err = small_disk(3).write_all(b"hello").unwrap_err();
    assert_eq!(err.raw_os_error(), Some(ENOSPC));
}

/// Expected: at every position of the writer fault, `serialize_triples` returns
/// `SinkError(e)` where `e` is the error raised by the writer: `e.raw_os_error() == Some(28)`.
///
/// Observed: at every position, `e.raw_os_error() == None`
/// (`e` is a new `io::Error` of the same kind, wrapping an `Arc` of the original one).
#[test]
fn rdfxml_reports_the_error_of_the_writer_at_every_fault_position() {
    let n = 5;
    let full = small_disk(usize::MAX);
    RdfXmlSerializer::new(full.clone())
        .serialize_triples(triples(n))
        .unwrap();
    let full_len = full.written.borrow().len();
    assert!(full_len > 100);

    let mut lost = vec![];
    for limit in 0..full_len {
        let disk = small_disk(limit);
        let res = RdfXmlSerializer::new(disk.clone())
            .serialize_triples(triples(n))
            .map(|_| ());
        // the fault is blamed on the sink, and the bytes before it have been written: fine
        let Err(StreamError::SinkError(e)) = res else {
            panic!("limit={limit}: expected a sink error, got {res:?}");
        };
        assert_eq!(disk.written.borrow()[..], full.written.borrow()[..limit]);
        assert_eq!(e.kind(), io::ErrorKind::StorageFull, "limit={limit}");
        // but it is not the error of the writer
        if e.raw_os_error() != Some(ENOSPC) {
            lost.push((limit, format!("{e:?}")));
        }
    }
    assert!(
        lost.is_empty(),
        "the OS error of the writer was lost at {} of {} fault positions, e.g. at byte {}: {}",
        lost.len(),
        full_len,
        lost[0].0,
        lost[0].1,
    );
}
