//! C15 / hunt 3 / violation 1
//!
//! Drop this file into `turtle/tests/hunt_C15_1.rs` and run
//! `cargo test -p sophia_turtle --test hunt_C15_1 --offline`.
//!
//! Property C15: "If the source fails at item k [...] processing stops there:
//! exactly the items before k have been consumed, none after, and the error is
//! reported as a source error".
//!
//! For a serializer, "the items before k have been consumed" means that the
//! statements of these k items have been written. The N-Triples / N-Quads
//! serializers do that (control test below). The *streaming* (non pretty, which is
//! the default) Turtle and TriG serializers do not: they delegate to Rio's
//! TurtleFormatter / TriGFormatter, which only write the terminator of the current
//! statement (` .`, and `}` for a named graph) when the next statement starts or
//! when `finish()` is called; and `serialize_triples` / `serialize_quads` return
//! the source error with `?` *before* calling `finish()`.
//! So the statement of item k-1 is left unterminated (and the graph block left
//! open): the output does not contain the k items, it is not even Turtle/TriG.

use sophia_api::prelude::*;
use sophia_api::source::StreamError;
use sophia_api::term::SimpleTerm;
use sophia_turtle::parser::{nt, trig, turtle};
use sophia_turtle::serializer::nt::NtSerializer;
use sophia_turtle::serializer::trig::TrigSerializer;
use sophia_turtle::serializer::turtle::TurtleSerializer;

type MyTerm = SimpleTerm<'static>;
type MyGraph = Vec<[MyTerm; 3]>;
type MyDataset = Vec<([MyTerm; 3], Option<MyTerm>)>;

const N: usize = 5;

#[derive(Debug, PartialEq)]
struct MyErr(usize);
impl std::fmt::Display for MyErr {
    fn fmt(&self, f: &mut std::fmt::Formatter<'_>) -> std::fmt::Result {
        write!(f, "MyErr({})", self.0)
    }
}
impl std::error::Error for MyErr {}

fn iri(s: String) -> MyTerm {
    SimpleTerm::Iri(sophia_iri::IriRef::new_unchecked(s.into()))
}

fn triple(i: usize) -> [MyTerm; 3] {
    [
        iri(format!("http://example.org/s{}", i / 2)),
        iri(format!("http://example.org/p{}", i % 2)),
        iri(format!("http://example.org/o{i}")),
    ]
}

/// A source of N triples which fails (instead of yielding) at item k.
fn failing_triples(k: usize) -> impl Iterator<Item = Result<[MyTerm; 3], MyErr>> {
    (0..N).map(move |i| if i == k { Err(MyErr(i)) } else { Ok(triple(i)) })
}

/// Same thing, as quads of a named graph.
fn failing_quads(
    k: usize,
) -> impl Iterator<Item = Result<([MyTerm; 3], Option<MyTerm>), MyErr>> {
    failing_triples(k).map(|r| r.map(|t| (t, Some(iri("http://example.org/g".into())))))
}

fn expected(k: usize) -> MyGraph {
    (0..k).map(triple).collect()
}

/// Control: the N-Triples serializer has written exactly the k statements
/// that precede the fault, whatever k.
#[test]
fn control_ntriples_has_consumed_the_items_before_the_source_fault() {
    for k in 0..N {
        let mut out = Vec::new();
        let res = NtSerializer::new(&mut out)
            .serialize_triples(failing_triples(k))
            .map(|_| ());
        assert!(matches!(res, Err(StreamError::SourceError(MyErr(i))) if i == k));
        let out = String::from_utf8(out).unwrap();
        let back: MyGraph = nt::parse_str(&out)
            .collect_triples()
            .unwrap_or_else(|e| panic!("k={k}: what was written is not N-Triples: {e}\n{out}"));
        assert_eq!(back, expected(k), "k={k}");
    }
}

/// Expected: when the source fails at item k, the Turtle serializer reports
/// SourceError(MyErr(k)) and what it has written is the k statements before the fault
/// (i.e. it can be read back as exactly these k triples).
///
/// Observed: for every k >= 1, the last statement is not terminated
/// (`<s0> <p0> <o0>` without ` .`): reading the output back is a syntax error
/// (premature end of file).
#[test]
fn turtle_has_consumed_the_items_before_the_source_fault() {
    for k in 0..N {
        let mut out = Vec::new();
        let res = TurtleSerializer::new(&mut out)
            .serialize_triples(failing_triples(k))
            .map(|_| ());
        assert!(matches!(res, Err(StreamError::SourceError(MyErr(i))) if i == k));
        let out = String::from_utf8(out).unwrap();
        let back: MyGraph = turtle::parse_str(&out).collect_triples().unwrap_or_else(|e| {
            panic!(
                "source fault at item {k}: the {k} item(s) before it have not been completely \
                 written, the output is not Turtle: {e}\n--- output ---\n{out}\n---"
            )
        });
        assert_eq!(back, expected(k), "k={k}");
    }
}

/// Same thing with a real source fault: a Turtle document with a syntax error in its
/// statement k, re-serialized in (streaming) Turtle.
#[test]
fn turtle_to_turtle_with_a_syntax_error_at_statement_k() {
    for k in 0..N {
        let mut doc = String::new();
        for i in 0..N {
            let [s, p, o] = triple(i);
            let (s, p, o) = (s.iri().unwrap(), p.iri().unwrap(), o.iri().unwrap());
            if i == k {
                doc.push_str(&format!("<{s}> <{p}> oops .\n"));
            } else {
                doc.push_str(&format!("<{s}> <{p}> <{o}> .\n"));
            }
        }
        let mut out = Vec::new();
        let res = TurtleSerializer::new(&mut out)
            .serialize_triples(turtle::parse_str(&doc))
            .map(|_| ());
        assert!(matches!(res, Err(StreamError::SourceError(_))), "k={k}");
        let out = String::from_utf8(out).unwrap();
        let back: MyGraph = turtle::parse_str(&out).collect_triples().unwrap_or_else(|e| {
            panic!(
                "syntax error at statement {k}: the {k} statement(s) before it have not been \
                 completely written, the output is not Turtle: {e}\n--- output ---\n{out}\n---"
            )
        });
        assert_eq!(back, expected(k), "k={k}");
    }
}

/// Expected / observed: as above, for the (streaming) TriG serializer;
/// here the graph block `<g> {` is left open as well.
#[test]
fn trig_has_consumed_the_items_before_the_source_fault() {
    for k in 0..N {
        let mut out = Vec::new();
        let res = TrigSerializer::new(&mut out)
            .serialize_quads(failing_quads(k))
            .map(|_| ());
        assert!(matches!(res, Err(StreamError::SourceError(MyErr(i))) if i == k));
        let out = String::from_utf8(out).unwrap();
        let back: MyDataset = trig::parse_str(&out).collect_quads().unwrap_or_else(|e| {
            panic!(
                "source fault at item {k}: the {k} item(s) before it have not been completely \
                 written, the output is not TriG: {e}\n--- output ---\n{out}\n---"
            )
        });
        let exp: MyDataset = expected(k)
            .into_iter()
            .map(|t| (t, Some(iri("http://example.org/g".into()))))
            .collect();
        assert_eq!(back, exp, "k={k}");
    }
}
