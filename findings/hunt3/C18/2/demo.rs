//! C18 / 2 -- predicates of the RDF namespace that RDF/XML reserves
//! (rdf:li, rdf:Description, rdf:about, rdf:ID, ...).
//!
//! Drop into `xml/tests/hunt_C18_2.rs`, run with
//! `cargo test -p sophia_xml --test hunt_C18_2 --offline`.
//!
//! Property C18: serialising a graph to RDF/XML either fails with an error, or
//! produces a well-formed document whose parse is isomorphic to the graph
//! restricted to the triples RDF/XML can express.
//!
//! RDF/XML can not express a triple whose predicate is `rdf:li` (a property element
//! `rdf:li` *means* `rdf:_1`, `rdf:_2`, ...), nor one whose predicate is one of
//! rdf:RDF, rdf:ID, rdf:about, rdf:parseType, rdf:resource, rdf:nodeID, rdf:datatype,
//! rdf:Description, rdf:aboutEach, rdf:aboutEachPrefix, rdf:bagID
//! (<https://www.w3.org/TR/rdf-syntax-grammar/#propertyElementURIs>).
//! So for such a triple the serializer may fail, or leave the triple out;
//! it may not report success for a document that says something else or that
//! no RDF/XML parser accepts.

use sophia_api::ns::xsd;
use sophia_api::serializer::{Stringifier, TripleSerializer};
use sophia_api::source::TripleSource;
use sophia_api::term::{IriRef, SimpleTerm};
use sophia_isomorphism::isomorphic_graphs;
use sophia_xml::serializer::{RdfXmlConfig, RdfXmlSerializer};

type G = Vec<[SimpleTerm<'static>; 3]>;

const RDF: &str = "http://www.w3.org/1999/02/22-rdf-syntax-ns#";

fn iri(s: &str) -> SimpleTerm<'static> {
    SimpleTerm::Iri(IriRef::new(s.to_string().into()).unwrap())
}
fn lit(s: &str) -> SimpleTerm<'static> {
    SimpleTerm::LiteralDatatype(
        s.to_string().into(),
        xsd::string.iriref().map_unchecked(|m| m.to_string().into()),
    )
}

/// `g` = `expressible` + one triple that RDF/XML can not express.
/// Accepts an error, or a document that parses to (something isomorphic to) `expressible`.
fn check(g: &G, expressible: &G, indentation: usize) {
    let config = RdfXmlConfig::new().with_indentation(indentation);
    let mut ser = RdfXmlSerializer::new_stringifier_with_config(config);
    if ser.serialize_graph(g).is_err() {
        return; // failing with an error is fine
    }
    let out = ser.to_string();
    let g2: G = sophia_xml::parser::parse_str(&out)
        .collect_triples()
        .unwrap_or_else(|e| {
            panic!("serialisation reported success, but the document is not RDF/XML: {e}\n{out}")
        });
    assert!(
        isomorphic_graphs(expressible, &g2).unwrap(),
        "serialisation reported success, but the document denotes other triples:\n{g2:#?}\n{out}"
    );
}

/// Expected: an error, or a document without the rdf:li triple.
/// Observed: success; the document contains `<li xmlns="...rdf-syntax-ns#">x</li>`,
/// which every RDF/XML parser (Sophia's included) reads as
/// `<s> rdf:_1 "x"` -- a triple that is not in the graph.
#[test]
fn rdf_li_is_not_silently_turned_into_rdf_1() {
    let s = iri("http://example.org/s");
    let expressible: G = vec![[s.clone(), iri("http://example.org/p"), lit("y")]];
    let mut g = expressible.clone();
    g.push([s.clone(), iri(&format!("{RDF}li")), lit("x")]);
    for indentation in 0..=8 {
        check(&g, &expressible, indentation);
    }
}

/// The changed triple can even collide with one of the graph:
/// two different statements of the input become indistinguishable.
#[test]
fn rdf_li_does_not_collide_with_rdf_1() {
    let s = iri("http://example.org/s");
    let expressible: G = vec![[s.clone(), iri(&format!("{RDF}_1")), lit("first member")]];
    let mut g = expressible.clone();
    g.push([s.clone(), iri(&format!("{RDF}li")), lit("not a member")]);
    check(&g, &expressible, 0);
}

/// Expected: an error, or a document without the triple.
/// Observed: success, with `<Description xmlns="...rdf-syntax-ns#">x</Description>` (etc.)
/// as property element; the parser rejects the whole document
/// ("Invalid property element tag name").
#[test]
fn reserved_rdf_names_are_not_written_as_property_elements() {
    let s = iri("http://example.org/s");
    let expressible: G = vec![[s.clone(), iri("http://example.org/p"), lit("y")]];
    for name in [
        "Description",
        "RDF",
        "ID",
        "about",
        "parseType",
        "resource",
        "nodeID",
        "datatype",
        "aboutEach",
        "aboutEachPrefix",
        "bagID",
    ] {
        let mut g = expressible.clone();
        g.push([s.clone(), iri(&format!("{RDF}{name}")), lit("x")]);
        check(&g, &expressible, 0);
        check(&g, &expressible, 4);
    }
}

/// Sanity check (passes): the other names of the RDF namespace are fine.
#[test]
fn other_rdf_names_round_trip() {
    let s = iri("http://example.org/s");
    let g: G = vec![
        [s.clone(), iri(&format!("{RDF}_1")), lit("a")],
        [s.clone(), iri(&format!("{RDF}type")), iri("http://example.org/C")],
        [s.clone(), iri(&format!("{RDF}value")), lit("b")],
    ];
    check(&g, &g, 0);
    check(&g, &g, 4);
}
