//! C18 / 1 -- blank node labels that start with a digit.
//!
//! Drop into `xml/tests/hunt_C18_1.rs`, run with
//! `cargo test -p sophia_xml --test hunt_C18_1 --offline`.
//!
//! Property C18: for a strict RDF graph whose predicates are XML QNames and whose
//! text is XML-legal, serialising to RDF/XML always succeeds, and parsing the
//! produced document gives back a graph isomorphic to the original one
//! (blank nodes in subject/object position included).
//!
//! `_:0`, `_:1a`, `_:42` are legal blank node labels (Turtle/N-Triples
//! `BLANK_NODE_LABEL`, accepted by `BnodeId::new`, and produced by Sophia's own
//! N-Triples / Turtle parsers), but they are not NCNames, which `rdf:nodeID` requires.

use sophia_api::ns::xsd;
use sophia_api::serializer::{Stringifier, TripleSerializer};
use sophia_api::source::TripleSource;
use sophia_api::term::{BnodeId, IriRef, SimpleTerm};
use sophia_isomorphism::isomorphic_graphs;
use sophia_xml::serializer::{RdfXmlConfig, RdfXmlSerializer};

type G = Vec<[SimpleTerm<'static>; 3]>;

fn iri(s: &str) -> SimpleTerm<'static> {
    SimpleTerm::Iri(IriRef::new(s.to_string().into()).unwrap())
}
fn bn(s: &str) -> SimpleTerm<'static> {
    // checked constructor: the label is a valid Sophia blank node identifier
    SimpleTerm::BlankNode(BnodeId::new(s.to_string().into()).unwrap())
}
fn lit(s: &str) -> SimpleTerm<'static> {
    SimpleTerm::LiteralDatatype(
        s.to_string().into(),
        xsd::string.iriref().map_unchecked(|m| m.to_string().into()),
    )
}

fn roundtrip(g: &G, indentation: usize) {
    let config = RdfXmlConfig::new().with_indentation(indentation);
    let mut ser = RdfXmlSerializer::new_stringifier_with_config(config);
    ser.serialize_graph(g)
        .expect("a strict graph with QName predicates must be serialisable");
    let out = ser.to_string();
    let g2: G = sophia_xml::parser::parse_str(&out)
        .collect_triples()
        .unwrap_or_else(|e| {
            panic!("the serializer's own output is rejected by the RDF/XML parser: {e}\n{out}")
        });
    assert!(
        isomorphic_graphs(g, &g2).unwrap(),
        "round trip changed the graph\n{out}\n{g2:?}"
    );
}

/// Expected: the graph round-trips (the serializer may rename the blank nodes).
/// Observed: serialisation succeeds and writes `rdf:nodeID="0"`;
/// the parser rejects the document ("0 is not a valid rdf:nodeID value").
#[test]
fn bnode_label_starting_with_digit_in_subject_position() {
    let g: G = vec![[bn("0"), iri("http://example.org/p"), lit("x")]];
    for indentation in 0..=8 {
        roundtrip(&g, indentation);
    }
}

/// Same thing in object position.
#[test]
fn bnode_label_starting_with_digit_in_object_position() {
    let g: G = vec![[
        iri("http://example.org/s"),
        iri("http://example.org/p"),
        bn("1a"),
    ]];
    for indentation in 0..=8 {
        roundtrip(&g, indentation);
    }
}

/// A graph as Sophia's own N-Triples parser delivers it (labels are kept verbatim),
/// with labels that must stay distinct from each other after any renaming.
#[test]
fn bnode_labels_stay_distinct() {
    let p = iri("http://example.org/p");
    let g: G = vec![
        [bn("0"), p.clone(), bn("_0")],
        [bn("_0"), p.clone(), bn("__0")],
        [bn("__0"), p.clone(), bn("b0")],
        [bn("b0"), p.clone(), lit("end")],
    ];
    roundtrip(&g, 0);
    roundtrip(&g, 2);
}
