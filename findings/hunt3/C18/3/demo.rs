//! C18 / 3 -- literals that consist of white space only.
//!
//! Drop into `xml/tests/hunt_C18_3.rs`, run with
//! `cargo test -p sophia_xml --test hunt_C18_3 --offline`.
//!
//! Property C18: for graphs whose predicates can be written as XML qualified names
//! and whose text contains only XML-legal characters, serialising to RDF/XML always
//! succeeds and loses nothing: parsing the document gives back an isomorphic graph,
//! for all literals over XML-legal characters, *white space runs* and leading/trailing
//! newlines included, whatever the indentation.
//!
//! `" "`, `"\n"`, `"\t  \n"` are XML-legal text, and `<p> </p>` is a
//! literalPropertyElt (RDF/XML section 7.2.16) whose value is `" "`
//! (an emptyPropertyElt, section 7.2.21, has no content at all).

use sophia_api::ns::{rdf, xsd};
use sophia_api::serializer::{Stringifier, TripleSerializer};
use sophia_api::source::TripleSource;
use sophia_api::term::{IriRef, LanguageTag, SimpleTerm};
use sophia_isomorphism::isomorphic_graphs;
use sophia_xml::serializer::{RdfXmlConfig, RdfXmlSerializer};

type G = Vec<[SimpleTerm<'static>; 3]>;

fn iri(s: &str) -> SimpleTerm<'static> {
    SimpleTerm::Iri(IriRef::new(s.to_string().into()).unwrap())
}
fn typed(s: &str, dt: IriRef<sophia_api::MownStr<'_>>) -> SimpleTerm<'static> {
    SimpleTerm::LiteralDatatype(
        s.to_string().into(),
        dt.map_unchecked(|m| m.to_string().into()),
    )
}

fn roundtrip(g: &G, indentation: usize) {
    let config = RdfXmlConfig::new().with_indentation(indentation);
    let mut ser = RdfXmlSerializer::new_stringifier_with_config(config);
    ser.serialize_graph(g)
        .expect("a strict graph with QName predicates and XML-legal text must be serialisable");
    let out = ser.to_string();
    let g2: G = sophia_xml::parser::parse_str(&out)
        .collect_triples()
        .expect("the produced document must be accepted by the RDF/XML parser");
    assert!(
        isomorphic_graphs(g, &g2).unwrap(),
        "round trip (indentation {indentation}) changed the graph\n--- serialised:\n{out}\n--- expected:\n{g:?}\n--- parsed back:\n{g2:?}"
    );
}

/// Expected: `<s> <p> " "` comes back as `<s> <p> " "`.
/// Observed: it comes back as `<s> <p> ""`.
#[test]
fn single_space_literal() {
    let g: G = vec![[
        iri("http://example.org/s"),
        iri("http://example.org/p"),
        typed(" ", xsd::string.iriref()),
    ]];
    for indentation in 0..=8 {
        roundtrip(&g, indentation);
    }
}

/// Same with newlines and tabs, language-tagged and datatyped literals
/// (`"  "^^xsd:token`-like values, or an rdf:XMLLiteral made of white space,
/// are different RDF terms from the ones with an empty lexical form).
#[test]
fn whitespace_only_literals_of_every_kind() {
    let s = iri("http://example.org/s");
    let g: G = vec![
        [s.clone(), iri("http://example.org/p1"), typed("\n", xsd::string.iriref())],
        [s.clone(), iri("http://example.org/p2"), typed("\t  \n", xsd::string.iriref())],
        [
            s.clone(),
            iri("http://example.org/p3"),
            SimpleTerm::LiteralLanguage("  ".into(), LanguageTag::new("en".into()).unwrap()),
        ],
        [s.clone(), iri("http://example.org/p4"), typed(" ", rdf::XMLLiteral.iriref())],
        [s.clone(), iri("http://example.org/p5"), typed("\n\n", xsd::normalizedString.iriref())],
    ];
    roundtrip(&g, 0);
    roundtrip(&g, 4);
}

/// Two distinct triples of the input collapse into one.
#[test]
fn space_and_empty_stay_distinct() {
    let s = iri("http://example.org/s");
    let p = iri("http://example.org/p");
    let g: G = vec![
        [s.clone(), p.clone(), typed("", xsd::string.iriref())],
        [s.clone(), p.clone(), typed(" ", xsd::string.iriref())],
    ];
    let mut ser = RdfXmlSerializer::new_stringifier();
    ser.serialize_graph(&g).unwrap();
    let g2: G = sophia_xml::parser::parse_str(ser.as_str())
        .collect_triples()
        .unwrap();
    let mut objects: Vec<String> = g2
        .iter()
        .map(|t| match &t[2] {
            SimpleTerm::LiteralDatatype(lex, _) => lex.to_string(),
            other => panic!("unexpected object {other:?}"),
        })
        .collect();
    objects.sort();
    assert_eq!(objects, vec!["".to_string(), " ".to_string()]);
}

/// Sanity check (passes): as soon as one character is not white space,
/// leading and trailing white space is preserved.
#[test]
fn surrounding_whitespace_is_kept() {
    let g: G = vec![[
        iri("http://example.org/s"),
        iri("http://example.org/p"),
        typed("\n  a \t\n", xsd::string.iriref()),
    ]];
    for indentation in 0..=8 {
        roundtrip(&g, indentation);
    }
}
