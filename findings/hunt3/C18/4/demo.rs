//! C18 / 4 -- literals with characters that XML 1.0 does not allow.
//!
//! Drop into `xml/tests/hunt_C18_4.rs`, run with
//! `cargo test -p sophia_xml --test hunt_C18_4 --offline`.
//!
//! Property C18: serialising a graph to RDF/XML either fails with an error or
//! produces a well-formed document [...]; it always succeeds when the text
//! contains only XML-legal characters.
//! So when a literal contains a character outside of the `Char` production of XML 1.0
//! (`#x9 | #xA | #xD | [#x20-#xD7FF] | [#xE000-#xFFFD] | [#x10000-#x10FFFF]`) --
//! which can not be written in an XML 1.0 document in any way, not even as a character
//! reference -- the only allowed outcome is an error.
//! Such literals are ordinary RDF terms: `"a\u0001b"` is valid N-Triples / Turtle.

use sophia_api::ns::xsd;
use sophia_api::serializer::{Stringifier, TripleSerializer};
use sophia_api::term::{IriRef, LanguageTag, SimpleTerm};
use sophia_xml::serializer::{RdfXmlConfig, RdfXmlSerializer};

type G = Vec<[SimpleTerm<'static>; 3]>;

fn iri(s: &str) -> SimpleTerm<'static> {
    SimpleTerm::Iri(IriRef::new(s.to_string().into()).unwrap())
}
fn lit(s: &str) -> SimpleTerm<'static> {
    SimpleTerm::LiteralDatatype(
        s.to_string().into(),
        xsd::string.iriref().map_unchecked(|m| m.to_string().into()),
    )
}

/// <https://www.w3.org/TR/xml/#NT-Char>
fn is_xml_char(c: char) -> bool {
    matches!(c, '\t' | '\n' | '\r' | ' '..='\u{D7FF}' | '\u{E000}'..='\u{FFFD}' | '\u{10000}'..='\u{10FFFF}')
}

/// Either an error, or a document in which every character is an XML character
/// (a necessary condition for being well-formed).
fn error_or_xml_chars_only(g: &G, indentation: usize) {
    let config = RdfXmlConfig::new().with_indentation(indentation);
    let mut ser = RdfXmlSerializer::new_stringifier_with_config(config);
    if ser.serialize_graph(g).is_err() {
        return;
    }
    let out = ser.to_string();
    if let Some(c) = out.chars().find(|c| !is_xml_char(*c)) {
        panic!(
            "serialisation reported success, but the document contains the character {c:?}, \
            so it is not well-formed XML (expat: \"not well-formed (invalid token)\"):\n{out:?}"
        );
    }
}

/// Expected: an error. Observed: success, with a raw U+0001 in the document.
#[test]
fn c0_control_character() {
    let g: G = vec![[
        iri("http://example.org/s"),
        iri("http://example.org/p"),
        lit("a\u{1}b"),
    ]];
    for indentation in 0..=8 {
        error_or_xml_chars_only(&g, indentation);
    }
}

/// Expected: an error. Observed: success, with raw U+0000 / U+000C / U+001B / U+FFFE / U+FFFF.
#[test]
fn other_non_xml_characters() {
    for text in ["\u{0}", "form\u{C}feed", "\u{1B}[0m", "\u{FFFE}", "x\u{FFFF}"] {
        let g: G = vec![[
            iri("http://example.org/s"),
            iri("http://example.org/p"),
            lit(text),
        ]];
        error_or_xml_chars_only(&g, 0);
        error_or_xml_chars_only(&g, 2);
    }
}

/// Same for language-tagged and datatyped literals.
#[test]
fn non_xml_character_in_other_kinds_of_literals() {
    let s = iri("http://example.org/s");
    let p = iri("http://example.org/p");
    let g: G = vec![[
        s.clone(),
        p.clone(),
        SimpleTerm::LiteralLanguage("a\u{8}b".into(), LanguageTag::new("en".into()).unwrap()),
    ]];
    error_or_xml_chars_only(&g, 0);
    let g: G = vec![[
        s.clone(),
        p.clone(),
        SimpleTerm::LiteralDatatype(
            "a\u{B}b".into(),
            xsd::token.iriref().map_unchecked(|m| m.to_string().into()),
        ),
    ]];
    error_or_xml_chars_only(&g, 0);
}

/// Sanity check (passes): all kinds of XML-legal text are accepted.
#[test]
fn xml_legal_text_is_accepted() {
    let g: G = vec![[
        iri("http://example.org/s"),
        iri("http://example.org/p"),
        lit("\t\n <>&\"' \u{7F}\u{85}\u{D7FF}\u{E000}\u{FFFD}\u{10000}\u{1F600}\u{10FFFF}"),
    ]];
    let mut ser = RdfXmlSerializer::new_stringifier();
    ser.serialize_graph(&g)
        .expect("XML-legal text must be serialisable");
    assert!(ser.as_str().chars().all(is_xml_char));
}
