//! C02 hunt 3, violation 1 -- drop into `turtle/tests/hunt_C02_1.rs`, run with
//! `cargo test -p sophia_turtle --test hunt_C02_1 --offline`
//!
//! Sophia's generalized RDF model explicitly allows IRIs to be relative IRI references
//! (api/src/lib.rs, "Generalized vs. Strict RDF model"); `Term::datatype` returns an `IriRef`, and
//! `SimpleTerm::LiteralDatatype("a", IriRef("foo/bar"))` is an ordinary, well-formed term for
//! every other `Term` implementation. The generalized TriG parser (used without a base IRI) delivers
//! exactly such a literal for `"a"^^:bar` when `:` is bound to the relative IRI reference `<foo/>`.
//!
//! EXPECTED (C02): the parser-backed term (`Trusted<GeneralizedTerm>`) is equal to, hashes like and
//! compares `Equal` with the same term held by any other type, and converting it yields an equal term.
//!
//! OBSERVED: `datatype()` of the Rio-backed terms (rio/src/model.rs, `fn datatype`) contains
//! `debug_assert!(Iri::new(datatype.iri).is_ok())` -- it demands an *absolute* IRI, although the sibling
//! accessor `iri()` in the same file only demands an `IriRef` -- so `Term::eq`, `Term::cmp`,
//! `Term::hash`, `into_term`, `as_simple`, collecting the source into a dataset ... all panic
//! (`assertion failed: Iri::new(datatype.iri).is_ok()`).

use sophia_api::prelude::*;
use sophia_api::quad::Spog;
use sophia_api::term::SimpleTerm;
use sophia_turtle::parser::gtrig;
use std::cmp::Ordering;
use std::hash::Hasher;

const DOC: &str = r#"
@prefix : <foo/> .
<s> :p "a"^^:bar .
"#;

fn hash_of<T: Term>(t: T) -> u64 {
    let mut h = std::collections::hash_map::DefaultHasher::new();
    t.hash(&mut h);
    h.finish()
}

/// the same literal, held by `SimpleTerm`
fn expected_object() -> SimpleTerm<'static> {
    SimpleTerm::LiteralDatatype("a".into(), IriRef::new_unchecked("foo/bar".into()))
}

/// Control: relative IRI references are fine in the subject and predicate positions
/// (this part passes on the current code), and the expected literal is lawful on its own.
#[test]
fn control_relative_iris_are_supported() {
    let exp = expected_object();
    assert!(Term::eq(&exp, exp.borrow_term()));
    assert_eq!(Term::cmp(&exp, exp.borrow_term()), Ordering::Equal);
    let mut n = 0;
    gtrig::parse_str(DOC)
        .for_each_quad(|q| {
            n += 1;
            assert!(Term::eq(&q.s(), IriRef::new_unchecked("s")));
            assert!(Term::eq(&q.p(), IriRef::new_unchecked("foo/p")));
            assert_eq!(hash_of(q.p()), hash_of(IriRef::new_unchecked("foo/p")));
        })
        .unwrap();
    assert_eq!(n, 1);
}

/// Expected: the parsed literal `"a"^^<foo/bar>` is the same term as the `SimpleTerm` holding it
/// (eq in both directions, same hash, cmp == Equal, conversions yield an equal term).
/// Observed: panic in `Trusted<_>::datatype`.
#[test]
fn parsed_literal_with_relative_datatype_is_a_lawful_term() {
    let exp = expected_object();
    let mut n = 0;
    gtrig::parse_str(DOC)
        .for_each_quad(|q| {
            n += 1;
            let o = q.o();
            assert!(o.is_literal());
            assert_eq!(o.lexical_form().unwrap(), "a");
            // every line below panics on the current code
            assert!(Term::eq(&o, exp.borrow_term()), "parsed == expected");
            assert!(Term::eq(&exp, o), "expected == parsed");
            assert_eq!(Term::cmp(&o, exp.borrow_term()), Ordering::Equal);
            assert_eq!(Term::cmp(&exp, o), Ordering::Equal);
            assert_eq!(hash_of(o), hash_of(exp.borrow_term()));
            let copy: SimpleTerm<'static> = o.into_term();
            assert!(Term::eq(&copy, o), "into_term yields an equal term");
            assert!(Term::eq(&o.as_simple(), o), "as_simple yields an equal term");
        })
        .unwrap();
    assert_eq!(n, 1);
}

/// Expected: the usual way of consuming a parser (collecting into a dataset) works,
/// and the dataset contains the quad (<s>, <foo/p>, "a"^^<foo/bar>).
/// Observed: panic while copying the object.
#[test]
fn collecting_the_source_does_not_panic() {
    let d: Vec<Spog<SimpleTerm<'static>>> = gtrig::parse_str(DOC).collect_quads().unwrap();
    assert_eq!(d.len(), 1);
    assert!(Term::eq(&d[0].0[2], expected_object()));
}
