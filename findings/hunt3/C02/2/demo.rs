//! C02 hunt 3, violation 2 -- drop into `xml/tests/hunt_C02_2.rs`, run with
//! `cargo test -p sophia_xml --test hunt_C02_2 --offline`
//!
//! (Related to, but not covered by, the repaired "consecutive dots" defect: that one was a label the
//! Turtle grammar allows and `BnodeId` wrongly refused; this one is a label RDF/XML allows and the
//! Turtle grammar -- hence `BnodeId`, rightly -- refuses, so the repair has to happen in the adapter.)
//!
//! In RDF/XML a blank node identifier (`rdf:nodeID`) is any XML NCName; NCNames may END with `.`
//! (NameChar includes '.'), e.g. `rdf:nodeID="a."`. rio_xml checks `is_nc_name` and delivers the
//! label `a.` unchanged. Sophia's `BnodeId` follows Turtle's BLANK_NODE_LABEL, which must not end with
//! a dot, and the Rio adapter (rio/src/model.rs `fn bnode_id`) hands the label to
//! `BnodeId::new_unchecked` behind a `debug_assert!(BnodeId::new(b.id).is_ok())`.
//!
//! EXPECTED (C02): the blank node delivered by the RDF/XML parser for a well-formed document is a
//! lawful term: reflexive equality, same hash / `Equal` with its copies, and conversions yield an
//! equal term (or the parser reports an error / relabels the node -- but it must not hand out a term
//! on which every `Term` method panics).
//!
//! OBSERVED: `bnode_id()` panics, so `Term::eq`, `Term::cmp`, `Term::hash`, `into_term`, `as_simple`
//! and collecting the triple source all panic (`assertion failed: BnodeId::new(b.id).is_ok()`).

use sophia_api::prelude::*;
use sophia_api::term::SimpleTerm;
use std::cmp::Ordering;
use std::hash::Hasher;

fn doc(node_id: &str) -> String {
    format!(
        r#"<?xml version="1.0"?>
<rdf:RDF xmlns:rdf="http://www.w3.org/1999/02/22-rdf-syntax-ns#" xmlns:ex="http://example.org/">
  <rdf:Description rdf:nodeID="{node_id}"><ex:p rdf:nodeID="{node_id}"/></rdf:Description>
</rdf:RDF>"#
    )
}

fn hash_of<T: Term>(t: T) -> u64 {
    let mut h = std::collections::hash_map::DefaultHasher::new();
    t.hash(&mut h);
    h.finish()
}

fn check(node_id: &str) {
    let mut n = 0;
    sophia_xml::parser::parse_str(&doc(node_id))
        .for_each_triple(|t| {
            n += 1;
            let (s, o) = (t.s(), t.o());
            assert!(s.is_blank_node() && o.is_blank_node());
            // subject and object are the same blank node
            assert!(Term::eq(&s, o), "s == o");
            assert_eq!(Term::cmp(&s, o), Ordering::Equal);
            assert_eq!(hash_of(s), hash_of(o));
            // conversions yield an equal term
            let copy: SimpleTerm<'static> = s.into_term();
            assert!(Term::eq(&copy, s) && Term::eq(&s, copy.borrow_term()));
            assert!(Term::eq(&s.as_simple(), s));
        })
        .unwrap();
    assert_eq!(n, 1);
}

/// control: ordinary NCNames (including inner and consecutive dots) work
#[test]
fn control_ordinary_node_ids() {
    check("a");
    check("a.b");
    check("a..b");
    check("_x-1");
}

/// Expected: a lawful blank node term (see module doc). Observed: panic in `bnode_id()`.
#[test]
fn node_id_ending_with_a_dot_is_a_lawful_term() {
    check("a.");
}

/// Expected: the usual way of consuming the parser works. Observed: panic while copying the terms.
#[test]
fn collecting_the_source_does_not_panic() {
    let g: Vec<[SimpleTerm<'static>; 3]> = sophia_xml::parser::parse_str(&doc("a."))
        .collect_triples()
        .unwrap();
    assert_eq!(g.len(), 1);
    assert!(Term::eq(&g[0][0], g[0][2].borrow_term()));
}
