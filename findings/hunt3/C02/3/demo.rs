//! C02 hunt 3, violation 3 -- drop into `jsonld/tests/hunt_C02_3.rs`, run with
//! `cargo test -p sophia_jsonld --test hunt_C02_3 --offline`
//!
//! With the option `produce_generalized_rdf` the JSON-LD parser emits quads whose predicate is a blank
//! node, and (unlike subjects, objects and graph names, which `json-ld` relabels `_:0`, `_:1`, ...)
//! the label of such a predicate is passed through verbatim. `json-ld` / `rdf-types` validate blank
//! node identifiers against the N-Triples 1.1 production BLANK_NODE_LABEL, whose PN_CHARS_U includes
//! ':' -- so `_:a:b` is a well-formed blank node identifier for them (and for N-Triples 1.1 and JSON-LD
//! 1.1). Sophia's `BnodeId` (Turtle's production) refuses "a:b".
//! `jsonld/src/vocabulary.rs` (`ArcBnode::bnode_id` / `ArcBnode::borrow_term`) nevertheless wraps the
//! label with `BnodeId::new_unchecked`, on the stated assumption that "instances of this type are
//! always created via ArcVoc from a valid bnode identifier, we don't need to implement any validity
//! check"; `try_convert_quad` (jsonld/src/parser/adapter.rs), which was added to check "what ArcVoc
//! could not check", only checks language tags.
//!
//! EXPECTED (C02): every term handed out by the parser is lawful (eq is reflexive, agrees with hash and
//! cmp, conversions yield an equal term); a label Sophia cannot represent must be reported as an
//! error by the quad source (as is already done for language tags Sophia rejects) or relabelled.
//!
//! OBSERVED: the quad source yields the quad, and the first `Term` method that needs the label
//! (`bnode_id`, hence `eq`, `cmp`, `hash`, `into_term`, `as_simple`, `borrow_term`, collecting into a
//! dataset) panics: `called Result::unwrap() on an Err value: InvalidBnodeId("a:b")`.
//! (In a release build the ill-formed `BnodeId("a:b")` silently leaks instead.)

use sophia_api::prelude::*;
use sophia_api::quad::Spog;
use sophia_api::term::{BnodeId, SimpleTerm};
use sophia_jsonld::{JsonLdOptions, JsonLdParser};
use std::cmp::Ordering;
use std::hash::Hasher;

fn hash_of<T: Term>(t: T) -> u64 {
    let mut h = std::collections::hash_map::DefaultHasher::new();
    t.hash(&mut h);
    h.finish()
}

fn parser() -> JsonLdParser {
    JsonLdParser::new_with_options(JsonLdOptions::new().with_produce_generalized_rdf(true))
}

/// Returns Ok(number of quads) if all the terms of all the quads are lawful,
/// Err(..) if the quad source reports an error (which is an acceptable outcome for a label that
/// Sophia can not represent).
fn check(doc: &str) -> Result<usize, String> {
    let mut n = 0;
    parser()
        .parse_str(doc)
        .for_each_quad(|q| {
            n += 1;
            let p = q.p();
            assert!(p.is_blank_node());
            // reflexivity, hash, cmp
            assert!(Term::eq(p, p), "p == p");
            assert_eq!(Term::cmp(p, p), Ordering::Equal);
            assert_eq!(hash_of(p), hash_of(p));
            // conversions yield an equal term
            let copy: SimpleTerm<'static> = p.into_term();
            assert!(Term::eq(&copy, p) && Term::eq(p, &copy));
            assert_eq!(hash_of(&copy), hash_of(p));
            assert!(Term::eq(&p.as_simple(), p));
            // the wrapped blank node label is one that BnodeId accepts
            assert!(BnodeId::new(p.bnode_id().unwrap().as_str()).is_ok());
        })
        .map_err(|e| e.to_string())?;
    Ok(n)
}

/// control: an ordinary blank node predicate works
#[test]
fn control_ordinary_blank_node_predicate() {
    let doc = r#"{"@id": "http://example.org/s", "_:ab": "x"}"#;
    assert_eq!(check(doc), Ok(1));
}

/// Expected: either 1 lawful quad or an error from the source. Observed: panic.
#[test]
fn blank_node_predicate_with_colon_in_label() {
    let doc = r#"{"@id": "http://example.org/s", "_:a:b": "x"}"#;
    match check(doc) {
        Ok(n) => assert_eq!(n, 1),
        Err(msg) => println!("reported as an error (fine): {msg}"),
    }
}

/// Expected: collecting the source gives Ok(1 quad) or Err(..). Observed: panic.
#[test]
fn collecting_the_source_does_not_panic() {
    let doc = r#"{"@id": "http://example.org/s", "_:a:b": "x"}"#;
    let res: Result<Vec<Spog<SimpleTerm<'static>>>, _> = parser().parse_str(doc).collect_quads();
    if let Ok(d) = res {
        assert_eq!(d.len(), 1);
    }
}
