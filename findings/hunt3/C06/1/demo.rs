//! Drop into `c14n/tests/hunt_C06_1.rs`, run with
//! `cargo test -p sophia_c14n --test hunt_C06_1 --offline`
//!
//! C06: the canonical N-Quads document produced by RDFC-1.0 is a function of the dataset
//! ("hashes and signatures over the output interoperate").
//!
//! The dataset below has three blank nodes, each quad mentions all three of them
//! (subject, object and graph name, rotated):
//!
//!     _:n0 <http://ex/p> _:n1 _:n2 .
//!     _:n1 <http://ex/p> _:n2 _:n0 .
//!     _:n2 <http://ex/p> _:n0 _:n1 .
//!
//! In Hash N-Degree Quads the two permutations (n1, n2) and (n2, n1) of the related nodes
//! yield *identical* paths although exchanging n1 and n2 is not an automorphism of the dataset
//! (Hash Related Blank Node only hashes pairs, it does not see which two related nodes share a quad).
//! Step 5.4.6 keeps the first of two equal paths, and in sophia "first" depends on the order in which
//! the dataset happens to iterate its quads (the related list is filled in iteration order and never sorted).
//! So the *same* dataset is "canonicalised" to two different documents.

use sophia_api::quad::Spog;
use sophia_api::term::{BnodeId, IriRef, SimpleTerm};
use sophia_c14n::rdfc10;
use std::collections::{BTreeSet, HashSet};

type MyQuad = Spog<SimpleTerm<'static>>;

fn b(label: &str) -> SimpleTerm<'static> {
    SimpleTerm::BlankNode(BnodeId::new_unchecked(label.to_string().into()))
}

fn q(s: &str, o: &str, g: &str) -> MyQuad {
    let p = SimpleTerm::Iri(IriRef::new_unchecked("http://ex/p".into()));
    ([b(s), p, b(o)], Some(b(g)))
}

fn c14n<D: sophia_api::dataset::SetDataset>(d: &D) -> String {
    let mut out = Vec::new();
    rdfc10::normalize(d, &mut out).map_err(|e| e.to_string()).unwrap();
    String::from_utf8(out).unwrap()
}

/// Expected: canonicalising the very same dataset (same quads, same blank node labels) always
/// gives the same document. (This is exactly what `sophia/examples/canonicalize.rs` does: it loads
/// the input into a `HashSet`; running it repeatedly on the three lines above prints two different outputs.)
/// Observed: two different documents, depending on the iteration order of the HashSet.
#[test]
fn same_dataset_same_canonical_document() {
    let mut seen = BTreeSet::new();
    for _ in 0..64 {
        // every new HashSet has its own RandomState, hence its own iteration order
        let d: HashSet<MyQuad> = [q("n0", "n1", "n2"), q("n1", "n2", "n0"), q("n2", "n0", "n1")]
            .into_iter()
            .collect();
        seen.insert(c14n(&d));
    }
    for doc in &seen {
        println!("{doc}");
    }
    assert_eq!(
        seen.len(),
        1,
        "the same dataset was canonicalised to {} different documents",
        seen.len()
    );
}
