//! Drop into `c14n/tests/hunt_C06_2.rs`, run with
//! `cargo test -p sophia_c14n --test hunt_C06_2 --offline`
//!
//! C06 / purpose of RDFC-1.0: the canonical document does not depend on the blank node labels of the input.
//!
//! NB: unlike hunt_C06_1 (iteration-order dependence, which is sophia's own), the root cause of this one is in
//! the RDFC-1.0 algorithm itself: Hash Related Blank Node / Hash N-Degree Quads only hash *pairs*
//! (identifier, related node + its position), so in a quad that mentions three blank nodes
//! (subject, object, graph name) they do not see which two related nodes share a quad.
//! The two orientations of the "rotation" below get equal N-degree hashes although they are not automorphic,
//! and the algorithm breaks the tie by list order, i.e. ultimately by the input labels.

use sophia_api::quad::Spog;
use sophia_api::term::{BnodeId, IriRef, SimpleTerm};
use sophia_c14n::rdfc10;
use std::collections::BTreeSet;

type MyQuad = Spog<SimpleTerm<'static>>;

fn b(label: &str) -> SimpleTerm<'static> {
    SimpleTerm::BlankNode(BnodeId::new_unchecked(label.to_string().into()))
}

fn q(s: &str, o: &str, g: &str) -> MyQuad {
    let p = SimpleTerm::Iri(IriRef::new_unchecked("http://ex/p".into()));
    ([b(s), p, b(o)], Some(b(g)))
}

fn c14n<D: sophia_api::dataset::SetDataset>(d: &D) -> String {
    let mut out = Vec::new();
    rdfc10::normalize(d, &mut out).map_err(|e| e.to_string()).unwrap();
    String::from_utf8(out).unwrap()
}

/// Expected: two datasets that differ only by their blank node labels have the same canonical document
/// (that is the purpose of the canonical labelling).
/// Here a fourth quad `_:a <http://ex/p> _:a _:x` marks one of the three nodes, so that only _:b and _:c
/// remain undistinguished by their first degree hash; their N-degree hashes are equal as well, although
/// exchanging them is not an automorphism, and step 5.3 of the canonicalisation algorithm
/// ("for each result in the hash path list, ordered by hash") has to break a tie.
/// Observed: exchanging the labels b and c changes the output, even with a deterministic container.
#[test]
fn blank_node_labels_do_not_matter() {
    let d1: BTreeSet<MyQuad> = [q("a", "b", "c"), q("b", "c", "a"), q("c", "a", "b"), q("a", "a", "x")]
        .into_iter()
        .collect();
    // same dataset, labels b and c exchanged
    let d2: BTreeSet<MyQuad> = [q("a", "c", "b"), q("c", "b", "a"), q("b", "a", "c"), q("a", "a", "x")]
        .into_iter()
        .collect();
    assert_eq!(c14n(&d1), c14n(&d2));
}
