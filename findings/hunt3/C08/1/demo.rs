//! C08 hunt, finding 1: RDF/XML internal entities are expanded without any bound
//! ("billion laughs"): a document of a few hundred bytes makes the parser allocate
//! gigabytes, i.e. the process is aborted (out of memory) instead of reporting an error.
//!
//! Drop this file into `xml/tests/hunt_C08_1.rs` and run
//!   cargo test -p sophia_xml --test hunt_C08_1 --offline
//!
//! The tests below stay at harmless sizes (at most ~10 MB); they only show that the
//! amplification factor is exponential in the size of the document.

use sophia_api::parser::TripleParser;
use sophia_api::source::TripleSource;
use sophia_api::term::Term;
use sophia_api::triple::Triple;
use sophia_xml::parser::RdfXmlParser;

/// An RDF/XML document whose DTD declares `levels + 1` entities, each one made of
/// ten references to the previous one, and which uses the last one once, as a literal.
fn laughs(levels: usize) -> String {
    let mut dtd = String::from("<!ENTITY e0 \"0123456789\">");
    for l in 1..=levels {
        let refs = format!("&e{};", l - 1).repeat(10);
        dtd.push_str(&format!("<!ENTITY e{l} \"{refs}\">"));
    }
    format!(
        "<?xml version=\"1.0\"?>\n\
         <!DOCTYPE rdf:RDF [{dtd}]>\n\
         <rdf:RDF xmlns:rdf=\"http://www.w3.org/1999/02/22-rdf-syntax-ns#\">\
         <rdf:Description rdf:about=\"http://example.org/s\">\
         <p xmlns=\"http://example.org/\">&e{levels};</p>\
         </rdf:Description></rdf:RDF>"
    )
}

/// Parse `doc`; return `Err(message)` if the parser reported an error,
/// otherwise the length of the longest literal it yielded.
fn longest_literal(doc: &str) -> Result<usize, String> {
    let mut longest = 0;
    RdfXmlParser { base: None }
        .parse_str(doc)
        .for_each_triple(|t| {
            if let Some(lex) = t.o().lexical_form() {
                longest = longest.max(lex.len());
            }
        })
        .map_err(|e| e.to_string())?;
    Ok(longest)
}

/// Expected (property C08): for every byte string the parser terminates and either reports
/// an error or yields well-formed statements; it never aborts.  A parser that needs 10^(k+1)
/// bytes of memory for a document of about 250 + 55*k bytes is aborted by the allocator for k = 9
/// (a document of about 750 bytes needs 10 GB), so the only acceptable outcomes for such documents are an error
/// or an expansion that stays within a sane multiple of the input.
#[test]
fn a_600_byte_document_must_not_expand_to_10_megabytes() {
    let doc = laughs(6);
    assert!(doc.len() < 600);
    match longest_literal(&doc) {
        Err(_) => {} // fine: the parser refused to expand the entities
        Ok(len) => assert!(
            len <= 1_000_000,
            "a {}-byte RDF/XML document was expanded to a literal of {} bytes \
             (x{} amplification); three more entity levels (+165 bytes) need 10 GB: \
             the process is aborted instead of getting an error",
            doc.len(),
            len,
            len / doc.len()
        ),
    }
}

/// The amplification is exponential: every additional 55 bytes of DTD multiply the
/// size of the output by ten.
#[test]
fn amplification_must_not_be_exponential_in_the_document_size() {
    let mut sizes = vec![];
    for levels in 2..=5 {
        let doc = laughs(levels);
        match longest_literal(&doc) {
            Err(_) => return, // fine
            Ok(len) => sizes.push((doc.len(), len)),
        }
    }
    for w in sizes.windows(2) {
        let ((in0, out0), (in1, out1)) = (w[0], w[1]);
        assert!(
            out1 < 2 * out0,
            "adding {} bytes to the document multiplied the output by {} ({} -> {} bytes): {:?}",
            in1 - in0,
            out1 / out0,
            out0,
            out1,
            sizes
        );
    }
}
