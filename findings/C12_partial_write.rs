use sophia_api::prelude::*;
use sophia_api::term::SimpleTerm;
use sophia_jsonld::serializer::JsonLdSerializer;
use std::io::Write;

/// A writer that accepts at most 16 bytes per call (as a socket or a pipe may do)
struct Chunked(Vec<u8>);
impl Write for Chunked {
    fn write(&mut self, buf: &[u8]) -> std::io::Result<usize> {
        let n = buf.len().min(16);
        self.0.extend_from_slice(&buf[..n]);
        Ok(n)
    }
    fn flush(&mut self) -> std::io::Result<()> { Ok(()) }
}

#[test]
fn whole_document_is_written() {
    let s: SimpleTerm = Iri::new_unchecked("http://example.org/subject").into_term();
    let p: SimpleTerm = Iri::new_unchecked("http://example.org/predicate").into_term();
    let o: SimpleTerm = Iri::new_unchecked("http://example.org/object").into_term();
    let d = vec![([s, p, o], None as Option<SimpleTerm>)];
    let mut expected = Vec::new();
    JsonLdSerializer::new(&mut expected).serialize_dataset(&d).unwrap();
    let mut got = Chunked(Vec::new());
    JsonLdSerializer::new(&mut got).serialize_dataset(&d).unwrap();
    assert_eq!(String::from_utf8_lossy(&got.0), String::from_utf8_lossy(&expected));
}
