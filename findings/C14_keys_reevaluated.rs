//! Hunt 2 / C14 / violation 2 -- drop into `sparql/tests/hunt2_C14_2.rs`, run with
//! `cargo test -p sophia_sparql --test hunt2_C14_2 --offline`
//!
//! Property C14: "The sequence produced by ORDER BY is a permutation of the unordered solutions
//! in which, for every key, ... any two values that SPARQL's '<' can compare ... appear in that
//! order (reversed for DESC), with later keys breaking ties. The order used is a genuine total
//! preorder ..." -- "for all ... ASC/DESC key lists".
//!
//! `ExecState::order_by` (sparql/src/exec.rs) does not compute the keys of a solution once:
//! `cmp_bindings_with` evaluates the key expressions of both solutions again *in every comparison*
//! made by `sort_unstable_by`. With a key that is not a pure function of the solution
//! (RAND(), BNODE(), and NOW()/UUID()/STRUUID() once implemented) a solution has a different key
//! in each comparison, the comparator is not an order at all, and the later keys do not break
//! the ties of anything: the result is not sorted according to *any* assignment of key values.
//! (It also costs O(n log n) evaluations of every key expression, EXISTS sub-queries included.)

use sophia_api::prelude::*;
use sophia_api::quad::Spog;
use sophia_api::sparql::Query;
use sophia_api::term::{IriRef, SimpleTerm};
use sophia_sparql::*;

const XSD: &str = "http://www.w3.org/2001/XMLSchema#";
const N: usize = 300;

fn iri(i: String) -> SimpleTerm<'static> {
    SimpleTerm::Iri(IriRef::new_unchecked(i.into()))
}

/// Store the integers 0..N as `<tag:sI> <tag:v> I`, run the query,
/// and return the ?x column (as integers).
fn select_x(query: &str) -> Vec<i64> {
    let dataset: Vec<Spog<SimpleTerm<'static>>> = (0..N)
        .map(|i| {
            let x = SimpleTerm::LiteralDatatype(
                i.to_string().into(),
                IriRef::new_unchecked(format!("{XSD}integer").into()),
            );
            ([iri(format!("tag:s{i}")), iri("tag:v".into()), x], None)
        })
        .collect();
    let wrapper = SparqlWrapper(&dataset);
    let query = SparqlQuery::parse(query).unwrap();
    wrapper
        .query(&query)
        .unwrap()
        .into_bindings()
        .into_iter()
        .map(|row| row.unwrap()[0].as_ref().unwrap().lexical_form().unwrap().parse().unwrap())
        .collect()
}

/// number of positions where the sequence goes down
fn descents(xs: &[i64]) -> usize {
    xs.windows(2).filter(|w| w[0] > w[1]).count()
}

/// Expected: every solution gets one value of the first key, false or true; the result is the
/// `false` group followed by the `true` group, and inside each group the second key ?x sorts
/// the solutions: the ?x column is made of (at most) two ascending runs, i.e. goes down at most once.
/// Observed: ~100 descents among 300 solutions (the column is not sorted by anything).
/// (A correct implementation can not fail this test, whatever RAND() returns.)
#[test]
fn random_bucket_then_value() {
    let xs = select_x("SELECT ?x { ?s <tag:v> ?x } ORDER BY (RAND() < 0.5) ?x");
    let mut sorted = xs.clone();
    sorted.sort();
    assert_eq!(sorted, (0..N as i64).collect::<Vec<_>>(), "not a permutation");
    assert!(descents(&xs) <= 1, "{} descents in {xs:?}", descents(&xs));
}

/// Expected: three buckets (FLOOR(RAND()*3) is 0, 1 or 2), each sorted by DESC(?x):
/// at most three descending runs, i.e. the column goes *up* at most twice.
/// Observed: ~100 ascents.
#[test]
fn three_random_buckets_then_desc_value() {
    let xs = select_x("SELECT ?x { ?s <tag:v> ?x } ORDER BY FLOOR(RAND()*3) DESC(?x)");
    let ascents = xs.windows(2).filter(|w| w[0] < w[1]).count();
    assert!(ascents <= 2, "{ascents} ascents in {xs:?}");
}

/// Control (passes): when the random key is computed once per solution by BIND,
/// ORDER BY sees a stable value and the result is two ascending runs.
#[test]
fn control_key_bound_once() {
    let xs = select_x("SELECT ?x { ?s <tag:v> ?x BIND(RAND() < 0.5 AS ?k) } ORDER BY ?k ?x");
    assert!(descents(&xs) <= 1, "{} descents in {xs:?}", descents(&xs));
}
