use sophia_api::prelude::*;
use sophia_api::sparql::{SparqlDataset, SparqlResult};
use sophia_inmem::dataset::LightDataset;
use sophia_sparql::SparqlWrapper;

fn count(q: &str) -> Result<usize, String> {
    let mut d = LightDataset::new();
    d.insert(Iri::new_unchecked("tag:s"), Iri::new_unchecked("tag:p"), 1, None as Option<Iri<&str>>).unwrap();
    let w = SparqlWrapper(&d);
    match w.query(q) {
        Ok(SparqlResult::Bindings(b)) => Ok(b.into_iter().filter(|r| r.is_ok()).count()),
        Ok(_) => Err("other".into()),
        Err(e) => Err(e.to_string()),
    }
}
#[test]
fn in_with_error_before_the_match() {
    // SPARQL 1.1 17.4.1.9: 2 IN (1/0, 2) is true
    assert_eq!(count("SELECT ?o { <tag:s> <tag:p> ?o FILTER(2 IN (1/0, 2)) }"), Ok(1));
}
#[test]
fn in_with_error_and_no_match_is_an_error() {
    // 2 IN (3, 1/0) raises an error => NOT IN raises an error too => row dropped in both cases
    assert_eq!(count("SELECT ?o { <tag:s> <tag:p> ?o FILTER(2 IN (3, 1/0)) }"), Ok(0));
    assert_eq!(count("SELECT ?o { <tag:s> <tag:p> ?o FILTER(2 NOT IN (3, 1/0)) }"), Ok(0));
}
#[test]
fn not_in_with_error_before_the_match() {
    assert_eq!(count("SELECT ?o { <tag:s> <tag:p> ?o FILTER(2 NOT IN (1/0, 2)) }"), Ok(0));
    assert_eq!(count("SELECT ?o { <tag:s> <tag:p> ?o FILTER(!(2 NOT IN (1/0, 2))) }"), Ok(1));
}
