//! Property C09 - violation 2.
//! Drop into `iri/tests/hunt_C09_2.rs`, run with
//! `cargo test -p sophia_iri --test hunt_C09_2 --offline`.
//!
//! `BaseIri::resolve_into(iri, buf)` / `BaseIriRef::resolve_into(iri, buf)` are documented as
//! "Resolves `iri` against this base, using `buf` to store the result" and return an
//! `Iri<&str>` / `IriRef<&str>` borrowing **the whole of `buf`** (`&buf[..]`).
//! Neither sophia nor oxiri clears the buffer first, and oxiri computes all its
//! offsets as if the buffer had been empty.  So when the buffer is reused (the very
//! reason this method exists) without an explicit `clear()`:
//!  * the previous content stays in front of the new result
//!    (`http://a/dhttp://a/e`), and is handed out typed as an `Iri`;
//!  * or the previous content is partly overwritten (network-path references), or wiped
//!    (references starting with a letter) - three different behaviours depending on the
//!    first character of the reference;
//!  * if the stale content is not ASCII the `&str` flavour (that returns a `Result`)
//!    panics in debug builds / returns an `Iri` that `Iri::new` rejects in release builds.
//!
//! Expected (property C09): resolving an accepted reference against an accepted absolute
//! base gives the result of RFC 3986 section 5.2, which is itself an accepted absolute
//! IRI - whatever was in the scratch buffer before the call.

use sophia_iri::resolve::BaseIri;
use sophia_iri::{Iri, IriRef};
use std::panic::catch_unwind;

/// The natural way of using `resolve_into`: one buffer, many resolutions.
#[test]
fn buffer_can_be_reused() {
    let base = BaseIri::new("http://a/b/c").unwrap();
    let mut buf = String::new();

    let first = base
        .resolve_into(IriRef::new("../d").unwrap(), &mut buf)
        .as_str()
        .to_string();
    assert_eq!(first, "http://a/d");

    // second resolution in the same buffer
    let second = base
        .resolve_into(IriRef::new("../e").unwrap(), &mut buf)
        .as_str()
        .to_string();
    // RFC 3986 5.2: "http://a/b/c" + "../e" = "http://a/e"
    assert_eq!(second, "http://a/e"); // observed: "http://a/dhttp://a/e"
}

/// The result must not depend on what the scratch buffer contained.
#[test]
fn result_is_independent_of_previous_buffer_content() {
    let base = BaseIri::new("http://a/b/c").unwrap();
    let mut failures = vec![];
    for (rel, expected) in [
        ("d", "http://a/b/d"),      // observed: correct (oxiri happens to clear the buffer)
        ("../d", "http://a/d"),     // observed: "XXXXhttp://a/d"
        ("?q", "http://a/b/c?q"),   // observed: "XXXXhttp://a/b/c?q"
        ("x:y", "x:y"),             // observed: "XXXXx:y"
        ("//h/e", "http://h/e"),    // observed: "XXXXhtth/e" (release) / panic (debug)
    ] {
        let got = catch_unwind(|| {
            let base = base.as_ref();
            let mut buf = String::from("XXXX");
            base.resolve_into(rel, &mut buf)
                .map(|i| i.as_str().to_string())
        });
        match got {
            Err(_) => failures.push(format!("<{rel}>: expected {expected:?}, got a PANIC")),
            Ok(got) => {
                if got.as_deref().ok() != Some(expected) {
                    failures.push(format!("<{rel}>: expected {expected:?}, got {got:?}"));
                }
            }
        }
    }
    assert!(failures.is_empty(), "\n{}", failures.join("\n"));
}

/// With non-ASCII stale content, the flavour that returns a `Result` must still not
/// panic, and must return an accepted IRI.
#[test]
fn stale_non_ascii_content() {
    let res = catch_unwind(|| {
        let base = BaseIri::new("http://a/b/c").unwrap();
        let mut buf = String::from("ééééé");
        base.resolve_into("../d", &mut buf)
            .map(|i| i.as_str().to_string())
    });
    let out = res
        .expect("resolve_into(&str) returns a Result, it must not panic")
        .expect("operands are valid");
    assert!(Iri::new(out.as_str()).is_ok(), "<{out}> is typed Iri but rejected by Iri::new");
    assert_eq!(out, "http://a/d");
}
