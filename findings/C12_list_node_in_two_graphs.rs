//! Hunt C12 / 2 -- a list node that is ALSO described in another graph is still folded into
//! `@list`: no quad is lost any more, but the blank node shared by the two graphs is split in two.
//!
//! Drop into `sophia/tests/hunt_C12_2.rs` and run
//! `cargo test -p sophia --features jsonld --test hunt_C12_2 --offline`
//!
//! Property C12: serialising a dataset as JSON-LD and parsing it back gives an isomorphic dataset,
//! "for all datasets mixing default and named graphs, blank nodes shared between graphs, ...".
//!
//! This is what remains of the (repaired) defect "jsonify suppressed every node whose label is
//! the label of a list node, in whatever graph": the node of the other graph is now emitted,
//! under its label `_:l`, but the list of the first graph is still emitted as an anonymous `@list`.
//! The parser mints a fresh blank node for the list head, so that `_:l` of <g2> and the list head
//! of <g1>, which were ONE blank node of the dataset, are two unrelated blank nodes afterwards
//! (same number of quads, not isomorphic).
//! `Engine::mark_list_node` only asks whether the node has a unique parent *as an object*;
//! it does not ask whether the same blank node is a subject in a second graph.

use sophia::api::prelude::*;
use sophia::api::quad::Spog;
use sophia::api::term::SimpleTerm;
use sophia::isomorphism::isomorphic_datasets;
use sophia::jsonld::options::ProcessingMode;
use sophia::jsonld::{JsonLdOptions, JsonLdParser, JsonLdStringifier};
use sophia::turtle::parser::nq;
use std::collections::HashSet;

type Ds = HashSet<Spog<SimpleTerm<'static>>>;

const RDF: &str = "http://www.w3.org/1999/02/22-rdf-syntax-ns#";

/// Parse N-Quads (`rdf:` is expanded for readability).
fn load(src: &str) -> Ds {
    let src = src.replace("rdf:", RDF);
    nq::parse_str(&src).collect_quads().unwrap()
}

fn dump(d: &Ds) -> String {
    let mut lines: Vec<String> = d.iter().map(|q| format!("    {q:?}")).collect();
    lines.sort();
    lines.join("\n")
}

/// Serialise `d1` as JSON-LD, parse the result back (same options on both sides),
/// and require the outcome to be isomorphic to `d1` (this is property C12).
fn assert_roundtrip(d1: &Ds, mode: ProcessingMode, use_rdf_type: bool, spaces: u16) {
    let opts = || {
        JsonLdOptions::new()
            .with_processing_mode(mode)
            .with_use_rdf_type(use_rdf_type)
            .with_spaces(spaces)
    };
    let mut ser = JsonLdStringifier::new_stringifier_with_options(opts());
    let json = ser.serialize_dataset(d1).unwrap().to_string();
    let d2: Ds = JsonLdParser::new_with_options(opts())
        .parse_str(&json)
        .collect_quads()
        .unwrap();
    assert!(
        isomorphic_datasets(d1, &d2).unwrap(),
        "round-trip is not isomorphic [{mode:?}, use_rdf_type={use_rdf_type}, spaces={spaces}]\n  input ({} quads):\n{}\n  JSON-LD: {json}\n  parsed back ({} quads):\n{}",
        d1.len(),
        dump(d1),
        d2.len(),
        dump(&d2),
    );
}

/// All the lossless configurations named by the property.
fn assert_roundtrip_everywhere(src: &str) {
    let d1 = load(src);
    for mode in [ProcessingMode::JsonLd1_0, ProcessingMode::JsonLd1_1] {
        for use_rdf_type in [false, true] {
            for spaces in [0, 2] {
                assert_roundtrip(&d1, mode, use_rdf_type, spaces);
            }
        }
    }
}

/// The input of the known defect: a list in <g1>, and the same blank node with a property in <g2>.
/// Expected: the subject of `<tag:q> "x"` in <g2> is still the head of the list of <g1>.
#[test]
fn list_head_described_in_a_second_named_graph() {
    assert_roundtrip_everywhere(
        r#"
        <tag:s> <tag:p> _:l <tag:g1> .
        _:l <rdf:first> "a" <tag:g1> .
        _:l <rdf:rest> <rdf:nil> <tag:g1> .
        _:l <tag:q> "x" <tag:g2> .
    "#,
    );
}

/// Same thing between the default graph (list) and a named graph.
#[test]
fn list_in_default_graph_described_in_a_named_graph() {
    assert_roundtrip_everywhere(
        r#"
        <tag:s> <tag:p> _:l .
        _:l <rdf:first> "a" .
        _:l <rdf:rest> <rdf:nil> .
        _:l <tag:q> "x" <tag:g> .
    "#,
    );
}

/// Same thing for the tail of a list, "split across graphs":
/// `_:l2` is a list node of the default graph and carries another rdf:first in <tag:g>.
#[test]
fn inner_list_node_described_in_a_second_graph() {
    assert_roundtrip_everywhere(
        r#"
        <tag:s> <tag:p> _:l1 .
        _:l1 <rdf:first> "a" .
        _:l1 <rdf:rest> _:l2 .
        _:l2 <rdf:first> "b" .
        _:l2 <rdf:rest> <rdf:nil> .
        _:l2 <rdf:first> "c" <tag:g> .
    "#,
    );
}

/// Control: a blank node shared between graphs that is not a list node round-trips.
#[test]
fn control_shared_blank_node_that_is_not_a_list() {
    assert_roundtrip_everywhere(
        r#"
        <tag:s> <tag:p> _:l <tag:g1> .
        _:l <tag:q> "a" <tag:g1> .
        _:l <tag:q> "x" <tag:g2> .
    "#,
    );
}
