//! Property C13 - "no query panics", and arithmetic as defined by the SPARQL operators.
//!
//! Drop this file in `sparql/tests/hunt_C13_12.rs` and run
//! `cargo test -p sophia_sparql --test hunt_C13_12 --offline`.
//!
//! The unary minus of an xsd:integer is `Some((-inner).into())` on the native `isize`
//! (sparql/src/value/_number.rs, `impl Neg for &SparqlNumber`). xsd:integer is unbounded, and the
//! binary operators (+, -, *) take care of that (`checked_add` ... falling back on BigInt), but the
//! negation does not: -(-9223372036854775808) PANICS in debug builds ('attempt to negate with
//! overflow') and wraps to -9223372036854775808 in release builds (a wrong, negative, answer).
//! This is the sibling of the already repaired `ABS` defect (same value, other operator, other
//! function: the repair of `abs` did not touch `neg`).
use sophia_api::prelude::*;
use sophia_api::sparql::{Query, SparqlDataset, SparqlResult};
use sophia_inmem::dataset::LightDataset;
use sophia_sparql::{SparqlQuery, SparqlWrapper};

const PROLOGUE: &str = "PREFIX : <tag:> PREFIX xsd: <http://www.w3.org/2001/XMLSchema#> ";

#[allow(dead_code)]
fn dataset(trig: &str) -> LightDataset {
    sophia_turtle::parser::trig::parse_str(&format!("{PROLOGUE}{trig}"))
        .collect_quads()
        .expect("test data must parse")
}

/// Run a SELECT query; every row is rendered as "var=term var=term ..." (UNDEF for unbound),
/// and the rows are sorted, so that the result can be compared as a multiset.
#[allow(dead_code)]
fn select<D: Dataset>(d: &D, query: &str) -> Result<Vec<String>, String> {
    let query = SparqlQuery::parse(&format!("{PROLOGUE}{query}")).map_err(|e| e.to_string())?;
    let res = SparqlWrapper(d).query(&query).map_err(|e| e.to_string())?;
    let SparqlResult::Bindings(bindings) = res else {
        return Err("not a SELECT query".into());
    };
    let vars: Vec<String> = bindings.variables().iter().map(|v| (*v).to_string()).collect();
    let mut rows = vec![];
    for row in bindings {
        let row = row.map_err(|e| e.to_string())?;
        let cells: Vec<String> = vars
            .iter()
            .zip(row.iter())
            .map(|(v, t)| match t {
                Some(t) => format!("{v}={t}"),
                None => format!("{v}=UNDEF"),
            })
            .collect();
        rows.push(cells.join(" "));
    }
    rows.sort();
    Ok(rows)
}

/// Run an ASK query.
#[allow(dead_code)]
fn ask<D: Dataset>(d: &D, query: &str) -> Result<bool, String> {
    let query = SparqlQuery::parse(&format!("{PROLOGUE}{query}")).map_err(|e| e.to_string())?;
    match SparqlWrapper(d).query(&query).map_err(|e| e.to_string())? {
        SparqlResult::Boolean(b) => Ok(b),
        _ => Err("not an ASK query".into()),
    }
}

/// Expected: -(-9223372036854775808) = 9223372036854775808 (xsd:integer is unbounded).
/// Observed: panic 'attempt to negate with overflow' (debug) / -9223372036854775808 (release).
#[test]
fn negate_smallest_native_integer() {
    let d = dataset("");
    assert_eq!(
        select(
            &d,
            r#"SELECT (-("-9223372036854775808"^^xsd:integer) AS ?x) {}"#
        ),
        Ok(vec![
            r#"x="9223372036854775808"^^<http://www.w3.org/2001/XMLSchema#integer>"#.to_string()
        ])
    );
}

/// Expected: the same when the value is computed (-9223372036854775807 - 1) and used in a FILTER.
#[test]
fn negate_computed_value_in_filter() {
    let d = dataset("");
    assert_eq!(
        ask(
            &d,
            "ASK { FILTER(-(-9223372036854775807 - 1) > 9223372036854775807) }"
        ),
        Ok(true)
    );
}

/// Expected: the same over data.
#[test]
fn negate_over_data() {
    let d = dataset(r#":a :v -9223372036854775808 . :b :v 5 ."#);
    assert_eq!(
        select(&d, "SELECT ?s { ?s :v ?v FILTER(-?v > 0) }"),
        Ok(vec!["s=<tag:a>".to_string()])
    );
}
