//! Property C06 - drop into `c14n/tests/hunt_C06_1.rs`, run with
//! `cargo test -p sophia_c14n --test hunt_C06_1 --offline`
//!
//! RDFC-1.0, section 4.4.3 step 2: "For every quad Q in input dataset: for each blank node that
//! is a component of Q, add a reference to Q from the map entry for the blank node identifier
//! in the blank node to quads map".  A blank node that occurs in two (or three) positions of
//! the same quad is still ONE blank node of that quad: the quad must be referenced once.
//! (rdf-canonize keeps a `Set` of quads per blank node, rdf-normalize uses `|=`.)
//!
//! `relabel_with` iterates over the *positions* and pushes the quad once per position, so for
//! `_:a <p> _:a .` the quad list of `_:a` is `[Q, Q]`.  Hash First Degree Quads then hashes the
//! line twice, and Hash N-Degree Quads sees every related blank node of that quad twice.
//! Both change hashes, hence the issued identifiers and the canonical document.

use sha2::{Digest, Sha256 as RawSha256};
use sophia_api::quad::Spog;
use sophia_api::term::{BnodeId, IriRef, SimpleTerm};
use sophia_c14n::rdfc10::{normalize, normalize_sha384};
use std::collections::HashSet;

type MyDataset = HashSet<Spog<SimpleTerm<'static>>>;

fn term(tok: &str) -> SimpleTerm<'static> {
    if let Some(id) = tok.strip_prefix("_:") {
        SimpleTerm::BlankNode(BnodeId::new_unchecked(id.to_string().into()))
    } else {
        assert!(tok.starts_with('<') && tok.ends_with('>'));
        SimpleTerm::Iri(IriRef::new_unchecked(tok[1..tok.len() - 1].to_string().into()))
    }
}

/// one quad per line, terms separated by one space, line terminated by " ."
fn dataset(src: &str) -> MyDataset {
    src.lines()
        .map(|l| {
            let mut t: Vec<_> = l.trim().strip_suffix(" .").unwrap().split(' ').map(term).collect();
            let g = if t.len() == 4 { t.pop() } else { None };
            let o = t.pop().unwrap();
            let p = t.pop().unwrap();
            let s = t.pop().unwrap();
            ([s, p, o], g)
        })
        .collect()
}

fn c14n(d: &MyDataset) -> String {
    let mut out = Vec::new();
    normalize(d, &mut out).unwrap();
    String::from_utf8(out).unwrap()
}

fn sha256_hex(s: &str) -> String {
    RawSha256::digest(s.as_bytes()).iter().map(|b| format!("{b:02x}")).collect()
}

/// Two blank nodes, each in exactly one quad, so only Hash First Degree Quads is involved, and
/// the expected result can be derived right here from the specification:
/// the hash of `_:a` is SHA-256 of the single line `_:a <http://example.org/p0> _:a .\n`,
/// the hash of `_:b` is SHA-256 of the single line `_:a <http://example.org/p4> <http://example.org/o> .\n`;
/// canonical identifiers are issued in the order of these hashes (step 4).
#[test]
fn self_loop_quad_is_hashed_once() {
    let d = dataset(
        "_:a <http://example.org/p0> _:a .\n\
         _:b <http://example.org/p4> <http://example.org/o> .",
    );
    let ha = sha256_hex("_:a <http://example.org/p0> _:a .\n");
    let hb = sha256_hex("_:a <http://example.org/p4> <http://example.org/o> .\n");
    // a9d077d8... > a902e8e8... : `_:b` comes first and is c14n0, `_:a` is c14n1
    assert!(hb < ha);
    let expected = "_:c14n0 <http://example.org/p4> <http://example.org/o> .\n\
                    _:c14n1 <http://example.org/p0> _:c14n1 .\n";
    let got = c14n(&d);
    assert_eq!(
        got, expected,
        "RDFC-1.0 hashes the quad `_:a <p0> _:a` once for `_:a`; sophia hashed it twice"
    );
}

/// The same root cause seen from Hash N-Degree Quads: `_:a` is subject and graph name of its
/// quad, so `_:b` is added twice to the related-blank-node list of `_:a`.
/// Expected values computed with an independent implementation of the W3C algorithm.
#[test]
fn blank_node_in_two_positions_of_a_quad() {
    let d = dataset(
        "_:a <http://example.org/p5> _:b _:a .\n\
         _:c <http://example.org/p5> _:d _:c .",
    );
    let expected = "_:c14n0 <http://example.org/p5> _:c14n1 _:c14n0 .\n\
                    _:c14n2 <http://example.org/p5> _:c14n3 _:c14n2 .\n";
    assert_eq!(c14n(&d), expected);

    let d = dataset(
        "_:a <http://example.org/p0> _:b _:a .\n\
         _:c <http://example.org/p0> _:d _:c .",
    );
    let expected = "_:c14n0 <http://example.org/p0> _:c14n1 _:c14n0 .\n\
                    _:c14n2 <http://example.org/p0> _:c14n3 _:c14n2 .\n";
    let mut out = Vec::new();
    normalize_sha384(&d, &mut out).unwrap();
    assert_eq!(String::from_utf8(out).unwrap(), expected, "SHA-384");
}
