use sophia_api::prelude::*;
use sophia_api::ns::rdf;
use sophia_api::term::SimpleTerm;
use sophia_turtle::parser::turtle;
use sophia_turtle::serializer::turtle::{TurtleConfig, TurtleSerializer};

fn roundtrip(g: &Vec<[SimpleTerm<'static>; 3]>) -> Result<usize, String> {
    let mut ser = TurtleSerializer::new_stringifier_with_config(TurtleConfig::new().with_pretty(true));
    ser.serialize_graph(g).map_err(|e| e.to_string())?;
    let txt = ser.to_string();
    println!("{txt}");
    let g2: Vec<[SimpleTerm<'static>; 3]> = turtle::parse_str(&txt).collect_triples().map_err(|e| format!("does not parse back: {e}"))?;
    Ok(g2.len())
}

#[test]
fn nil_as_predicate() {
    let s = Iri::new_unchecked("tag:s").into_term::<SimpleTerm>();
    let o = Iri::new_unchecked("tag:o").into_term::<SimpleTerm>();
    let g = vec![[s, rdf::nil.into_term(), o]];
    assert_eq!(roundtrip(&g), Ok(1));
}
#[test]
fn nil_as_datatype() {
    let s = Iri::new_unchecked("tag:s").into_term::<SimpleTerm>();
    let p = Iri::new_unchecked("tag:p").into_term::<SimpleTerm>();
    let lit = SimpleTerm::LiteralDatatype("x".into(), rdf::nil.iri().unwrap().map_unchecked(|m| m.to_string().into()));
    let g = vec![[s, p, lit]];
    assert_eq!(roundtrip(&g), Ok(1));
}
