use sophia_api::prelude::*;
use sophia_api::sparql::{SparqlDataset, SparqlResult};
use sophia_api::term::SimpleTerm;
use sophia_api::ns::xsd;
use sophia_inmem::dataset::LightDataset;
use sophia_sparql::SparqlWrapper;

#[test]
fn huge_year_does_not_panic() {
    let mut d = LightDataset::new();
    let lit = SimpleTerm::LiteralDatatype("99999999999-01-01T00:00:00".into(), xsd::dateTime.iri().unwrap().map_unchecked(|m| m.to_string().into()));
    d.insert(Iri::new_unchecked("tag:s"), Iri::new_unchecked("tag:p"), lit, None as Option<Iri<&str>>).unwrap();
    let w = SparqlWrapper(&d);
    let res = w.query("SELECT ?o { ?s ?p ?o FILTER(?o < \"2000-01-01T00:00:00\"^^<http://www.w3.org/2001/XMLSchema#dateTime>) }");
    match res {
        Ok(SparqlResult::Bindings(b)) => { let n = b.into_iter().count(); assert_eq!(n, 0); }
        _ => panic!("unexpected"),
    }
}
