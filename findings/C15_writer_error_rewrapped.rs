//! Drop into `turtle/tests/hunt_C15_1.rs`, run with
//! `cargo test -p sophia_turtle --test hunt_C15_1 --offline`.
//!
//! Property C15: when the sink (here: the `io::Write` behind a serializer) fails on item k,
//! the failure must be reported as `SinkError` *carrying the original error value*,
//! whatever the position of the fault.
//!
//! `NtSerializer` / `NqSerializer` hand the writer's `io::Error` back untouched when the fault
//! hits while a term is being written, but when the fault hits the write of the statement
//! terminator (`.\n`) they bury it inside a fresh `io::Error` of kind `Other`
//! (so `kind()`, `raw_os_error()` of the error the caller gets are wrong).

use sophia_api::graph::Graph;
use sophia_api::serializer::{QuadSerializer, TripleSerializer};
use sophia_api::source::{StreamError, TripleSource};
use sophia_api::term::SimpleTerm;
use sophia_turtle::serializer::nq::NqSerializer;
use sophia_turtle::serializer::nt::NtSerializer;
use sophia_turtle::serializer::turtle::TurtleSerializer;
use std::io;

type T3 = [SimpleTerm<'static>; 3];

fn triples() -> Vec<T3> {
    let doc = "<http://e/s0> <http://e/p> \"0\" .\n<http://e/s1> <http://e/p> \"1\" .\n<http://e/s2> <http://e/p> \"2\" .\n";
    sophia_turtle::parser::nt::parse_str(doc)
        .collect_triples()
        .unwrap()
}

/// A writer that accepts `limit` bytes, then fails every call with the error built by `mk`.
struct FailingWriter<F> {
    written: usize,
    limit: usize,
    mk: F,
}
impl<F: Fn() -> io::Error> io::Write for FailingWriter<F> {
    fn write(&mut self, buf: &[u8]) -> io::Result<usize> {
        if self.written + buf.len() > self.limit {
            return Err((self.mk)());
        }
        self.written += buf.len();
        Ok(buf.len())
    }
    fn flush(&mut self) -> io::Result<()> {
        Ok(())
    }
}

const FULL_LEN: usize = 3 * 32; // each statement is serialized on 32 bytes: `<http://e/sN> <http://e/p> "N".\n`

fn broken_pipe() -> io::Error {
    io::Error::new(io::ErrorKind::BrokenPipe, "boom")
}

/// Expected: for EVERY fault position, the caller gets SinkError(e) with e.kind() == BrokenPipe.
#[test]
fn nt_sink_error_keeps_its_kind_at_every_fault_position() {
    let ts = triples();
    let mut wrong = vec![];
    for limit in 0..FULL_LEN {
        let w = FailingWriter { written: 0, limit, mk: broken_pipe };
        match NtSerializer::new(w).serialize_triples(ts.triples()) {
            Err(StreamError::SinkError(e)) => {
                if e.kind() != io::ErrorKind::BrokenPipe {
                    wrong.push((limit, e.kind()));
                }
            }
            Err(StreamError::SourceError(e)) => panic!("limit={limit}: blamed the source: {e}"),
            Ok(_) => panic!("limit={limit}: fault not reported"),
        }
    }
    assert!(
        wrong.is_empty(),
        "NtSerializer altered the writer's error at these fault positions (byte limit, kind seen): {wrong:?}"
    );
}

/// Same expectation for N-Quads.
#[test]
fn nq_sink_error_keeps_its_kind_at_every_fault_position() {
    let ts = triples();
    let mut wrong = vec![];
    for limit in 0..FULL_LEN {
        let w = FailingWriter { written: 0, limit, mk: broken_pipe };
        match NqSerializer::new(w).serialize_quads(ts.triples().to_quads()) {
            Err(StreamError::SinkError(e)) => {
                if e.kind() != io::ErrorKind::BrokenPipe {
                    wrong.push((limit, e.kind()));
                }
            }
            Err(StreamError::SourceError(e)) => panic!("limit={limit}: blamed the source: {e}"),
            Ok(_) => panic!("limit={limit}: fault not reported"),
        }
    }
    assert!(
        wrong.is_empty(),
        "NqSerializer altered the writer's error at these fault positions (byte limit, kind seen): {wrong:?}"
    );
}

/// Expected: an OS error (here ENOSPC = 28) raised by the writer while the terminator of the
/// first statement is written reaches the caller as is (raw_os_error() == Some(28)).
#[test]
fn nt_sink_error_keeps_its_os_code() {
    let ts = triples();
    // 30 bytes = `<http://e/s0> <http://e/p> "0"`: the next write is the terminator `.\n`
    let w = FailingWriter { written: 0, limit: 30, mk: || io::Error::from_raw_os_error(28) };
    let err = match NtSerializer::new(w).serialize_triples(ts.triples()) {
        Err(StreamError::SinkError(e)) => e,
        _ => panic!("expected a SinkError"),
    };
    assert_eq!(err.raw_os_error(), Some(28), "got {err:?}");
}

/// Control: the sibling Turtle serializer hands the original error back at every position.
#[test]
fn control_turtle_serializer_keeps_the_kind() {
    let ts = triples();
    for limit in 0..90 {
        let w = FailingWriter { written: 0, limit, mk: broken_pipe };
        match TurtleSerializer::new(w).serialize_triples(ts.triples()) {
            Err(StreamError::SinkError(e)) => assert_eq!(e.kind(), io::ErrorKind::BrokenPipe),
            _ => panic!("limit={limit}: expected a SinkError"),
        }
    }
}
