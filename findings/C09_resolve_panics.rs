use sophia_iri::{Iri, IriRef};
use sophia_iri::resolve::BaseIri;

#[test]
fn resolve_typed_reference_does_not_panic() {
    let base = Iri::new("a:/b").unwrap();
    let base = base.as_base();
    let r = IriRef::new(".//c").unwrap();
    let res: Iri<String> = base.resolve(r);
    println!("{res:?}");
}
#[test]
fn resolve_str_reports_error() {
    let base = BaseIri::new("a:/b").unwrap();
    let res = base.resolve(".//c");
    println!("{res:?}");
}
#[test]
fn dot_segments_in_absolute_reference() {
    let base = BaseIri::new("http://a/b").unwrap();
    let res = base.resolve("http://x/y/../z/./w").unwrap();
    assert_eq!(res.as_str(), "http://x/z/w");
}

#[test]
fn resolve_typed_reference_against_iriref_base_does_not_panic() {
    let base = IriRef::new("a:/b").unwrap();
    let base = base.as_base();
    let r = IriRef::new(".//c").unwrap();
    let res: IriRef<String> = base.resolve(r);
    println!("{res:?}");
}
