use sophia::api::prelude::*;
use sophia::api::term::SimpleTerm;
use std::panic::catch_unwind;

fn jsonld(doc: &'static str) -> Result<usize, String> {
    let r = catch_unwind(move || {
        let mut n = 0;
        let res = sophia::jsonld::parser::JsonLdParser::new().parse_str(doc).for_each_quad(|q| {
            let _s: [SimpleTerm; 3] = [q.s().into_term(), q.p().into_term(), q.o().into_term()];
            n += 1;
        });
        (n, res.is_ok())
    });
    match r { Ok((n, _)) => Ok(n), Err(_) => Err("PANIC".into()) }
}
#[test]
fn jsonld_ipvfuture_with_unicode() {
    assert!(jsonld("{\"@id\":\"http://[v1.\u{200e}]/p\", \"http://e/p\": \"x\"}").is_ok());
}
#[test]
fn jsonld_bracketed_ipv4() {
    assert!(jsonld(r#"{"@id":"http://[1.2.3.4]/", "http://e/p": "x"}"#).is_ok());
}
