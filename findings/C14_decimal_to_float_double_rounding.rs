//! Hunt 2 / C14 / violation 3 -- drop into `sparql/tests/hunt2_C14_3.rs`, run with
//! `cargo test -p sophia_sparql --test hunt2_C14_3 --offline`
//!
//! Property C14: "... any two values that SPARQL's '<' can compare (numerics of any type ...)
//! appear in that order (reversed for DESC), with later keys breaking ties."
//!
//! To compare an xsd:decimal with an xsd:float, `SparqlNumber::coerce_to_float`
//! (sparql/src/value/_number.rs) casts the decimal with `BigDecimal::to_f32`. bigdecimal does not
//! implement `to_f32`: the default method of `num_traits::ToPrimitive` is used, which is
//! `to_f64()` followed by a cast to f32. The decimal is therefore rounded TWICE, and ordinary
//! decimals of 17+ digits (nothing like the 44+ digits needed to upset `to_f64`) get the wrong float:
//!     16777217.0000000001  --f64-->  16777217.0 (exactly half-way between two floats)
//!                          --f32-->  16777216   (ties to even)
//! whereas the nearest float of 16777217.0000000001 is 16777218.
//! Here the *pair* is mis-compared (no third value needed, unlike the known lossy-promotion defect):
//! "16777216"^^xsd:float < "16777217.0000000001"^^xsd:decimal holds under SPARQL's rules
//! (16777216 < 16777218 after promotion) as well as mathematically, but the implementation ties them.

use sophia_api::prelude::*;
use sophia_api::quad::Spog;
use sophia_api::sparql::Query;
use sophia_api::term::{IriRef, SimpleTerm};
use sophia_sparql::*;

const XSD: &str = "http://www.w3.org/2001/XMLSchema#";

fn lit(lex: &'static str, dt: &str) -> SimpleTerm<'static> {
    SimpleTerm::LiteralDatatype(lex.into(), IriRef::new_unchecked(format!("{XSD}{dt}").into()))
}

fn iri(i: String) -> SimpleTerm<'static> {
    SimpleTerm::Iri(IriRef::new_unchecked(i.into()))
}

/// Store the given values (one solution each, enumerated in the given order),
/// and return the lexical forms of `SELECT ?x { ?s <tag:v> ?x } ORDER BY <order>`.
fn order_by(values: &[SimpleTerm<'static>], order: &str) -> Vec<String> {
    let dataset: Vec<Spog<SimpleTerm<'static>>> = values
        .iter()
        .enumerate()
        .map(|(i, v)| ([iri(format!("tag:s{i}")), iri("tag:v".into()), v.clone()], None))
        .collect();
    let wrapper = SparqlWrapper(&dataset);
    let query = SparqlQuery::parse(&format!("SELECT ?x {{ ?s <tag:v> ?x }} ORDER BY {order}")).unwrap();
    wrapper
        .query(&query)
        .unwrap()
        .into_bindings()
        .into_iter()
        .map(|row| row.unwrap()[0].as_ref().unwrap().lexical_form().unwrap().to_string())
        .collect()
}

const DEC: &str = "16777217.0000000001";
const FLT: &str = "16777216";

/// Expected: the float 16777216 comes before the decimal 16777217.0000000001, in both
/// enumeration orders (the decimal is promoted to the float 16777218 > 16777216).
/// Observed: the two are tied; [decimal, float] when enumerated in that order.
#[test]
fn decimal_just_above_a_float_midpoint_asc() {
    let exp = vec![FLT, DEC];
    assert_eq!(order_by(&[lit(FLT, "float"), lit(DEC, "decimal")], "?x"), exp);
    assert_eq!(order_by(&[lit(DEC, "decimal"), lit(FLT, "float")], "?x"), exp);
}

/// Expected: with DESC the decimal comes first, in both enumeration orders.
/// Observed: [float, decimal] when enumerated in that order.
#[test]
fn decimal_just_above_a_float_midpoint_desc() {
    let exp = vec![DEC, FLT];
    assert_eq!(order_by(&[lit(DEC, "decimal"), lit(FLT, "float")], "DESC(?x)"), exp);
    assert_eq!(order_by(&[lit(FLT, "float"), lit(DEC, "decimal")], "DESC(?x)"), exp);
}

/// Expected: the first key is not tied, so a second key must not be consulted:
/// ORDER BY ?x DESC(?s) still gives [float, decimal].
/// Observed: [decimal, float]: the values are taken for equal and DESC(?s) decides (s1 before s0).
#[test]
fn second_key_used_although_values_differ() {
    // s0 -> float, s1 -> decimal
    assert_eq!(order_by(&[lit(FLT, "float"), lit(DEC, "decimal")], "?x DESC(?s)"), vec![FLT, DEC]);
}

/// Expected: same thing on the negative side: -16777217.0000000001 < -16777216.
/// Observed: tie.
#[test]
fn negative_side() {
    let exp = vec!["-16777217.0000000001", "-16777216"];
    assert_eq!(order_by(&[lit("-16777216", "float"), lit("-16777217.0000000001", "decimal")], "?x"), exp);
    assert_eq!(order_by(&[lit("-16777217.0000000001", "decimal"), lit("-16777216", "float")], "?x"), exp);
}

/// Expected: 0.1000000052154064178466796874999 lies just below the mid-point of two consecutive
/// floats, 0.1f32 (= 0.100000001490116...) and the next one (= 0.100000008940696..., written
/// "0.10000001" below); it is promoted to the lower one, so it is < "0.10000001"^^xsd:float
/// (which is also true mathematically) and must come first.
/// Observed: tie (to_f64 lands exactly on the mid-point, which then goes to the even, upper float):
/// [float, decimal] when enumerated in that order.
#[test]
fn small_decimal() {
    let dec = "0.1000000052154064178466796874999";
    let exp = vec![dec, "0.10000001"];
    assert_eq!(order_by(&[lit(dec, "decimal"), lit("0.10000001", "float")], "?x"), exp);
    assert_eq!(order_by(&[lit("0.10000001", "float"), lit(dec, "decimal")], "?x"), exp);
}

/// Control (passes): a decimal that f64 represents exactly is cast correctly
/// (16777217.5 -> 16777218 > 16777216).
#[test]
fn control_exact_in_f64() {
    let exp = vec![FLT, "16777217.5"];
    assert_eq!(order_by(&[lit(FLT, "float"), lit("16777217.5", "decimal")], "?x"), exp);
    assert_eq!(order_by(&[lit("16777217.5", "decimal"), lit(FLT, "float")], "?x"), exp);
}
