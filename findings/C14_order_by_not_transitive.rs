//! Demonstration of the known finding  property=C14 key=R14.2@EvalResult::sparql_order_by#partial-order-fallback
//! Drop into sparql/tests/ and run:  cargo test -p sophia_sparql --test C14_order_by_not_transitive --offline -- --nocapture
//! The same three values come out in three different orders depending on the order in which the store enumerates them,
//! and in one of them "10.0"^^xsd:decimal precedes "2"^^xsd:integer although SPARQL's `<` orders 2 < 10.0.
use sophia_api::prelude::*;
use sophia_api::sparql::{SparqlDataset, SparqlResult};
use sophia_api::term::SimpleTerm;
use sophia_sparql::SparqlWrapper;
fn lit(lex: &str, dt: &str) -> SimpleTerm<'static> {
    SimpleTerm::LiteralDatatype(lex.to_string().into(), IriRef::new_unchecked(dt.to_string().into()))
}
fn run(rot: usize) -> Vec<String> {
    let s = SimpleTerm::Iri(IriRef::new_unchecked("x:s".into()));
    let p = SimpleTerm::Iri(IriRef::new_unchecked("x:p".into()));
    let mut vals = vec![
        lit("2", "http://www.w3.org/2001/XMLSchema#integer"),
        lit("10.0", "http://www.w3.org/2001/XMLSchema#decimal"),
        lit("x0", "http://www.w3.org/2001/XMLSchema#e"),
    ];
    vals.rotate_left(rot);
    let d: Vec<([SimpleTerm; 3], Option<SimpleTerm>)> = vals.into_iter().map(|o| ([s.clone(), p.clone(), o], None)).collect();
    match SparqlWrapper(&d).query("SELECT ?o { <x:s> <x:p> ?o } ORDER BY ?o").unwrap() {
        SparqlResult::Bindings(b) => b.into_iter().map(|r| r.unwrap()[0].as_ref().unwrap().lexical_form().unwrap().to_string()).collect(),
        _ => vec![],
    }
}
#[test]
fn order_by_depends_on_input_order() {
    let (a, b, c) = (run(0), run(1), run(2));
    println!("{a:?}\n{b:?}\n{c:?}");
    assert_eq!(a, b, "ORDER BY must not depend on the enumeration order of the store");
    assert_eq!(a, c);
}
