//! Drop into `api/tests/hunt_C15_2.rs`, run with
//! `cargo test -p sophia_api --test hunt_C15_2 --offline`.
//!
//! Property C15: if the source fails at item k, the consumer (here: the collectors behind
//! `TripleSource::collect_triples`) has consumed exactly the items before k, and the failure is
//! reported as `SourceError` carrying the original error value.
//!
//! The `Vec<[T;3]>` and `HashSet<[T;3]>` collectors pre-allocate `size_hint_triples().0` slots
//! *before* pulling anything. For an iterator of `Result`s that lower bound counts the `Err`
//! items as well (and everything after the first `Err`, which will never be delivered), so it is
//! not a lower bound of what the collector will receive. With a long lazy source the collector
//! panics ("capacity overflow") instead of returning the source's error.
//! `std`'s own `collect::<Result<Vec<_>, _>>()`, the `BTreeSet` collector and the filtered
//! version of the very same source all return the error.

use sophia_api::source::{StreamError, TripleSource};
use sophia_api::term::SimpleTerm;
use std::collections::{BTreeSet, HashSet};

type T3 = [SimpleTerm<'static>; 3];

#[derive(Debug, PartialEq)]
struct MyErr(usize);
impl std::fmt::Display for MyErr {
    fn fmt(&self, f: &mut std::fmt::Formatter) -> std::fmt::Result {
        write!(f, "MyErr({})", self.0)
    }
}
impl std::error::Error for MyErr {}

/// A long, lazily generated stream of triples (integers are terms, `[T; 3]` is a triple)
/// whose item #2 is an error. Its size_hint is (usize::MAX, Some(usize::MAX)).
fn source() -> impl Iterator<Item = Result<[usize; 3], MyErr>> {
    (0..usize::MAX).map(|i| if i == 2 { Err(MyErr(i)) } else { Ok([i, i, i]) })
}

/// Expected: Err(SourceError(MyErr(2))) after two items have been consumed.
#[test]
fn vec_collector_reports_the_source_error() {
    let r: Result<Vec<T3>, _> = source().collect_triples();
    assert!(matches!(r, Err(StreamError::SourceError(MyErr(2)))));
}

/// Expected: Err(SourceError(MyErr(2))) after two items have been consumed.
#[test]
fn hashset_collector_reports_the_source_error() {
    let r: Result<HashSet<T3>, _> = source().collect_triples();
    assert!(matches!(r, Err(StreamError::SourceError(MyErr(2)))));
}

/// Expected: the same through a map adapter (it forwards the size hint unchanged).
#[test]
fn vec_collector_behind_map_reports_the_source_error() {
    let r: Result<Vec<T3>, _> = source().map_triples(|[s, p, o]| [o, p, s]).collect_triples();
    assert!(matches!(r, Err(StreamError::SourceError(MyErr(2)))));
}

/// Control: siblings that do not pre-allocate behave as the property demands.
#[test]
fn control_siblings_report_the_source_error() {
    let r: Result<BTreeSet<T3>, _> = source().collect_triples();
    assert!(matches!(r, Err(StreamError::SourceError(MyErr(2)))));
    let r: Result<Vec<T3>, _> = source().filter_triples(|_| true).collect_triples();
    assert!(matches!(r, Err(StreamError::SourceError(MyErr(2)))));
    let r: Result<Vec<[usize; 3]>, MyErr> = source().collect();
    assert_eq!(r, Err(MyErr(2)));
}
