//! hunt C18 / 1 -- drop into `xml/tests/hunt_C18_1.rs`, run with
//! `cargo test -p sophia_xml --test hunt_C18_1 --offline`
//!
//! Property C18: serialising a graph to RDF/XML either FAILS WITH AN ERROR or produces a
//! WELL-FORMED document (whose parse is isomorphic to the graph).
//!
//! A predicate IRI that has no NCName suffix (it ends with '#', '/', a digit, '-' ...) can not
//! be written as an XML qualified name. The serializer does not fail for it: it writes the element
//! `<prop: xmlns:prop="...">`, i.e. a qualified name with an EMPTY local part, which is not
//! well-formed (XML Namespaces: QName ::= (Prefix ':')? LocalPart, LocalPart ::= NCName).
//! expat ("not well-formed (invalid token)"), libxml2 / xmllint ("StartTag: invalid element
//! name") and therefore every RDF toolkit built on a conformant XML parser reject the document;
//! only the (lenient) quick-xml based parser of sophia_xml itself reads it back.
//!
//! Similarly a predicate in the reserved namespace `http://www.w3.org/2000/xmlns/` is written
//! with `xmlns="http://www.w3.org/2000/xmlns/"`, a namespace constraint violation
//! (expat: "prefix must not be bound to one of the reserved namespace names").

use sophia_api::graph::Graph;
use sophia_api::serializer::{Stringifier, TripleSerializer};
use sophia_api::term::{IriRef, SimpleTerm};
use sophia_xml::serializer::{RdfXmlConfig, RdfXmlSerializer};

type G = Vec<[SimpleTerm<'static>; 3]>;

fn iri(s: &str) -> SimpleTerm<'static> {
    SimpleTerm::Iri(IriRef::new(s.to_string().into()).unwrap())
}

fn lit(s: &str) -> SimpleTerm<'static> {
    SimpleTerm::LiteralDatatype(
        s.to_string().into(),
        IriRef::new("http://www.w3.org/2001/XMLSchema#string".to_string().into()).unwrap(),
    )
}

fn is_nc_name_start_char(c: char) -> bool {
    matches!(c,
        'A'..='Z' | '_' | 'a'..='z'
        | '\u{C0}'..='\u{D6}' | '\u{D8}'..='\u{F6}' | '\u{F8}'..='\u{2FF}'
        | '\u{370}'..='\u{37D}' | '\u{37F}'..='\u{1FFF}' | '\u{200C}'..='\u{200D}'
        | '\u{2070}'..='\u{218F}' | '\u{2C00}'..='\u{2FEF}' | '\u{3001}'..='\u{D7FF}'
        | '\u{F900}'..='\u{FDCF}' | '\u{FDF0}'..='\u{FFFD}' | '\u{10000}'..='\u{EFFFF}')
}

fn is_nc_name_char(c: char) -> bool {
    is_nc_name_start_char(c)
        || matches!(c, '-' | '.' | '0'..='9' | '\u{B7}' | '\u{0300}'..='\u{036F}' | '\u{203F}'..='\u{2040}')
}

fn is_nc_name(s: &str) -> bool {
    let mut cs = s.chars();
    cs.next().is_some_and(is_nc_name_start_char) && cs.all(is_nc_name_char)
}

/// QName ::= PrefixedName | UnprefixedName  (https://www.w3.org/TR/xml-names/#ns-qualnames)
fn is_q_name(s: &str) -> bool {
    match s.split_once(':') {
        None => is_nc_name(s),
        Some((prefix, local)) => is_nc_name(prefix) && is_nc_name(local),
    }
}

/// All the element names (of start, empty and end tags) of `xml`.
/// NB: the serializer escapes '<' in text and attribute values,
/// so every raw '<' not followed by '?' or '!' opens a tag.
fn element_names(xml: &str) -> Vec<&str> {
    xml.split('<')
        .skip(1)
        .filter(|chunk| !chunk.starts_with('?') && !chunk.starts_with('!'))
        .map(|chunk| {
            let chunk = chunk.strip_prefix('/').unwrap_or(chunk);
            let end = chunk
                .find(|c: char| c.is_ascii_whitespace() || c == '>' || c == '/')
                .unwrap_or(chunk.len());
            &chunk[..end]
        })
        .collect()
}

/// Expected (C18): `Err(_)`, or a document in which every element name is a QName.
fn check_error_or_wellformed_names(predicate: &str) {
    let g: G = vec![[iri("http://example.org/s"), iri(predicate), lit("x")]];
    for indentation in 0..=8 {
        let config = RdfXmlConfig::new().with_indentation(indentation);
        let mut ser = RdfXmlSerializer::new_stringifier_with_config(config);
        match ser.serialize_triples(g.triples()) {
            Err(_) => (), // fine: "either fails with an error ..."
            Ok(ser) => {
                let out = ser.to_string();
                for name in element_names(&out) {
                    assert!(
                        is_q_name(name),
                        "predicate <{predicate}>, indentation {indentation}: serialization succeeded \
                         but element name {name:?} is not an XML QName; the document is not well-formed:\n{out}"
                    );
                }
            }
        }
    }
}

#[test]
fn predicate_ending_with_hash() {
    // a namespace IRI used as a predicate
    check_error_or_wellformed_names("http://example.org/ns#");
}

#[test]
fn predicate_ending_with_slash() {
    check_error_or_wellformed_names("http://xmlns.com/foaf/0.1/");
}

#[test]
fn predicate_with_numeric_last_segment() {
    // no NCName can start with a digit: there is no valid namespace/local-name split
    check_error_or_wellformed_names("http://example.org/vocab/2021");
}

#[test]
fn predicate_ending_with_dash() {
    check_error_or_wellformed_names("http://example.org/vocab/a-b/-");
}

#[test]
fn sanity_checker_accepts_ordinary_output() {
    // (passes) the checker above accepts what the serializer writes for splittable predicates
    check_error_or_wellformed_names("http://example.org/ns#p");
    check_error_or_wellformed_names("http://example.org/1abc");
    check_error_or_wellformed_names("urn:x-1");
    check_error_or_wellformed_names("http://example.org/\u{10000}a\u{B7}b");
}

#[test]
fn predicate_in_reserved_xmlns_namespace() {
    // "The prefix xmlns is bound to http://www.w3.org/2000/xmlns/ [...] It MUST NOT be declared.
    //  [...] no other prefix may be bound to this namespace name, and it MUST NOT be declared as
    //  the default namespace." (Namespaces in XML 1.0, section 3)
    // Expected (C18): an error, or a document that does not declare that namespace.
    let g: G = vec![[
        iri("http://example.org/s"),
        iri("http://www.w3.org/2000/xmlns/foo"),
        lit("x"),
    ]];
    let mut ser = RdfXmlSerializer::new_stringifier();
    if let Ok(ser) = ser.serialize_triples(g.triples()) {
        let out = ser.to_string();
        assert!(
            !out.contains("=\"http://www.w3.org/2000/xmlns/\""),
            "serialization succeeded but declares the reserved xmlns namespace, \
             a namespace well-formedness error:\n{out}"
        );
    }
}
