//! hunt C18 / 2 -- drop into `xml/tests/hunt_C18_2.rs`, run with
//! `cargo test -p sophia_xml --test hunt_C18_2 --offline`
//!
//! Property C18: serialising a graph to RDF/XML produces a well-formed document whose parse is
//! isomorphic to the graph; for literals made of XML-legal characters (whitespace runs,
//! newlines, ...) it always succeeds and LOSES NOTHING.
//!
//! U+000D CARRIAGE RETURN is an XML-legal character (Char ::= #x9 | #xA | #xD | ...), but
//! XML 1.0 section 2.11 (End-of-Line Handling) says that an XML processor MUST translate every
//! literal "\r\n" and every lone "\r" of the document to "\n" BEFORE parsing. A CR that belongs
//! to the data can therefore only be written as a character reference (`&#13;` / `&#xD;`).
//! The serializer writes it raw. The document it produces for "a\rb" *denotes* the literal
//! "a\nb": expat, libxml2 (xmllint --xpath 'string(//*[local-name()="p"])' prints a\nb\nc for
//! the literal "a\rb\r\nc"), and every RDF toolkit built on a conformant XML parser read a
//! different graph. The loss is only invisible with sophia_xml's own parser, because that one
//! skips the mandatory end-of-line normalisation (second half of this file).

use sophia_api::graph::Graph;
use sophia_api::serializer::{Stringifier, TripleSerializer};
use sophia_api::source::TripleSource;
use sophia_api::term::{IriRef, LanguageTag, SimpleTerm};
use sophia_isomorphism::isomorphic_graphs;
use sophia_xml::serializer::{RdfXmlConfig, RdfXmlSerializer};

type G = Vec<[SimpleTerm<'static>; 3]>;

fn iri(s: &str) -> SimpleTerm<'static> {
    SimpleTerm::Iri(IriRef::new(s.to_string().into()).unwrap())
}

fn lit(s: &str) -> SimpleTerm<'static> {
    tlit(s, "http://www.w3.org/2001/XMLSchema#string")
}

fn tlit(s: &str, dt: &str) -> SimpleTerm<'static> {
    SimpleTerm::LiteralDatatype(
        s.to_string().into(),
        IriRef::new(dt.to_string().into()).unwrap(),
    )
}

fn llit(s: &str, tag: &str) -> SimpleTerm<'static> {
    SimpleTerm::LiteralLanguage(
        s.to_string().into(),
        LanguageTag::new(tag.to_string().into()).unwrap(),
    )
}

fn graph_with_carriage_returns() -> G {
    let s = iri("http://example.org/s");
    vec![
        [s.clone(), iri("http://example.org/p1"), lit("a\rb")],
        [s.clone(), iri("http://example.org/p2"), lit("line 1\r\nline 2\r\n")],
        [s.clone(), iri("http://example.org/p3"), llit("\rx", "en")],
        [
            s.clone(),
            iri("http://example.org/p4"),
            tlit("<pre>a\r\nb</pre>", "http://www.w3.org/1999/02/22-rdf-syntax-ns#XMLLiteral"),
        ],
    ]
}

/// What every conformant XML processor does to the document entity before parsing it
/// (XML 1.0, section 2.11).
fn xml_end_of_line_normalization(document: &str) -> String {
    document.replace("\r\n", "\n").replace('\r', "\n")
}

/// Expected (C18): either an error, or a document in which the carriage returns of the literals
/// are written as character references -- a raw CR never reaches the application.
#[test]
fn carriage_return_is_not_written_raw() {
    let g = graph_with_carriage_returns();
    for indentation in 0..=8 {
        let config = RdfXmlConfig::new().with_indentation(indentation);
        let mut ser = RdfXmlSerializer::new_stringifier_with_config(config);
        if let Ok(ser) = ser.serialize_triples(g.triples()) {
            let out = ser.to_string();
            assert!(
                !out.contains('\r'),
                "indentation {indentation}: the document contains a raw U+000D, \
                 which XML processors turn into U+000A: {out:?}"
            );
        }
    }
}

/// Expected (C18): the graph denoted by the produced document is isomorphic to the serialized one.
/// Here the document is read the way the XML recommendation prescribes
/// (end-of-line normalisation, then parsing).
#[test]
fn document_read_by_a_conformant_xml_processor_is_isomorphic() {
    let g = graph_with_carriage_returns();
    for indentation in 0..=8 {
        let config = RdfXmlConfig::new().with_indentation(indentation);
        let mut ser = RdfXmlSerializer::new_stringifier_with_config(config);
        if let Ok(ser) = ser.serialize_triples(g.triples()) {
            let out = xml_end_of_line_normalization(&ser.to_string());
            let g2: G = sophia_xml::parser::parse_str(&out)
                .collect_triples()
                .expect("the document should be parseable");
            assert!(
                isomorphic_graphs(&g, &g2).unwrap(),
                "indentation {indentation}: carriage returns were lost;\n expected {g:?}\n got {g2:?}"
            );
        }
    }
}

/// The companion defect that hides the previous one in a sophia-only round-trip:
/// the parser does not perform the end-of-line normalisation of XML 1.0 section 2.11.
/// A file saved with Windows line endings must yield the same graph as the same file with
/// Unix line endings (that is what every other RDF/XML parser returns).
#[test]
fn parser_normalizes_line_endings() {
    let unix = "<?xml version=\"1.0\"?>\n\
        <rdf:RDF xmlns:rdf=\"http://www.w3.org/1999/02/22-rdf-syntax-ns#\" xmlns=\"http://example.org/\">\n\
        <rdf:Description rdf:about=\"http://example.org/s\">\n\
        <p>line 1\nline 2</p>\n\
        </rdf:Description>\n\
        </rdf:RDF>\n";
    let windows = unix.replace('\n', "\r\n");
    let g_unix: G = sophia_xml::parser::parse_str(unix).collect_triples().unwrap();
    let g_windows: G = sophia_xml::parser::parse_str(&windows).collect_triples().unwrap();
    assert_eq!(g_unix.len(), 1);
    assert!(
        isomorphic_graphs(&g_unix, &g_windows).unwrap(),
        "the same document with CRLF line endings yields a different literal:\n {g_unix:?}\n {g_windows:?}"
    );
}

/// A character reference is the way to protect a CR; the parser already handles it
/// (this test passes: it shows that the suggested fix keeps the sophia-only round-trip working).
#[test]
fn sanity_character_reference_is_read_as_carriage_return() {
    let doc = "<?xml version=\"1.0\"?>\
        <rdf:RDF xmlns:rdf=\"http://www.w3.org/1999/02/22-rdf-syntax-ns#\" xmlns=\"http://example.org/\">\
        <rdf:Description rdf:about=\"http://example.org/s\"><p1>a&#13;b</p1></rdf:Description>\
        </rdf:RDF>";
    let g: G = sophia_xml::parser::parse_str(doc).collect_triples().unwrap();
    let expected: G = vec![[iri("http://example.org/s"), iri("http://example.org/p1"), lit("a\rb")]];
    assert!(isomorphic_graphs(&g, &expected).unwrap());
}
