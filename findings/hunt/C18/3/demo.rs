//! hunt C18 / 3 -- drop into `xml/tests/hunt_C18_3.rs`, run with
//! `cargo test -p sophia_xml --test hunt_C18_3 --offline`
//!
//! Property C18: serialising a graph to RDF/XML either FAILS WITH AN ERROR or produces a
//! well-formed document WHOSE PARSE IS ISOMORPHIC to the graph.
//!
//! `sophia_api::term::LanguageTag` accepts every string matching
//! `[A-Za-z][A-Za-z0-9]*(-[A-Za-z0-9]+)*` ("it is actually more permissive than BCP47"), so a
//! strict sophia graph can hold language tags such as `en-x`, `en-a` or `abcdefghi`.
//! The RDF/XML serializer copies them into `xml:lang` without any check and reports success,
//! but sophia_xml's own parser validates `xml:lang` with oxilangtag (strict BCP47 syntax) and
//! rejects the WHOLE document: one such literal makes the serialized graph unreadable.
//! (N-Triples / Turtle written by sophia for the same graph have the same problem with sophia's
//! own parsers; the RDF/XML serializer is the one C18 talks about.)

use sophia_api::graph::Graph;
use sophia_api::serializer::{Stringifier, TripleSerializer};
use sophia_api::source::TripleSource;
use sophia_api::term::{IriRef, LanguageTag, SimpleTerm};
use sophia_isomorphism::isomorphic_graphs;
use sophia_xml::serializer::{RdfXmlConfig, RdfXmlSerializer};

type G = Vec<[SimpleTerm<'static>; 3]>;

fn iri(s: &str) -> SimpleTerm<'static> {
    SimpleTerm::Iri(IriRef::new(s.to_string().into()).unwrap())
}

/// Expected (C18): serialization fails, or the output can be parsed back to the same graph.
fn check_error_or_roundtrip(tag: &str) {
    // the tag is valid as far as sophia is concerned
    let tag = LanguageTag::new(tag.to_string()).expect("sophia accepts this tag");
    let g: G = vec![
        [
            iri("http://example.org/s"),
            iri("http://example.org/p"),
            SimpleTerm::LiteralLanguage("chat".into(), tag.clone().map_unchecked(Into::into)),
        ],
        // an unrelated triple, lost as well when the document is rejected
        [
            iri("http://example.org/s"),
            iri("http://example.org/q"),
            iri("http://example.org/o"),
        ],
    ];
    for indentation in [0, 4] {
        let config = RdfXmlConfig::new().with_indentation(indentation);
        let mut ser = RdfXmlSerializer::new_stringifier_with_config(config);
        match ser.serialize_triples(g.triples()) {
            Err(_) => (), // fine: "either fails with an error ..."
            Ok(ser) => {
                let out = ser.to_string();
                let g2: Result<G, _> = sophia_xml::parser::parse_str(&out).collect_triples();
                match g2 {
                    Err(e) => panic!(
                        "language tag {:?}: serialization succeeded, but the parser rejects the document: {e}\n{out}",
                        tag.as_str(),
                    ),
                    Ok(g2) => assert!(isomorphic_graphs(&g, &g2).unwrap()),
                }
            }
        }
    }
}

#[test]
fn private_use_singleton_without_subtag() {
    check_error_or_roundtrip("en-x");
}

#[test]
fn extension_singleton_without_subtag() {
    check_error_or_roundtrip("en-US-u");
}

#[test]
fn primary_subtag_longer_than_eight_characters() {
    check_error_or_roundtrip("abcdefghi");
}

#[test]
fn primary_subtag_with_digit() {
    check_error_or_roundtrip("a1");
}

#[test]
fn sanity_wellformed_tags_roundtrip() {
    // (passes) well-formed BCP47 tags, whatever their case, round-trip
    check_error_or_roundtrip("en");
    check_error_or_roundtrip("en-US");
    check_error_or_roundtrip("zh-Hant-TW");
    check_error_or_roundtrip("de-CH-1996");
    check_error_or_roundtrip("en-x-private");
    check_error_or_roundtrip("i-klingon");
}
