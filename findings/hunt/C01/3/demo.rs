//! Property C01 - "after any sequence of insertions and removals, every in-memory graph or dataset
//! holds exactly the triples/quads a plain mathematical set would hold [...]
//! including histories that exhaust a 16-bit term index".
//!
//! Drop this file in `inmem/tests/hunt_C01_3.rs` and run
//! `cargo test -p sophia_inmem --test hunt_C01_3 --offline`.
//!
//! The graphs/datasets never give a term index back: `remove` (and `remove_all`, `remove_matching`,
//! `retain_matching`) delete the index tuples, but the terms stay in `SimpleTermIndex` for ever.
//! The capacity of the `small::*` types ("can only contain a small number (2^16) of distinct terms")
//! is therefore not a bound on what the collection *contains*, but on every term it has *ever seen*:
//!  * a dataset that has been emptied refuses every new term with `TermIndexFullError`;
//!  * a graph that never holds more than ONE triple stops accepting insertions after ~21845 insert/remove cycles.
//! (With the default 32-bit index the same thing is an unbounded memory leak under churn.)
use sophia_api::dataset::{Dataset, MutableDataset};
use sophia_api::graph::{Graph, MutableGraph};
use sophia_api::term::matcher::Any;
use sophia_api::term::{IriRef, SimpleTerm};

type ST = SimpleTerm<'static>;

fn t(i: usize) -> ST {
    SimpleTerm::Iri(IriRef::new_unchecked(format!("x:{i}").into()))
}

const DEFAULT: Option<ST> = None;

macro_rules! emptied_dataset {
    ($name:ident, $ty:ty) => {
        /// Expected: an empty set accepts any new element.
        #[test]
        fn $name() {
            let mut d = <$ty>::new();
            // 21845 quads * 3 fresh terms = 65535 distinct terms: the 16-bit index is exactly full
            for i in 0..21845 {
                assert!(d.insert(t(3 * i), t(3 * i + 1), t(3 * i + 2), DEFAULT).unwrap());
            }
            // (being full is fine: this is the documented limit)
            assert!(d.insert(t(100_000), t(0), t(1), DEFAULT).is_err());
            assert_eq!(d.quads().count(), 21845);

            // now remove everything
            assert_eq!(d.remove_matching(Any, Any, Any, Any).unwrap(), 21845);
            assert_eq!(d.quads().count(), 0);
            assert_eq!(d.subjects().count(), 0);

            // the dataset contains 0 quads and 0 terms; a set would now be {q}
            let r = d.insert(t(100_000), t(100_001), t(100_002), DEFAULT);
            assert!(
                matches!(r, Ok(true)),
                "insertion into an EMPTY dataset failed: {r:?}"
            );
            assert_eq!(d.quads().count(), 1);
        }
    };
}
emptied_dataset!(emptied_small_fast_dataset, sophia_inmem::dataset::small::FastDataset);
emptied_dataset!(emptied_small_light_dataset, sophia_inmem::dataset::small::LightDataset);

macro_rules! churning_graph {
    ($name:ident, $ty:ty) => {
        /// Expected: a set that holds at most one triple (three terms) at any time
        /// never runs out of room for 65535 terms.
        #[test]
        fn $name() {
            let mut g = <$ty>::new();
            for i in 0..30_000 {
                let r = g.insert(t(3 * i), t(3 * i + 1), t(3 * i + 2));
                assert!(
                    matches!(r, Ok(true)),
                    "cycle {i}: the graph holds {} triple(s) but insert answered {r:?}",
                    g.triples().count()
                );
                assert_eq!(g.triples().count(), 1);
                assert!(g.remove(t(3 * i), t(3 * i + 1), t(3 * i + 2)).unwrap());
                assert_eq!(g.triples().count(), 0);
            }
        }
    };
}
churning_graph!(churning_small_fast_graph, sophia_inmem::graph::small::FastGraph);
churning_graph!(churning_small_light_graph, sophia_inmem::graph::small::LightGraph);
