//! Property C01 - the vector-backed datasets/graphs must behave as "the corresponding list"
//! and all shipped implementations must agree with one another.
//!
//! Drop this file in `api/tests/hunt_C01_1.rs` and run
//! `cargo test -p sophia_api --test hunt_C01_1 --offline`.
//!
//! `Vec<Spog<T>>`, `Vec<Gspo<T>>` and `Vec<[T;3]>` are the three vector-backed
//! mutable collections shipped by sophia_api. The same history gives different
//! contents and different flags depending on whether the quads are stored as
//! `([s,p,o],g)` or as `(g,[s,p,o])`:
//!  * `Vec<Spog<T>>::remove` / `Vec<[T;3]>::remove` delete *every* occurrence and always answer `true`
//!    (even if nothing was there),
//!  * `Vec<Gspo<T>>::remove` deletes only the *first* occurrence and answers `false` when nothing was there,
//!    so after `remove(q)` the dataset may still `contains(q)`.
use sophia_api::dataset::{Dataset, MutableDataset};
use sophia_api::graph::{Graph, MutableGraph};
use sophia_api::quad::{Gspo, Spog};
use sophia_api::source::IntoSource;
use sophia_api::term::{IriRef, SimpleTerm};

type ST = SimpleTerm<'static>;

fn i(s: &'static str) -> ST {
    SimpleTerm::Iri(IriRef::new_unchecked(s.into()))
}

const NO_GRAPH: Option<ST> = None;

/// Expected: once `remove(s,p,o,g)` has returned, the quad is not in the dataset any more
/// (this is what a set does, what a list with "remove all occurrences" does,
/// and what `Vec<Spog<T>>` and `Vec<[T;3]>` do).
#[test]
fn vec_gspo_remove_makes_the_quad_absent() {
    let mut d: Vec<Gspo<ST>> = vec![];
    MutableDataset::insert(&mut d, i("x:s"), i("x:p"), i("x:o"), NO_GRAPH).unwrap();
    MutableDataset::insert(&mut d, i("x:s"), i("x:p"), i("x:o"), NO_GRAPH).unwrap();
    assert_eq!(d.quads().count(), 2); // a list: both copies are kept
    MutableDataset::remove(&mut d, i("x:s"), i("x:p"), i("x:o"), NO_GRAPH).unwrap();
    assert!(
        !d.contains(i("x:s"), i("x:p"), i("x:o"), NO_GRAPH).unwrap(),
        "the quad was removed, but the dataset still contains it"
    );
}

/// Expected: the two vector-backed datasets hold the same quads after the same history.
#[test]
fn vec_spog_and_vec_gspo_hold_the_same_quads() {
    let mut a: Vec<Spog<ST>> = vec![];
    let mut b: Vec<Gspo<ST>> = vec![];
    for _ in 0..2 {
        MutableDataset::insert(&mut a, i("x:s"), i("x:p"), i("x:o"), Some(i("x:g"))).unwrap();
        MutableDataset::insert(&mut b, i("x:s"), i("x:p"), i("x:o"), Some(i("x:g"))).unwrap();
    }
    MutableDataset::insert(&mut a, i("x:s"), i("x:p"), i("x:o2"), Some(i("x:g"))).unwrap();
    MutableDataset::insert(&mut b, i("x:s"), i("x:p"), i("x:o2"), Some(i("x:g"))).unwrap();

    MutableDataset::remove(&mut a, i("x:s"), i("x:p"), i("x:o"), Some(i("x:g"))).unwrap();
    MutableDataset::remove(&mut b, i("x:s"), i("x:p"), i("x:o"), Some(i("x:g"))).unwrap();
    assert_eq!(
        a.quads().count(),
        b.quads().count(),
        "Vec<Spog> and Vec<Gspo> disagree after insert,insert,insert,remove"
    );
}

/// Expected: the flag returned by `remove` and the count returned by `remove_all`
/// mean the same thing in all three vector-backed implementations
/// (according to C01: whether / how often the collection really changed).
#[test]
fn vec_remove_flags_agree() {
    let mut a: Vec<Spog<ST>> = vec![];
    let mut b: Vec<Gspo<ST>> = vec![];
    let mut c: Vec<[ST; 3]> = vec![];
    MutableDataset::insert(&mut a, i("x:s"), i("x:p"), i("x:o"), NO_GRAPH).unwrap();
    MutableDataset::insert(&mut b, i("x:s"), i("x:p"), i("x:o"), NO_GRAPH).unwrap();
    MutableGraph::insert(&mut c, i("x:s"), i("x:p"), i("x:o")).unwrap();

    // removing something that was never inserted
    let ra = MutableDataset::remove(&mut a, i("x:s"), i("x:p"), i("x:ABSENT"), NO_GRAPH).unwrap();
    let rb = MutableDataset::remove(&mut b, i("x:s"), i("x:p"), i("x:ABSENT"), NO_GRAPH).unwrap();
    let rc = MutableGraph::remove(&mut c, i("x:s"), i("x:p"), i("x:ABSENT")).unwrap();
    assert_eq!(a.quads().count(), 1);
    assert_eq!(b.quads().count(), 1);
    assert_eq!(c.triples().count(), 1);
    assert_eq!(
        (ra, rb, rc),
        (false, false, false),
        "nothing was removed, every implementation must say so (Spog, Gspo, triples)"
    );

    // ... and the count of remove_all
    let absent = vec![([i("x:s"), i("x:p"), i("x:ABSENT")], NO_GRAPH)];
    let na = a.remove_all(absent.clone().into_iter().into_source()).unwrap();
    let nb = b.remove_all(absent.clone().into_iter().into_source()).unwrap();
    assert_eq!((na, nb), (0, 0), "remove_all removed nothing (Spog, Gspo)");
}
