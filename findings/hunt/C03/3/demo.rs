//! C03 hunt #3 -- RDF-star triples nested more than 128 levels deep.
//!
//! Drop into `turtle/tests/hunt_C03_3.rs`, run with
//! `cargo test -p sophia_turtle --test hunt_C03_3 --offline`.
//!
//! C03 quantifies over *all finite* datasets of well-formed RDF-star quads.
//! `NtSerializer`/`NqSerializer` happily write a quoted triple of any depth, but the text
//! they produce is refused by `nt::parse_str`, `nq::parse_str` and `gnq::parse_str`
//! as soon as the nesting depth exceeds 128 (hard-wired `MAX_STACK_SIZE` in rio_turtle).

use sophia_api::prelude::*;
use sophia_api::quad::Spog;
use sophia_api::source::{QuadSource, TripleSource};
use sophia_api::term::SimpleTerm;
use sophia_iri::IriRef;
use sophia_turtle::parser::{gnq, nq, nt};
use sophia_turtle::serializer::nq::NqSerializer;
use sophia_turtle::serializer::nt::NtSerializer;

/// A triple whose subject is a quoted triple, whose subject is a quoted triple, ... `depth` times.
fn nested(depth: usize) -> [SimpleTerm<'static>; 3] {
    let x = SimpleTerm::Iri(IriRef::new_unchecked("http://example.org/x".into()));
    let mut t = [x.clone(), x.clone(), x.clone()];
    for _ in 0..depth {
        t = [SimpleTerm::Triple(Box::new(t)), x.clone(), x.clone()];
    }
    t
}

/// Expected: serialise -> parse gives back the same graph, for any nesting depth.
#[test]
fn nt_round_trips_deeply_nested_triples() {
    for depth in [1, 64, 128, 129, 500] {
        let g = vec![nested(depth)];
        let txt = NtSerializer::new_stringifier()
            .serialize_graph(&g)
            .unwrap()
            .to_string();
        assert_eq!(txt.lines().count(), 1);
        let g2: Vec<[SimpleTerm<'static>; 3]> = nt::parse_str(&txt)
            .collect_triples()
            .unwrap_or_else(|e| panic!("depth {depth}: N-Triples output cannot be read back: {e}"));
        assert_eq!(g, g2, "depth {depth}");
    }
}

/// Expected: same thing through N-Quads and the generalised N-Quads reader.
#[test]
fn nq_round_trips_deeply_nested_triples() {
    for depth in [1, 64, 128, 129, 500] {
        let d: Vec<Spog<SimpleTerm<'static>>> = vec![(nested(depth), None)];
        let txt = NqSerializer::new_stringifier()
            .serialize_dataset(&d)
            .unwrap()
            .to_string();
        let d2: Vec<Spog<SimpleTerm<'static>>> = nq::parse_str(&txt)
            .collect_quads()
            .unwrap_or_else(|e| panic!("depth {depth}: N-Quads output cannot be read back (nq): {e}"));
        assert_eq!(d, d2, "depth {depth}");
        let d3: Vec<Spog<SimpleTerm<'static>>> = gnq::parse_str(&txt)
            .collect_quads()
            .unwrap_or_else(|e| panic!("depth {depth}: N-Quads output cannot be read back (gnq): {e}"));
        assert_eq!(d, d3, "depth {depth}");
    }
}
