//! C03 hunt #1 -- blank node labels containing two (or more) consecutive dots.
//!
//! Drop into `turtle/tests/hunt_C03_1.rs`, run with
//! `cargo test -p sophia_turtle --test hunt_C03_1 --offline`.
//!
//! W3C grammar (N-Triples / N-Quads / Turtle):
//!   BLANK_NODE_LABEL ::= '_:' (PN_CHARS_U | [0-9]) ((PN_CHARS | '.')* PN_CHARS)?
//! so `_:a..b`, `_:a...1` and `_:1..2` are legal labels (dots may repeat, only the
//! last character must not be a dot).  C03 requires every legal label to survive
//! serialise -> parse unchanged.

use sophia_api::prelude::*;
use sophia_api::source::{QuadSource, TripleSource};
use sophia_api::term::{BnodeId, SimpleTerm};
use sophia_iri::IriRef;
use sophia_turtle::parser::{gnq, nq, nt};
use sophia_turtle::serializer::nt::NtSerializer;

const LABELS: [&str; 4] = ["a..b", "a...1", "1..2", "x.y..z"];

/// Expected: Sophia's own label validation accepts every label of the W3C grammar,
/// otherwise such graphs cannot even be built through the checked API.
#[test]
fn bnode_id_accepts_consecutive_dots() {
    for label in LABELS {
        assert!(
            BnodeId::new(label).is_ok(),
            "BnodeId::new({label:?}) rejected a label that is legal per BLANK_NODE_LABEL"
        );
    }
    // sanity: the genuinely illegal neighbours must stay illegal
    assert!(BnodeId::new("a.").is_err());
    assert!(BnodeId::new(".a").is_err());
    assert!(BnodeId::new("a..").is_err());
}

/// Expected: a (grammar-legal) document using such labels is read back with the very same labels
/// by the three N-Triples/N-Quads readers.
#[test]
fn readers_accept_consecutive_dots() {
    for label in LABELS {
        let doc = format!("_:{label} <http://example.org/p> _:{label}.\n");

        let g: Vec<[SimpleTerm<'static>; 3]> = nt::parse_str(&doc)
            .collect_triples()
            .unwrap_or_else(|e| panic!("nt parser rejects {doc:?}: {e}"));
        assert_eq!(g.len(), 1);
        assert_eq!(g[0][0].bnode_id().unwrap().as_str(), label);
        assert_eq!(g[0][2].bnode_id().unwrap().as_str(), label);

        let doc = format!("_:{label} <http://example.org/p> _:{label} _:{label}.\n");
        let d: Vec<([SimpleTerm<'static>; 3], Option<SimpleTerm<'static>>)> = nq::parse_str(&doc)
            .collect_quads()
            .unwrap_or_else(|e| panic!("nq parser rejects {doc:?}: {e}"));
        assert_eq!(d[0].1.as_ref().unwrap().bnode_id().unwrap().as_str(), label);
        let d: Vec<([SimpleTerm<'static>; 3], Option<SimpleTerm<'static>>)> = gnq::parse_str(&doc)
            .collect_quads()
            .unwrap_or_else(|e| panic!("gnq parser rejects {doc:?}: {e}"));
        assert_eq!(d[0].1.as_ref().unwrap().bnode_id().unwrap().as_str(), label);
    }
}

/// Expected: full round trip serialise -> parse of a graph whose blank node is labelled `a..b`.
#[test]
fn round_trip_consecutive_dots() {
    // built with `new_unchecked` because `BnodeId::new` (wrongly) refuses the label
    let b = SimpleTerm::BlankNode(BnodeId::new_unchecked("a..b".into()));
    let p = SimpleTerm::Iri(IriRef::new_unchecked("http://example.org/p".into()));
    let g: Vec<[SimpleTerm<'static>; 3]> = vec![[b.clone(), p, b]];
    let txt = NtSerializer::new_stringifier()
        .serialize_graph(&g)
        .unwrap()
        .to_string();
    assert_eq!(txt, "_:a..b <http://example.org/p> _:a..b.\n");
    let g2: Vec<[SimpleTerm<'static>; 3]> = nt::parse_str(&txt)
        .collect_triples()
        .unwrap_or_else(|e| panic!("cannot read back {txt:?}: {e}"));
    assert_eq!(g, g2);
}
