//! C03 hunt #4 -- language tags are case-folded by the N-Triples / N-Quads readers.
//!
//! Drop into `turtle/tests/hunt_C03_4.rs`, run with
//! `cargo test -p sophia_turtle --test hunt_C03_4 --offline`.
//!
//! C03: "parsing the result back yields exactly the same triples/quads: [...] same datatypes,
//! language tags and graph names".  The serializers write the tag verbatim (`"chat"@fr-BE`),
//! but the readers (rio_turtle::parse_langtag) lower-case every tag, so the term that comes back
//! carries the tag `fr-be`.  Sophia's `LanguageTag` equality is ASCII-case-insensitive, which hides
//! the change from `==`; it is nevertheless observable through `language_tag().as_str()`,
//! `Debug`, and any re-serialisation (the second-generation text differs from the first).

use sophia_api::prelude::*;
use sophia_api::quad::Spog;
use sophia_api::source::{QuadSource, TripleSource};
use sophia_api::term::{LanguageTag, SimpleTerm};
use sophia_iri::IriRef;
use sophia_turtle::parser::{gnq, nq, nt};
use sophia_turtle::serializer::nq::NqSerializer;
use sophia_turtle::serializer::nt::NtSerializer;

const TAGS: [&str; 5] = ["fr-BE", "zh-Hant-TW", "en-GB-oed", "de-CH-1901", "EN"];

fn triple(tag: &str) -> [SimpleTerm<'static>; 3] {
    let s = SimpleTerm::Iri(IriRef::new_unchecked("http://example.org/s".into()));
    let p = SimpleTerm::Iri(IriRef::new_unchecked("http://example.org/p".into()));
    let o = SimpleTerm::LiteralLanguage(
        "chat".into(),
        LanguageTag::new(tag.to_string().into()).unwrap(),
    );
    [s, p, o]
}

/// Expected: the language tag read back is the one that was written, character for character.
#[test]
fn nt_keeps_language_tag() {
    for tag in TAGS {
        let g = vec![triple(tag)];
        let txt = NtSerializer::new_stringifier()
            .serialize_graph(&g)
            .unwrap()
            .to_string();
        assert!(txt.contains(&format!("\"chat\"@{tag}.")), "{txt}");
        let g2: Vec<[SimpleTerm<'static>; 3]> = nt::parse_str(&txt).collect_triples().unwrap();
        assert_eq!(
            g2[0][2].language_tag().unwrap().as_str(),
            tag,
            "language tag altered by the N-Triples round trip"
        );
        // and therefore serialising again must give the same text
        let txt2 = NtSerializer::new_stringifier()
            .serialize_graph(&g2)
            .unwrap()
            .to_string();
        assert_eq!(txt, txt2);
    }
}

/// Expected: same thing for the two N-Quads readers.
#[test]
fn nq_keeps_language_tag() {
    for tag in TAGS {
        let d: Vec<Spog<SimpleTerm<'static>>> = vec![(triple(tag), None)];
        let txt = NqSerializer::new_stringifier()
            .serialize_dataset(&d)
            .unwrap()
            .to_string();
        let d2: Vec<Spog<SimpleTerm<'static>>> = nq::parse_str(&txt).collect_quads().unwrap();
        assert_eq!(d2[0].0[2].language_tag().unwrap().as_str(), tag, "nq reader");
        let d3: Vec<Spog<SimpleTerm<'static>>> = gnq::parse_str(&txt).collect_quads().unwrap();
        assert_eq!(d3[0].0[2].language_tag().unwrap().as_str(), tag, "gnq reader");
    }
}
