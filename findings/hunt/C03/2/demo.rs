//! C03 hunt #2 -- the `ascii` option of the N-Triples / N-Quads serializers.
//!
//! Drop into `turtle/tests/hunt_C03_2.rs`, run with
//! `cargo test -p sophia_turtle --test hunt_C03_2 --offline`.
//!
//! `NtConfig::set_ascii` is a public, documented configuration switch of
//! `NtSerializer` / `NqSerializer`.  C03 says that serialising *any* graph/dataset
//! yields text that parses back to the same statements.  With the switch on, the
//! serializers do not produce any text at all: they panic (`todo!()`), even for an
//! empty graph and even for pure-ASCII data.

use sophia_api::prelude::*;
use sophia_api::quad::Spog;
use sophia_api::source::{QuadSource, TripleSource};
use sophia_api::term::SimpleTerm;
use sophia_iri::IriRef;
use sophia_turtle::parser::{nq, nt};
use sophia_turtle::serializer::nq::{NqConfig, NqSerializer};
use sophia_turtle::serializer::nt::{NtConfig, NtSerializer};

fn graph() -> Vec<[SimpleTerm<'static>; 3]> {
    let s = SimpleTerm::Iri(IriRef::new_unchecked("http://example.org/s".into()));
    let p = SimpleTerm::Iri(IriRef::new_unchecked("http://example.org/p".into()));
    let o = SimpleTerm::LiteralDatatype(
        "caf\u{e9} \u{1F600}".into(),
        IriRef::new_unchecked("http://www.w3.org/2001/XMLSchema#string".into()),
    );
    vec![[s, p, o]]
}

/// Expected: pure-ASCII N-Triples text (non-ASCII characters written as \uXXXX / \UXXXXXXXX)
/// that parses back to the same graph.
#[test]
fn nt_ascii_round_trips() {
    let g = graph();
    let mut config = NtConfig::default();
    config.set_ascii(true);
    let mut ser = NtSerializer::new_stringifier_with_config(config);
    let txt = ser.serialize_graph(&g).unwrap().to_string(); // <- panics: "not yet implemented"
    assert!(txt.is_ascii(), "{txt:?}");
    assert_eq!(txt.lines().count(), 1);
    let g2: Vec<[SimpleTerm<'static>; 3]> = nt::parse_str(&txt).collect_triples().unwrap();
    assert_eq!(g, g2);
}

/// Expected: same thing for N-Quads.
#[test]
fn nq_ascii_round_trips() {
    let d: Vec<Spog<SimpleTerm<'static>>> = graph().into_iter().map(|t| (t, None)).collect();
    let mut config = NqConfig::default();
    config.set_ascii(true);
    let mut ser = NqSerializer::new_stringifier_with_config(config);
    let txt = ser.serialize_dataset(&d).unwrap().to_string(); // <- panics: "not yet implemented"
    assert!(txt.is_ascii(), "{txt:?}");
    let d2: Vec<Spog<SimpleTerm<'static>>> = nq::parse_str(&txt).collect_quads().unwrap();
    assert_eq!(d, d2);
}

/// Expected: at the very least an empty graph serialises to the empty document, whatever the options.
#[test]
fn nt_ascii_empty_graph() {
    let g: Vec<[SimpleTerm<'static>; 3]> = vec![];
    let mut config = NtConfig::default();
    config.set_ascii(true);
    let mut ser = NtSerializer::new_stringifier_with_config(config);
    let txt = ser.serialize_graph(&g).unwrap().to_string(); // <- panics
    assert_eq!(txt, "");
}
