//! Property C13 - BIND / FILTER evaluate the built-in functions as specified
//! ("nothing missing": an IRI built by IRI() must be comparable with the IRIs of the data).
//!
//! Drop this file in `sparql/tests/hunt_C13_14.rs` and run
//! `cargo test -p sophia_sparql --test hunt_C13_14 --offline`.
//!
//! SPARQL 17.4.2.8: "The IRI function constructs an IRI by resolving the string argument [...].
//! The IRI is resolved against the base IRI of the query and must result in an absolute IRI."
//! `SparqlWrapper::query` (sparql/src/wrapper.rs) ignores the `base_iri` of the parsed query, and the
//! `Iri` arm of `call_function` (sparql/src/function.rs) is just `IriRef::new(st.clone())`: a relative
//! reference is returned as it is. The result is a *relative* IRI - not a legal RDF term - that is
//! equal to nothing in the dataset, whereas the same relative reference written `<o>` in the query is
//! resolved (by spargebra, at parse time).
use sophia_api::prelude::*;
use sophia_api::sparql::{Query, SparqlDataset, SparqlResult};
use sophia_inmem::dataset::LightDataset;
use sophia_sparql::{SparqlQuery, SparqlWrapper};

const PROLOGUE: &str = "PREFIX : <tag:> PREFIX xsd: <http://www.w3.org/2001/XMLSchema#> ";

#[allow(dead_code)]
fn dataset(trig: &str) -> LightDataset {
    sophia_turtle::parser::trig::parse_str(&format!("{PROLOGUE}{trig}"))
        .collect_quads()
        .expect("test data must parse")
}

/// Run a SELECT query; every row is rendered as "var=term var=term ..." (UNDEF for unbound),
/// and the rows are sorted, so that the result can be compared as a multiset.
#[allow(dead_code)]
fn select<D: Dataset>(d: &D, query: &str) -> Result<Vec<String>, String> {
    let query = SparqlQuery::parse(&format!("{PROLOGUE}{query}")).map_err(|e| e.to_string())?;
    let res = SparqlWrapper(d).query(&query).map_err(|e| e.to_string())?;
    let SparqlResult::Bindings(bindings) = res else {
        return Err("not a SELECT query".into());
    };
    let vars: Vec<String> = bindings.variables().iter().map(|v| (*v).to_string()).collect();
    let mut rows = vec![];
    for row in bindings {
        let row = row.map_err(|e| e.to_string())?;
        let cells: Vec<String> = vars
            .iter()
            .zip(row.iter())
            .map(|(v, t)| match t {
                Some(t) => format!("{v}={t}"),
                None => format!("{v}=UNDEF"),
            })
            .collect();
        rows.push(cells.join(" "));
    }
    rows.sort();
    Ok(rows)
}

/// Run an ASK query.
#[allow(dead_code)]
fn ask<D: Dataset>(d: &D, query: &str) -> Result<bool, String> {
    let query = SparqlQuery::parse(&format!("{PROLOGUE}{query}")).map_err(|e| e.to_string())?;
    match SparqlWrapper(d).query(&query).map_err(|e| e.to_string())? {
        SparqlResult::Boolean(b) => Ok(b),
        _ => Err("not an ASK query".into()),
    }
}

/// Expected: IRI("o") is <http://example.org/dir/o>, like <o>.
/// Observed: ?x = <o> (a relative IRI), ?y = <http://example.org/dir/o>.
#[test]
fn iri_function_resolves_against_base() {
    let d = dataset("");
    assert_eq!(
        select(
            &d,
            r#"BASE <http://example.org/dir/> SELECT (IRI("o") AS ?x) (IRI(<o>) AS ?y) {}"#
        ),
        Ok(vec![
            "x=<http://example.org/dir/o> y=<http://example.org/dir/o>".to_string()
        ])
    );
}

/// Expected: the IRI built from the string is the one of the data: true (and 1 solution).
/// Observed: false / no solution.
#[test]
fn iri_function_in_filter() {
    let d = dataset("<http://example.org/dir/s> <http://example.org/dir/p> <http://example.org/dir/o> .");
    assert_eq!(
        ask(
            &d,
            r#"BASE <http://example.org/dir/> ASK { <s> <p> ?o FILTER(?o = IRI("o")) }"#
        ),
        Ok(true)
    );
    assert_eq!(
        select(
            &d,
            r#"BASE <http://example.org/dir/> SELECT ?s { ?s <p> ?o FILTER(sameTerm(?o, URI("../dir/o"))) }"#
        ),
        Ok(vec!["s=<http://example.org/dir/s>".to_string()])
    );
}

/// Expected: without base, a relative reference can not be resolved: IRI("o") "must result in an
/// absolute IRI", so it is an error and ?x is unbound. Observed: ?x = <o>.
#[test]
fn iri_function_without_base_never_returns_a_relative_iri() {
    let d = dataset("");
    assert_eq!(
        select(&d, r#"SELECT (IRI("o") AS ?x) {}"#),
        Ok(vec!["x=UNDEF".to_string()])
    );
}
