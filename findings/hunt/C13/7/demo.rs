//! Property C13 - "literals of all value classes", "filters that raise type errors".
//!
//! Drop this file in `sparql/tests/hunt_C13_7.rs` and run
//! `cargo test -p sophia_sparql --test hunt_C13_7 --offline`.
//!
//! `SparqlValue::try_from_literal` (sparql/src/value.rs) decides whether a typed literal is
//! well-formed, and what its value is, with the `FromStr` implementations of Rust / bigdecimal /
//! num-bigint. Their grammars are not the XSD lexical spaces:
//!  * `bool::from_str` only knows "true" and "false"; the legal xsd:boolean forms "1" and "0"
//!    are treated as ill-formed (=> EBV false, and not equal to true/false): missing solutions;
//!  * `BigDecimal::from_str` accepts exponents and `_` separators ("1e2", "1_000"),
//!    `BigInt::from_str` accepts `_` ("1_000"), `f64::from_str` accepts "inf", "infinity", "nan" in any case:
//!    ill-formed literals are given a numeric value instead of raising a type error: spurious solutions.
use sophia_api::prelude::*;
use sophia_api::sparql::{Query, SparqlDataset, SparqlResult};
use sophia_inmem::dataset::LightDataset;
use sophia_sparql::{SparqlQuery, SparqlWrapper};

const PROLOGUE: &str = "PREFIX : <tag:> PREFIX xsd: <http://www.w3.org/2001/XMLSchema#> ";

#[allow(dead_code)]
fn dataset(trig: &str) -> LightDataset {
    sophia_turtle::parser::trig::parse_str(&format!("{PROLOGUE}{trig}"))
        .collect_quads()
        .expect("test data must parse")
}

/// Run a SELECT query; every row is rendered as "var=term var=term ..." (UNDEF for unbound),
/// and the rows are sorted, so that the result can be compared as a multiset.
#[allow(dead_code)]
fn select<D: Dataset>(d: &D, query: &str) -> Result<Vec<String>, String> {
    let query = SparqlQuery::parse(&format!("{PROLOGUE}{query}")).map_err(|e| e.to_string())?;
    let res = SparqlWrapper(d).query(&query).map_err(|e| e.to_string())?;
    let SparqlResult::Bindings(bindings) = res else {
        return Err("not a SELECT query".into());
    };
    let vars: Vec<String> = bindings.variables().iter().map(|v| (*v).to_string()).collect();
    let mut rows = vec![];
    for row in bindings {
        let row = row.map_err(|e| e.to_string())?;
        let cells: Vec<String> = vars
            .iter()
            .zip(row.iter())
            .map(|(v, t)| match t {
                Some(t) => format!("{v}={t}"),
                None => format!("{v}=UNDEF"),
            })
            .collect();
        rows.push(cells.join(" "));
    }
    rows.sort();
    Ok(rows)
}

/// Run an ASK query.
#[allow(dead_code)]
fn ask<D: Dataset>(d: &D, query: &str) -> Result<bool, String> {
    let query = SparqlQuery::parse(&format!("{PROLOGUE}{query}")).map_err(|e| e.to_string())?;
    match SparqlWrapper(d).query(&query).map_err(|e| e.to_string())? {
        SparqlResult::Boolean(b) => Ok(b),
        _ => Err("not an ASK query".into()),
    }
}

/// Expected: "1"^^xsd:boolean is the value true (XSD 3.2.2.1: lexical space {true, false, 1, 0}),
/// so its EBV is true. Observed: false.
#[test]
fn boolean_one_is_true() {
    let d = dataset("");
    assert_eq!(ask(&d, r#"ASK { FILTER("1"^^xsd:boolean) }"#), Ok(true));
    assert_eq!(ask(&d, r#"ASK { FILTER(!"0"^^xsd:boolean) }"#), Ok(true));
}

/// Expected: "1"^^xsd:boolean = true and "0"^^xsd:boolean = false (same values).
/// Observed: false.
#[test]
fn boolean_one_equals_true() {
    let d = dataset("");
    assert_eq!(
        ask(&d, r#"ASK { FILTER("1"^^xsd:boolean = true) }"#),
        Ok(true)
    );
    assert_eq!(
        ask(&d, r#"ASK { FILTER("0"^^xsd:boolean = false) }"#),
        Ok(true)
    );
}

/// Expected: filtering data on a boolean flag keeps the subjects whose flag is true,
/// however true is written. Observed: :b is missing.
#[test]
fn boolean_flag_in_data() {
    let d = dataset(
        r#":a :flag true . :b :flag "1"^^xsd:boolean . :c :flag false . :d :flag "0"^^xsd:boolean ."#,
    );
    assert_eq!(
        select(&d, "SELECT ?s { ?s :flag ?f FILTER(?f) }"),
        Ok(vec!["s=<tag:a>".to_string(), "s=<tag:b>".to_string()])
    );
}

/// Expected: "1_000" is not in the lexical space of xsd:integer / xsd:decimal: the literal is
/// ill-formed, isNumeric is false and comparing it with a number is a type error (row dropped).
/// Observed: it is the number 1000.
#[test]
fn underscores_are_not_digits() {
    let d = dataset("");
    assert_eq!(
        ask(&d, r#"ASK { FILTER(isNumeric("1_000"^^xsd:integer)) }"#),
        Ok(false)
    );
    assert_eq!(
        ask(&d, r#"ASK { FILTER("1_000"^^xsd:integer = 1000) }"#),
        Ok(false)
    );
    assert_eq!(
        ask(&d, r#"ASK { FILTER("1_000"^^xsd:decimal = 1000) }"#),
        Ok(false)
    );
}

/// Expected: xsd:decimal has no exponent notation: "1e2"^^xsd:decimal is ill-formed.
/// Observed: it is the number 100.
#[test]
fn decimal_has_no_exponent() {
    let d = dataset("");
    assert_eq!(
        ask(&d, r#"ASK { FILTER(isNumeric("1e2"^^xsd:decimal)) }"#),
        Ok(false)
    );
    assert_eq!(
        ask(&d, r#"ASK { FILTER("1e2"^^xsd:decimal = 100) }"#),
        Ok(false)
    );
}

/// Expected: the special values of xsd:double are written INF, -INF and NaN, nothing else.
/// Observed: "infinity", "inf" and "nan" are accepted.
#[test]
fn double_special_values() {
    let d = dataset("");
    assert_eq!(
        ask(&d, r#"ASK { FILTER(isNumeric("INF"^^xsd:double)) }"#),
        Ok(true)
    );
    assert_eq!(
        ask(&d, r#"ASK { FILTER(isNumeric("infinity"^^xsd:double)) }"#),
        Ok(false)
    );
    assert_eq!(
        ask(&d, r#"ASK { FILTER("inf"^^xsd:float > 0) }"#),
        Ok(false)
    );
    assert_eq!(
        ask(&d, r#"ASK { FILTER(isNumeric("nan"^^xsd:double)) }"#),
        Ok(false)
    );
}
