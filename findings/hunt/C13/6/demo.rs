//! Property C13 - "the ASK answer equals the one defined by the SPARQL 1.1 algebra ... nothing spurious"
//! (error paths).
//!
//! Drop this file in `sparql/tests/hunt_C13_6.rs` and run
//! `cargo test -p sophia_sparql --test hunt_C13_6 --offline`.
//!
//! `ExecState::ask` (sparql/src/exec.rs) is
//!     self.select(..).map(|bindings| bindings.into_iter().next().is_some())
//! The items of that iterator are `Result<row, SparqlWrapperError>`: when the underlying dataset fails
//! while the pattern is matched, the first item is `Some(Err(..))`, `is_some()` is true, and the
//! query answers `Ok(true)`: "yes, there is a solution", while nothing at all could be read.
//! The same query as a SELECT reports the error (as its first row).
use sophia_api::prelude::*;
use sophia_api::sparql::{Query, SparqlDataset, SparqlResult};
use sophia_inmem::dataset::LightDataset;
use sophia_sparql::{SparqlQuery, SparqlWrapper};

const PROLOGUE: &str = "PREFIX : <tag:> PREFIX xsd: <http://www.w3.org/2001/XMLSchema#> ";

#[allow(dead_code)]
fn dataset(trig: &str) -> LightDataset {
    sophia_turtle::parser::trig::parse_str(&format!("{PROLOGUE}{trig}"))
        .collect_quads()
        .expect("test data must parse")
}

/// Run a SELECT query; every row is rendered as "var=term var=term ..." (UNDEF for unbound),
/// and the rows are sorted, so that the result can be compared as a multiset.
#[allow(dead_code)]
fn select<D: Dataset>(d: &D, query: &str) -> Result<Vec<String>, String> {
    let query = SparqlQuery::parse(&format!("{PROLOGUE}{query}")).map_err(|e| e.to_string())?;
    let res = SparqlWrapper(d).query(&query).map_err(|e| e.to_string())?;
    let SparqlResult::Bindings(bindings) = res else {
        return Err("not a SELECT query".into());
    };
    let vars: Vec<String> = bindings.variables().iter().map(|v| (*v).to_string()).collect();
    let mut rows = vec![];
    for row in bindings {
        let row = row.map_err(|e| e.to_string())?;
        let cells: Vec<String> = vars
            .iter()
            .zip(row.iter())
            .map(|(v, t)| match t {
                Some(t) => format!("{v}={t}"),
                None => format!("{v}=UNDEF"),
            })
            .collect();
        rows.push(cells.join(" "));
    }
    rows.sort();
    Ok(rows)
}

/// Run an ASK query.
#[allow(dead_code)]
fn ask<D: Dataset>(d: &D, query: &str) -> Result<bool, String> {
    let query = SparqlQuery::parse(&format!("{PROLOGUE}{query}")).map_err(|e| e.to_string())?;
    match SparqlWrapper(d).query(&query).map_err(|e| e.to_string())? {
        SparqlResult::Boolean(b) => Ok(b),
        _ => Err("not an ASK query".into()),
    }
}

use sophia_api::dataset::DTerm;
use sophia_api::quad::Spog;
use sophia_api::term::SimpleTerm;

/// A dataset whose storage can not be read.
struct Unreadable;

impl Dataset for Unreadable {
    type Quad<'x> = Spog<SimpleTerm<'static>>;
    type Error = std::io::Error;

    fn quads(&self) -> impl Iterator<Item = Result<Self::Quad<'_>, Self::Error>> + '_ {
        std::iter::once(Err(std::io::Error::other("disk on fire")))
    }

    // (so that the failure occurs while matching the pattern, not in ExecState::new)
    fn graph_names(&self) -> impl Iterator<Item = Result<DTerm<'_, Self>, Self::Error>> + '_ {
        std::iter::empty()
    }
}

/// Sanity check: SELECT reports the failure of the dataset.
#[test]
fn select_reports_the_dataset_error() {
    let res = select(&Unreadable, "SELECT * { ?s ?p ?o }");
    assert!(
        matches!(&res, Err(msg) if msg.contains("disk on fire")),
        "{res:?}"
    );
}

/// Expected: ASK reports the failure as well (Err(SparqlWrapperError::Dataset(..))).
/// Observed: Ok(true).
#[test]
fn ask_reports_the_dataset_error() {
    let res = ask(&Unreadable, "ASK { ?s ?p ?o }");
    assert!(
        matches!(&res, Err(msg) if msg.contains("disk on fire")),
        "ASK answered {res:?} although the dataset could not be read"
    );
}

/// Expected: whatever the pattern, an unreadable dataset can not *prove* that a solution exists.
/// Observed: Ok(true) for a triple that can not be known to be there.
#[test]
fn ask_ground_triple_on_unreadable_dataset() {
    let res = ask(&Unreadable, "ASK { :no :such :triple }");
    assert_ne!(res, Ok(true));
}
