//! Property C13 - "FILTER keeps a row iff the expression's effective boolean value is true".
//!
//! Drop this file in `sparql/tests/hunt_C13_9.rs` and run
//! `cargo test -p sophia_sparql --test hunt_C13_9 --offline`.
//!
//! SPARQL 1.1, 17.2.2 "Effective Boolean Value":
//!  * "The EBV of any literal whose type is xsd:boolean or numeric is false if the lexical form is
//!    not valid for that datatype (e.g. "abc"^^xsd:integer)."
//!  * "If the argument is a numeric type [...], the EBV is false if the operand value is NaN or is
//!    numerically equal to zero; otherwise the EBV is true."
//! In sparql/src:
//!  * `SparqlNumber::is_truthy` tests NaN for `Double` but not for `Float`: the EBV of
//!    "NaN"^^xsd:float is true;
//!  * an ill-formed *numeric* literal has no `SparqlValue` at all (`try_from_literal` returns None),
//!    so `EvalResult::is_truthy` is an *error* instead of `false`
//!    (the ill-formed xsd:boolean case is handled: `Boolean(None)` => false).
//!    The difference is observable under `!`, `IF`, `&&`/`||`, COALESCE.
use sophia_api::prelude::*;
use sophia_api::sparql::{Query, SparqlDataset, SparqlResult};
use sophia_inmem::dataset::LightDataset;
use sophia_sparql::{SparqlQuery, SparqlWrapper};

const PROLOGUE: &str = "PREFIX : <tag:> PREFIX xsd: <http://www.w3.org/2001/XMLSchema#> ";

#[allow(dead_code)]
fn dataset(trig: &str) -> LightDataset {
    sophia_turtle::parser::trig::parse_str(&format!("{PROLOGUE}{trig}"))
        .collect_quads()
        .expect("test data must parse")
}

/// Run a SELECT query; every row is rendered as "var=term var=term ..." (UNDEF for unbound),
/// and the rows are sorted, so that the result can be compared as a multiset.
#[allow(dead_code)]
fn select<D: Dataset>(d: &D, query: &str) -> Result<Vec<String>, String> {
    let query = SparqlQuery::parse(&format!("{PROLOGUE}{query}")).map_err(|e| e.to_string())?;
    let res = SparqlWrapper(d).query(&query).map_err(|e| e.to_string())?;
    let SparqlResult::Bindings(bindings) = res else {
        return Err("not a SELECT query".into());
    };
    let vars: Vec<String> = bindings.variables().iter().map(|v| (*v).to_string()).collect();
    let mut rows = vec![];
    for row in bindings {
        let row = row.map_err(|e| e.to_string())?;
        let cells: Vec<String> = vars
            .iter()
            .zip(row.iter())
            .map(|(v, t)| match t {
                Some(t) => format!("{v}={t}"),
                None => format!("{v}=UNDEF"),
            })
            .collect();
        rows.push(cells.join(" "));
    }
    rows.sort();
    Ok(rows)
}

/// Run an ASK query.
#[allow(dead_code)]
fn ask<D: Dataset>(d: &D, query: &str) -> Result<bool, String> {
    let query = SparqlQuery::parse(&format!("{PROLOGUE}{query}")).map_err(|e| e.to_string())?;
    match SparqlWrapper(d).query(&query).map_err(|e| e.to_string())? {
        SparqlResult::Boolean(b) => Ok(b),
        _ => Err("not an ASK query".into()),
    }
}

/// Expected: EBV("NaN"^^xsd:float) = false, as for xsd:double. Observed: true.
#[test]
fn ebv_of_float_nan_is_false() {
    let d = dataset("");
    assert_eq!(ask(&d, r#"ASK { FILTER("NaN"^^xsd:double) }"#), Ok(false));
    assert_eq!(ask(&d, r#"ASK { FILTER("NaN"^^xsd:float) }"#), Ok(false));
}

/// Expected: the same for a computed NaN (0/0 in xsd:float). Observed: true.
#[test]
fn ebv_of_computed_float_nan_is_false() {
    let d = dataset("");
    assert_eq!(
        ask(&d, r#"ASK { FILTER("0"^^xsd:float / "0"^^xsd:float) }"#),
        Ok(false)
    );
}

/// Expected: rows whose value is NaN are dropped by FILTER(?v), whatever the floating-point type.
/// Observed: :b (float NaN) is kept.
#[test]
fn filter_on_data() {
    let d = dataset(
        r#":a :v "NaN"^^xsd:double . :b :v "NaN"^^xsd:float . :c :v "1"^^xsd:float . :d :v "0"^^xsd:float ."#,
    );
    assert_eq!(
        select(&d, "SELECT ?s { ?s :v ?v FILTER(?v) }"),
        Ok(vec!["s=<tag:c>".to_string()])
    );
}

/// Expected: EBV("abc"^^xsd:integer) = false, hence its negation is true (17.2.2, and the same
/// as for "abc"^^xsd:boolean, which the engine handles). Observed: error => the filter fails.
#[test]
fn ebv_of_ill_formed_numeric_is_false() {
    let d = dataset("");
    assert_eq!(
        ask(&d, r#"ASK { FILTER(!"abc"^^xsd:boolean) }"#),
        Ok(true),
        "ill-formed boolean"
    );
    assert_eq!(
        ask(&d, r#"ASK { FILTER(!"abc"^^xsd:integer) }"#),
        Ok(true),
        "ill-formed integer"
    );
    assert_eq!(
        ask(&d, r#"ASK { FILTER(!"1.2.3"^^xsd:decimal) }"#),
        Ok(true),
        "ill-formed decimal"
    );
}

/// Expected: IF takes its `else` branch when the EBV of the condition is false: ?x = "no".
/// Observed: ?x is unbound.
#[test]
fn if_on_ill_formed_numeric() {
    let d = dataset("");
    assert_eq!(
        select(
            &d,
            r#"SELECT (IF("abc"^^xsd:integer, "yes", "no") AS ?x) {}"#
        ),
        Ok(vec![
            r#"x="no"^^<http://www.w3.org/2001/XMLSchema#string>"#.to_string()
        ])
    );
}
