//! Property C13 - FILTER / BIND must evaluate expressions as the SPARQL 1.1 algebra defines them
//! ("nothing missing, nothing spurious", "literals of all value classes").
//!
//! Drop this file in `sparql/tests/hunt_C13_4.rs` and run
//! `cargo test -p sophia_sparql --test hunt_C13_4 --offline`.
//!
//! `SparqlNumber::{ceil, floor, round}` (sparql/src/value/_number.rs) are wrong on xsd:decimal
//! (and `round` on xsd:double / xsd:float):
//!  * ceil(d)  is computed as `(d + 0.5).round(0)` and floor(d) as `(d - 0.5).round(0)`, where
//!    `BigDecimal::round` rounds half to even: every decimal that is already an *odd* integer gets
//!    moved: CEIL(1.0) = 2, CEIL(3.0) = 4, FLOOR(1.0) = 0, FLOOR(3.0) = 2 (even integers survive by luck);
//!  * round(d) is `d.round(0)` (half to even) for decimals and `f64::round` (half away from zero) for
//!    doubles, while SPARQL ROUND is XPath fn:round, "round half towards positive infinity":
//!    ROUND(2.5) = 3, ROUND(0.5) = 1, ROUND(-3.5) = -3, ROUND(-2.5e0) = -2.
//! The existing unit tests only use 3.14 and 1.5.
use sophia_api::prelude::*;
use sophia_api::sparql::{Query, SparqlDataset, SparqlResult};
use sophia_inmem::dataset::LightDataset;
use sophia_sparql::{SparqlQuery, SparqlWrapper};

const PROLOGUE: &str = "PREFIX : <tag:> PREFIX xsd: <http://www.w3.org/2001/XMLSchema#> ";

#[allow(dead_code)]
fn dataset(trig: &str) -> LightDataset {
    sophia_turtle::parser::trig::parse_str(&format!("{PROLOGUE}{trig}"))
        .collect_quads()
        .expect("test data must parse")
}

/// Run a SELECT query; every row is rendered as "var=term var=term ..." (UNDEF for unbound),
/// and the rows are sorted, so that the result can be compared as a multiset.
#[allow(dead_code)]
fn select<D: Dataset>(d: &D, query: &str) -> Result<Vec<String>, String> {
    let query = SparqlQuery::parse(&format!("{PROLOGUE}{query}")).map_err(|e| e.to_string())?;
    let res = SparqlWrapper(d).query(&query).map_err(|e| e.to_string())?;
    let SparqlResult::Bindings(bindings) = res else {
        return Err("not a SELECT query".into());
    };
    let vars: Vec<String> = bindings.variables().iter().map(|v| (*v).to_string()).collect();
    let mut rows = vec![];
    for row in bindings {
        let row = row.map_err(|e| e.to_string())?;
        let cells: Vec<String> = vars
            .iter()
            .zip(row.iter())
            .map(|(v, t)| match t {
                Some(t) => format!("{v}={t}"),
                None => format!("{v}=UNDEF"),
            })
            .collect();
        rows.push(cells.join(" "));
    }
    rows.sort();
    Ok(rows)
}

/// Run an ASK query.
#[allow(dead_code)]
fn ask<D: Dataset>(d: &D, query: &str) -> Result<bool, String> {
    let query = SparqlQuery::parse(&format!("{PROLOGUE}{query}")).map_err(|e| e.to_string())?;
    match SparqlWrapper(d).query(&query).map_err(|e| e.to_string())? {
        SparqlResult::Boolean(b) => Ok(b),
        _ => Err("not an ASK query".into()),
    }
}

fn eval(expr: &str) -> Result<Vec<String>, String> {
    let d = dataset("");
    // STR(..) of the numeric result, normalised by adding 0.0 so that "1" and "1.0" print alike
    select(&d, &format!("SELECT (STR(({expr}) + 0.0) AS ?x) {{}}"))
}

fn val(lex: &str) -> Result<Vec<String>, String> {
    Ok(vec![format!(
        "x=\"{lex}\"^^<http://www.w3.org/2001/XMLSchema#string>"
    )])
}

/// Expected (XPath fn:ceiling): the smallest integer not less than the argument; CEIL(1.0) = 1.
/// Observed: 2.0
#[test]
fn ceil_of_integral_decimal() {
    assert_eq!(eval("CEIL(1.0)"), val("1.0"));
    assert_eq!(eval("CEIL(3.0)"), val("3.0"));
    assert_eq!(eval("CEIL(-1.0)"), val("-1.0"));
}

/// Expected (XPath fn:floor): the largest integer not greater than the argument; FLOOR(1.0) = 1.
/// Observed: 0.0
#[test]
fn floor_of_integral_decimal() {
    assert_eq!(eval("FLOOR(1.0)"), val("1.0"));
    assert_eq!(eval("FLOOR(3.0)"), val("3.0"));
    assert_eq!(eval("FLOOR(-1.0)"), val("-1.0"));
}

/// Expected: a filter on CEIL keeps the right rows: CEIL(?o) = ?o holds for the integral value 7.0.
/// Observed: no row (CEIL(7.0) = 8).
#[test]
fn ceil_in_filter() {
    let d = dataset(":s :q 7.0, 7.5 .");
    assert_eq!(
        select(&d, "SELECT ?o { :s :q ?o FILTER(CEIL(?o) = ?o) }"),
        Ok(vec![
            "o=\"7.0\"^^<http://www.w3.org/2001/XMLSchema#decimal>".to_string()
        ])
    );
}

/// Expected (XPath fn:round, referenced by SPARQL 17.4.4.2): half rounds towards positive infinity:
/// fn:round(2.5) = 3, fn:round(0.5) = 1, fn:round(-2.5) = -2, fn:round(-3.5) = -3.
/// Observed: 2.0, 0.0, -2.0 (right by luck), -4.0
#[test]
fn round_of_decimal_halves() {
    assert_eq!(eval("ROUND(2.5)"), val("3.0"));
    assert_eq!(eval("ROUND(0.5)"), val("1.0"));
    assert_eq!(eval("ROUND(-2.5)"), val("-2.0"));
    assert_eq!(eval("ROUND(-3.5)"), val("-3.0"));
}

/// Expected: the same for doubles: fn:round(-2.5e0) = -2.0e0. Observed: -3e0 (f64::round).
#[test]
fn round_of_double_halves() {
    let d = dataset("");
    assert_eq!(ask(&d, "ASK { FILTER(ROUND(-2.5e0) = -2) }"), Ok(true));
    assert_eq!(ask(&d, "ASK { FILTER(ROUND(2.5e0) = 3) }"), Ok(true));
    assert_eq!(
        ask(&d, "ASK { FILTER(ROUND(\"-0.5\"^^xsd:float) = 0) }"),
        Ok(true)
    );
}
