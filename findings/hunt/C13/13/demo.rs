//! Property C13 - "OFFSET/LIMIT: the multiset of solutions equals the one defined by the algebra"
//! (here: the slice of an ORDER BY).
//!
//! Drop this file in `sparql/tests/hunt_C13_13.rs` and run
//! `cargo test -p sophia_sparql --test hunt_C13_13 --offline`.
//!
//! SPARQL 15.1: within ORDER BY, the `<` operator defines the relative order of numerics (and of
//! strings, booleans, dateTimes); only the pairs that `<` does not cover are left to the implementation.
//! `EvalResult::sparql_order_by` (sparql/src/expression.rs) uses `sparql_cmp` (by value) when it is
//! defined and falls back on `Term::cmp` (by datatype IRI, then lexical form) otherwise. The two
//! criteria are interleaved pair by pair, which is not a (pre)order: with
//!     a = "1"^^xsd:integer,   b = "5.0"^^xsd:decimal,   c = "P1D"^^xsd:duration
//! one gets a < b (by value), b < c ("...#decimal" < "...#duration") and c < a ("...#duration" <
//! "...#integer"): a cycle. `sort_unstable_by` with such a comparator returns an arbitrary
//! permutation; in particular the two *numbers*, whose order the specification fixes, can come out in
//! the wrong order, and `ORDER BY ?o LIMIT 1` ("the smallest") can return 5.0 although 1 is there.
//! Any non-numeric literal whose datatype IRI sorts between two numeric datatype IRIs triggers this
//! (xsd:duration, xsd:gYear, xsd:date between decimal/double/float and integer; ill-formed numerics...).
use sophia_api::prelude::*;
use sophia_api::sparql::{Query, SparqlDataset, SparqlResult};
use sophia_inmem::dataset::LightDataset;
use sophia_sparql::{SparqlQuery, SparqlWrapper};

const PROLOGUE: &str = "PREFIX : <tag:> PREFIX xsd: <http://www.w3.org/2001/XMLSchema#> ";

#[allow(dead_code)]
fn dataset(trig: &str) -> LightDataset {
    sophia_turtle::parser::trig::parse_str(&format!("{PROLOGUE}{trig}"))
        .collect_quads()
        .expect("test data must parse")
}

/// Run a SELECT query; every row is rendered as "var=term var=term ..." (UNDEF for unbound),
/// and the rows are sorted, so that the result can be compared as a multiset.
#[allow(dead_code)]
fn select<D: Dataset>(d: &D, query: &str) -> Result<Vec<String>, String> {
    let query = SparqlQuery::parse(&format!("{PROLOGUE}{query}")).map_err(|e| e.to_string())?;
    let res = SparqlWrapper(d).query(&query).map_err(|e| e.to_string())?;
    let SparqlResult::Bindings(bindings) = res else {
        return Err("not a SELECT query".into());
    };
    let vars: Vec<String> = bindings.variables().iter().map(|v| (*v).to_string()).collect();
    let mut rows = vec![];
    for row in bindings {
        let row = row.map_err(|e| e.to_string())?;
        let cells: Vec<String> = vars
            .iter()
            .zip(row.iter())
            .map(|(v, t)| match t {
                Some(t) => format!("{v}={t}"),
                None => format!("{v}=UNDEF"),
            })
            .collect();
        rows.push(cells.join(" "));
    }
    rows.sort();
    Ok(rows)
}

/// Run an ASK query.
#[allow(dead_code)]
fn ask<D: Dataset>(d: &D, query: &str) -> Result<bool, String> {
    let query = SparqlQuery::parse(&format!("{PROLOGUE}{query}")).map_err(|e| e.to_string())?;
    match SparqlWrapper(d).query(&query).map_err(|e| e.to_string())? {
        SparqlResult::Boolean(b) => Ok(b),
        _ => Err("not an ASK query".into()),
    }
}

use sophia_api::quad::Spog;
use sophia_api::term::SimpleTerm;

type MyQuad = Spog<SimpleTerm<'static>>;

fn quad(lex: &'static str, dt: &'static str) -> MyQuad {
    let iri = |s: String| SimpleTerm::Iri(IriRef::new_unchecked(s.into()));
    (
        [
            iri("tag:s".into()),
            iri("tag:q".into()),
            SimpleTerm::LiteralDatatype(
                lex.into(),
                IriRef::new_unchecked(format!("http://www.w3.org/2001/XMLSchema#{dt}").into()),
            ),
        ],
        None,
    )
}

/// The 6 datasets containing the same three triples, in every storage order
/// (a `Vec` of quads is a `Dataset` that enumerates its quads in insertion order).
fn datasets() -> Vec<Vec<MyQuad>> {
    let a = || quad("1", "integer");
    let b = || quad("5.0", "decimal");
    let c = || quad("P1D", "duration");
    vec![
        vec![a(), b(), c()],
        vec![a(), c(), b()],
        vec![b(), a(), c()],
        vec![b(), c(), a()],
        vec![c(), a(), b()],
        vec![c(), b(), a()],
    ]
}

/// Expected: whatever the storage order, 1 comes before 5.0 in ORDER BY ?o (1 < 5.0 is defined by
/// the `<` operator; the position of the duration is implementation dependent).
/// Observed: with the storage order [5.0, P1D, 1] the result is [5.0, P1D, 1].
#[test]
fn numbers_are_sorted_by_value() {
    for d in datasets() {
        let query = SparqlQuery::parse(&format!(
            "{PROLOGUE} SELECT (STR(?o) AS ?x) {{ :s :q ?o }} ORDER BY ?o"
        ))
        .unwrap();
        let rows: Vec<String> = SparqlWrapper(&d)
            .query(&query)
            .unwrap()
            .into_bindings()
            .into_iter()
            .map(|row| row.unwrap()[0].as_ref().unwrap().lexical_form().unwrap().to_string())
            .collect();
        let pos = |lex: &str| rows.iter().position(|r| r == lex).unwrap();
        assert!(
            pos("1") < pos("5.0"),
            "ORDER BY ?o returned {rows:?}: 5.0 before 1"
        );
    }
}

/// Expected: `ORDER BY ?o LIMIT 1` never answers 5.0, since a smaller number exists
/// (1, or the duration if the implementation chooses to sort it first, are acceptable).
/// Observed: 5.0 for some of the six storage orders (e.g. [5.0, P1D, 1]).
#[test]
fn order_by_limit_1_is_a_minimum() {
    for d in datasets() {
        let first = select(&d, "SELECT (STR(?o) AS ?x) { :s :q ?o } ORDER BY ?o LIMIT 1").unwrap();
        assert_ne!(
            first,
            vec![r#"x="5.0"^^<http://www.w3.org/2001/XMLSchema#string>"#.to_string()],
            "the first solution in ascending order is 5.0 although 1 is in the data"
        );
    }
}
