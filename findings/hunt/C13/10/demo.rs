//! Property C13 - "FILTER ... nothing missing" (built-in `langMatches`).
//!
//! Drop this file in `sparql/tests/hunt_C13_10.rs` and run
//! `cargo test -p sophia_sparql --test hunt_C13_10 --offline`.
//!
//! `lang_matches` (sparql/src/function.rs) first does `LanguageTag::new(tag).ok()?`. The empty string -
//! which is what `LANG(?x)` returns for every literal *without* a language tag - is not a valid
//! language tag, so `langMatches(LANG(?x), ..)` is an *error* for plain literals instead of `false`.
//! SPARQL 17.4.3.2 (and RFC 4647 basic filtering): `langMatches("", range)` is false for every range,
//! including "*" ("*" matches any *non-empty* language-tag string). The W3C test-suite checks exactly this
//! (data-r2/expr-builtin/q-langMatches-4.rq: `FILTER (! langMatches(lang(?v), "*"))` must return the
//! plain literal). NB: the error outcome is pinned by an existing unit test of the crate
//! (test.rs, "langMatches for empty string"), but it contradicts the specification.
use sophia_api::prelude::*;
use sophia_api::sparql::{Query, SparqlDataset, SparqlResult};
use sophia_inmem::dataset::LightDataset;
use sophia_sparql::{SparqlQuery, SparqlWrapper};

const PROLOGUE: &str = "PREFIX : <tag:> PREFIX xsd: <http://www.w3.org/2001/XMLSchema#> ";

#[allow(dead_code)]
fn dataset(trig: &str) -> LightDataset {
    sophia_turtle::parser::trig::parse_str(&format!("{PROLOGUE}{trig}"))
        .collect_quads()
        .expect("test data must parse")
}

/// Run a SELECT query; every row is rendered as "var=term var=term ..." (UNDEF for unbound),
/// and the rows are sorted, so that the result can be compared as a multiset.
#[allow(dead_code)]
fn select<D: Dataset>(d: &D, query: &str) -> Result<Vec<String>, String> {
    let query = SparqlQuery::parse(&format!("{PROLOGUE}{query}")).map_err(|e| e.to_string())?;
    let res = SparqlWrapper(d).query(&query).map_err(|e| e.to_string())?;
    let SparqlResult::Bindings(bindings) = res else {
        return Err("not a SELECT query".into());
    };
    let vars: Vec<String> = bindings.variables().iter().map(|v| (*v).to_string()).collect();
    let mut rows = vec![];
    for row in bindings {
        let row = row.map_err(|e| e.to_string())?;
        let cells: Vec<String> = vars
            .iter()
            .zip(row.iter())
            .map(|(v, t)| match t {
                Some(t) => format!("{v}={t}"),
                None => format!("{v}=UNDEF"),
            })
            .collect();
        rows.push(cells.join(" "));
    }
    rows.sort();
    Ok(rows)
}

/// Run an ASK query.
#[allow(dead_code)]
fn ask<D: Dataset>(d: &D, query: &str) -> Result<bool, String> {
    let query = SparqlQuery::parse(&format!("{PROLOGUE}{query}")).map_err(|e| e.to_string())?;
    match SparqlWrapper(d).query(&query).map_err(|e| e.to_string())? {
        SparqlResult::Boolean(b) => Ok(b),
        _ => Err("not an ASK query".into()),
    }
}

const DATA: &str = r#":s :q "abc", "chat"@fr, "cat"@en-GB ."#;

/// Expected: the standard idiom to select the literals that have NO language tag returns "abc".
/// Observed: no row (langMatches("", "*") is an error, and so is its negation).
#[test]
fn literals_without_language_tag() {
    let d = dataset(DATA);
    assert_eq!(
        select(&d, r#"SELECT ?o { :s :q ?o FILTER(!langMatches(LANG(?o), "*")) }"#),
        Ok(vec![
            r#"o="abc"^^<http://www.w3.org/2001/XMLSchema#string>"#.to_string()
        ])
    );
}

/// Expected: everything that is not English, including the plain literal.
/// Observed: "abc" is missing.
#[test]
fn literals_not_in_english() {
    let d = dataset(DATA);
    assert_eq!(
        select(&d, r#"SELECT ?o { :s :q ?o FILTER(!langMatches(LANG(?o), "en")) }"#),
        Ok(vec![
            r#"o="abc"^^<http://www.w3.org/2001/XMLSchema#string>"#.to_string(),
            r#"o="chat"@fr"#.to_string(),
        ])
    );
}

/// Expected: langMatches("", "*") = false and langMatches("", "en") = false (bound, not errors).
/// Observed: ?a and ?b are unbound.
#[test]
fn lang_matches_of_empty_tag_is_false() {
    let d = dataset("");
    assert_eq!(
        select(
            &d,
            r#"SELECT (langMatches("", "*") AS ?a) (langMatches(LANG("abc"), "en") AS ?b) {}"#
        ),
        Ok(vec![
            r#"a="false"^^<http://www.w3.org/2001/XMLSchema#boolean> b="false"^^<http://www.w3.org/2001/XMLSchema#boolean>"#.to_string()
        ])
    );
}

/// Sanity check: the positive cases work ("cat"@en-GB matches the range "en", "chat"@fr does not).
#[test]
fn lang_matches_nominal() {
    let d = dataset(DATA);
    assert_eq!(
        select(&d, r#"SELECT (STR(?o) AS ?x) { :s :q ?o FILTER(langMatches(LANG(?o), "en")) }"#),
        Ok(vec![r#"x="cat"^^<http://www.w3.org/2001/XMLSchema#string>"#.to_string()])
    );
}
