//! Property C13 - "A query using an operator the engine does not support yields an explicit
//! not-implemented error, never a partial or wrong answer".
//!
//! Drop this file in `sparql/tests/hunt_C13_3.rs` and run
//! `cargo test -p sophia_sparql --test hunt_C13_3 --offline`.
//!
//! `call_function` (sparql/src/function.rs) maps every built-in function that is not implemented
//! (REGEX, REPLACE, STRLANG, STRDT, NOW, TZ, TIMEZONE, UUID, STRUUID, MD5, SHA1..SHA512, SUBJECT,
//! PREDICATE, OBJECT) and every function called by IRI (`Function::Custom`, which includes the XSD
//! casts xsd:integer(..), xsd:string(..), ...) to `todo(..)`, which prints a line on stderr and returns
//! `None`, i.e. a plain *expression evaluation error*. The query itself succeeds:
//! FILTER drops every row, BIND leaves the variable unbound, COALESCE/IF/||/&& silently take the other
//! branch. The user gets a well-formed but wrong answer instead of `SparqlWrapperError::NotImplemented`
//! (which is what unsupported *algebra* operators correctly produce).
//!
//! Each test accepts either of the two acceptable outcomes: the correct answer, or an explicit error.
use sophia_api::prelude::*;
use sophia_api::sparql::{Query, SparqlDataset, SparqlResult};
use sophia_inmem::dataset::LightDataset;
use sophia_sparql::{SparqlQuery, SparqlWrapper};

const PROLOGUE: &str = "PREFIX : <tag:> PREFIX xsd: <http://www.w3.org/2001/XMLSchema#> ";

#[allow(dead_code)]
fn dataset(trig: &str) -> LightDataset {
    sophia_turtle::parser::trig::parse_str(&format!("{PROLOGUE}{trig}"))
        .collect_quads()
        .expect("test data must parse")
}

/// Run a SELECT query; every row is rendered as "var=term var=term ..." (UNDEF for unbound),
/// and the rows are sorted, so that the result can be compared as a multiset.
#[allow(dead_code)]
fn select<D: Dataset>(d: &D, query: &str) -> Result<Vec<String>, String> {
    let query = SparqlQuery::parse(&format!("{PROLOGUE}{query}")).map_err(|e| e.to_string())?;
    let res = SparqlWrapper(d).query(&query).map_err(|e| e.to_string())?;
    let SparqlResult::Bindings(bindings) = res else {
        return Err("not a SELECT query".into());
    };
    let vars: Vec<String> = bindings.variables().iter().map(|v| (*v).to_string()).collect();
    let mut rows = vec![];
    for row in bindings {
        let row = row.map_err(|e| e.to_string())?;
        let cells: Vec<String> = vars
            .iter()
            .zip(row.iter())
            .map(|(v, t)| match t {
                Some(t) => format!("{v}={t}"),
                None => format!("{v}=UNDEF"),
            })
            .collect();
        rows.push(cells.join(" "));
    }
    rows.sort();
    Ok(rows)
}

/// Run an ASK query.
#[allow(dead_code)]
fn ask<D: Dataset>(d: &D, query: &str) -> Result<bool, String> {
    let query = SparqlQuery::parse(&format!("{PROLOGUE}{query}")).map_err(|e| e.to_string())?;
    match SparqlWrapper(d).query(&query).map_err(|e| e.to_string())? {
        SparqlResult::Boolean(b) => Ok(b),
        _ => Err("not an ASK query".into()),
    }
}

const DATA: &str = r#":s :q "abc", "cat"@en, "xyz", "1" ."#;

fn correct_or_not_implemented<T: PartialEq + std::fmt::Debug>(got: Result<T, String>, correct: T) {
    match got {
        Err(msg) => assert!(
            msg.contains("Not implemented"),
            "unexpected error (neither the answer nor 'Not implemented'): {msg}"
        ),
        Ok(answer) => assert_eq!(
            answer, correct,
            "the query 'succeeded' with a wrong answer instead of an explicit not-implemented error"
        ),
    }
}

/// Expected: the two literals containing an "a" (or NotImplemented("REGEX")).
/// Observed: Ok([]) - plus 'Function not implemented: Regex' on stderr, once per row.
#[test]
fn filter_regex() {
    let d = dataset(DATA);
    correct_or_not_implemented(
        select(&d, r#"SELECT ?o { :s :q ?o FILTER(REGEX(STR(?o), "a")) }"#),
        vec![
            r#"o="abc"^^<http://www.w3.org/2001/XMLSchema#string>"#.to_string(),
            r#"o="cat"@en"#.to_string(),
        ],
    );
}

/// Expected: the complement (or NotImplemented). Observed: Ok([]) as well -
/// the engine answers that no literal matches the regex *and* that no literal fails to match it.
#[test]
fn filter_not_regex() {
    let d = dataset(DATA);
    correct_or_not_implemented(
        select(&d, r#"SELECT ?o { :s :q ?o FILTER(!REGEX(STR(?o), "a")) }"#),
        vec![
            r#"o="1"^^<http://www.w3.org/2001/XMLSchema#string>"#.to_string(),
            r#"o="xyz"^^<http://www.w3.org/2001/XMLSchema#string>"#.to_string(),
        ],
    );
}

/// Expected: true - xsd:integer("1") = 1 - (or NotImplemented). Observed: Ok(false).
#[test]
fn ask_with_xsd_cast() {
    let d = dataset(DATA);
    correct_or_not_implemented(
        ask(&d, r#"ASK { :s :q ?o FILTER(xsd:integer(?o) = 1) }"#),
        true,
    );
}

/// Expected: ?x = "a"@en (or NotImplemented). Observed: one solution with ?x unbound.
#[test]
fn bind_strlang() {
    let d = dataset("");
    correct_or_not_implemented(
        select(&d, r#"SELECT (STRLANG("a", "en") AS ?x) {}"#),
        vec![r#"x="a"@en"#.to_string()],
    );
}

/// Expected: ?x = "azc" (or NotImplemented). Observed: ?x = "fallback",
/// a perfectly plausible, wrong value.
#[test]
fn coalesce_hides_unimplemented_replace() {
    let d = dataset("");
    correct_or_not_implemented(
        select(
            &d,
            r#"SELECT (COALESCE(REPLACE("abc", "b", "z"), "fallback") AS ?x) {}"#,
        ),
        vec![r#"x="azc"^^<http://www.w3.org/2001/XMLSchema#string>"#.to_string()],
    );
}
