//! Property C13 - "no query panics" ("literals of all value classes").
//!
//! Drop this file in `sparql/tests/hunt_C13_11.rs` and run
//! `cargo test -p sophia_sparql --test hunt_C13_11 --offline`.
//!
//! Comparing an xsd:dateTime *without* timezone with one *with* a timezone goes through
//! `heterogeneous_cmp` / `naive_to_fixed` (sparql/src/value/_xsd_date_time.rs), which shifts the
//! timezone-less value by +14:00 and -14:00 with `NaiveDateTime::and_local_timezone` and declares
//! any result other than `LocalResult::Single` `unreachable!()` ("FixedOffset has no fold or gap").
//! But chrono also answers `LocalResult::None` when the shifted instant leaves its representable
//! range (years -262143 ..= 262142): for a dateTime in the first or last 14 hours of that range -
//! which `XsdDateTime::new` accepts, since the year may have any number of digits - the evaluation
//! of `<`, `>`, `=`, ... PANICS ('internal error: entered unreachable code').
//! (The already repaired "huge year" panic was the *parse* of a year that does not fit an i32;
//! these values parse fine, the panic is in the comparison.)
use sophia_api::prelude::*;
use sophia_api::sparql::{Query, SparqlDataset, SparqlResult};
use sophia_inmem::dataset::LightDataset;
use sophia_sparql::{SparqlQuery, SparqlWrapper};

const PROLOGUE: &str = "PREFIX : <tag:> PREFIX xsd: <http://www.w3.org/2001/XMLSchema#> ";

#[allow(dead_code)]
fn dataset(trig: &str) -> LightDataset {
    sophia_turtle::parser::trig::parse_str(&format!("{PROLOGUE}{trig}"))
        .collect_quads()
        .expect("test data must parse")
}

/// Run a SELECT query; every row is rendered as "var=term var=term ..." (UNDEF for unbound),
/// and the rows are sorted, so that the result can be compared as a multiset.
#[allow(dead_code)]
fn select<D: Dataset>(d: &D, query: &str) -> Result<Vec<String>, String> {
    let query = SparqlQuery::parse(&format!("{PROLOGUE}{query}")).map_err(|e| e.to_string())?;
    let res = SparqlWrapper(d).query(&query).map_err(|e| e.to_string())?;
    let SparqlResult::Bindings(bindings) = res else {
        return Err("not a SELECT query".into());
    };
    let vars: Vec<String> = bindings.variables().iter().map(|v| (*v).to_string()).collect();
    let mut rows = vec![];
    for row in bindings {
        let row = row.map_err(|e| e.to_string())?;
        let cells: Vec<String> = vars
            .iter()
            .zip(row.iter())
            .map(|(v, t)| match t {
                Some(t) => format!("{v}={t}"),
                None => format!("{v}=UNDEF"),
            })
            .collect();
        rows.push(cells.join(" "));
    }
    rows.sort();
    Ok(rows)
}

/// Run an ASK query.
#[allow(dead_code)]
fn ask<D: Dataset>(d: &D, query: &str) -> Result<bool, String> {
    let query = SparqlQuery::parse(&format!("{PROLOGUE}{query}")).map_err(|e| e.to_string())?;
    match SparqlWrapper(d).query(&query).map_err(|e| e.to_string())? {
        SparqlResult::Boolean(b) => Ok(b),
        _ => Err("not an ASK query".into()),
    }
}

/// Expected: year -262143 is before year 2000, whatever the (unknown) timezone: true.
/// Observed: panic at _xsd_date_time.rs:358 'internal error: entered unreachable code'.
#[test]
fn compare_with_earliest_representable_date() {
    let d = dataset("");
    assert_eq!(
        ask(
            &d,
            r#"ASK { FILTER("2000-01-01T00:00:00Z"^^xsd:dateTime > "-262143-01-01T00:00:00"^^xsd:dateTime) }"#
        ),
        Ok(true)
    );
}

/// Expected: the two values are less than 14 hours apart, they are not comparable
/// (XSD 3.2.7.4): type error, the filter fails: false. In any case: no panic.
/// Observed: panic.
#[test]
fn compare_with_latest_representable_date() {
    let d = dataset("");
    assert_eq!(
        ask(
            &d,
            r#"ASK { FILTER("262142-12-31T23:59:59Z"^^xsd:dateTime < "262142-12-31T23:59:59"^^xsd:dateTime) }"#
        ),
        Ok(false)
    );
}

/// Expected: one odd literal in the data must not kill a query that filters on dates.
/// Observed: panic while iterating on the results.
#[test]
fn filter_over_data() {
    let d = dataset(
        r#"
        :big_bang :date "-262143-01-01T00:00:00"^^xsd:dateTime .
        :y2k :date "2000-01-01T00:00:00"^^xsd:dateTime .
        :future :date "2100-01-01T00:00:00"^^xsd:dateTime .
        "#,
    );
    assert_eq!(
        select(
            &d,
            r#"SELECT ?e { ?e :date ?d FILTER(?d < "2050-06-01T00:00:00Z"^^xsd:dateTime) }"#
        ),
        Ok(vec!["e=<tag:big_bang>".to_string(), "e=<tag:y2k>".to_string()])
    );
}
