//! Property C06 - drop into `c14n/tests/hunt_C06_4.rs`, run with
//! `cargo test -p sophia_c14n --test hunt_C06_4 --offline`
//!
//! "Canonicalisation fails only with an explicit error (...) never for a dataset within the
//! limits."
//!
//! `hash_n_degree_quads` is recursive (one level per blank node newly reached, several stack
//! frames per level: hash_n_degree_quads -> for_each_permutation_of -> permutations -> closure).
//! The only guard on the depth is `depth > depth_factor * N` (N = number of blank nodes), which
//! with the default factor 1.0 can never trigger since the depth is at most N - 1.
//! A plain chain `_:n0 <p> _:n1 . _:n1 <p> _:n2 . ...` (no symmetry at all, every list of
//! related blank nodes has one element, so neither safeguard is concerned) makes the recursion
//! as deep as the chain is long: with a few thousand blank nodes the thread overflows its stack
//! and the whole PROCESS is aborted (SIGABRT, "thread ... has overflowed its stack"), instead of
//! `normalize` returning `Ok(..)` or an explicit `C14nError::ToxicGraph`.
//!
//! Observed on x86_64 Linux: debug build, 2 MiB stack (default for spawned threads and test
//! threads): 400 nodes ok, 600 nodes abort; release build: 2 MiB: abort at 2000 nodes,
//! 8 MiB (main thread): abort at 5000 nodes.  The abort comes within a fraction of a second.

use sophia_api::quad::Spog;
use sophia_api::term::{BnodeId, IriRef, SimpleTerm};
use sophia_c14n::rdfc10::normalize;
use sophia_c14n::C14nError;
use std::collections::HashSet;

type MyDataset = HashSet<Spog<SimpleTerm<'static>>>;

fn chain(n: usize) -> MyDataset {
    let bn = |i: usize| SimpleTerm::BlankNode(BnodeId::new_unchecked(format!("n{i}").into()));
    (0..n)
        .map(|i| {
            (
                [
                    bn(i),
                    SimpleTerm::Iri(IriRef::new_unchecked("http://example.org/next".into())),
                    bn(i + 1),
                ],
                None,
            )
        })
        .collect()
}

/// 5000 triples forming a simple path, canonicalised with the default settings on a thread
/// with the default stack size of Rust threads (2 MiB).
/// Expected: the call returns - either the canonical form, or an explicit ToxicGraph error.
/// Observed: the test binary is killed by SIGABRT (stack overflow).
#[test]
fn long_chain_of_blank_nodes_does_not_crash_the_process() {
    let handle = std::thread::Builder::new()
        .stack_size(2 * 1024 * 1024)
        .spawn(|| {
            let d = chain(5000);
            let mut out = Vec::new();
            match normalize(&d, &mut out) {
                Ok(()) => Ok(out.len()),
                Err(C14nError::ToxicGraph(msg)) => Err(msg),
                Err(e) => panic!("unexpected error {e}"),
            }
        })
        .unwrap();
    // any *returned* value is fine for this test
    let res = handle.join().expect("canonicalisation must not panic");
    println!("returned {res:?}");
}
