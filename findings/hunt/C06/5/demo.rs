//! Property C06 - drop into `c14n/tests/hunt_C06_5.rs`, run with
//! `cargo test -p sophia_c14n --test hunt_C06_5 --offline`
//!
//! "Canonicalisation fails only with an explicit error: unsupported input (...)".
//!
//! Sophia datasets may hold generalised RDF.  `relabel_with` (step 2) explicitly rejects the
//! generalised quads it knows RDFC-1.0 cannot handle (blank node as predicate, quoted triples,
//! variables) with `C14nError::Unsupported`, but it forgets the remaining kind of non-IRI
//! predicate: a literal.  Such a quad passes the checks, and as soon as Hash Related Blank Node
//! is needed, `hash_related_bnode` does `quad.p().iri().unwrap()` and PANICS
//! ("called `Option::unwrap()` on a `None` value") instead of returning an error.
//! When no N-degree hashing is needed, the same kind of input is silently "canonicalised" into
//! something that is not N-Quads, so the behaviour is also inconsistent.

use sophia_api::quad::Spog;
use sophia_api::term::{BnodeId, SimpleTerm};
use sophia_c14n::rdfc10::normalize;
use sophia_c14n::C14nError;
use std::collections::HashSet;

type MyDataset = HashSet<Spog<SimpleTerm<'static>>>;

fn bn(i: &'static str) -> SimpleTerm<'static> {
    SimpleTerm::BlankNode(BnodeId::new_unchecked(i.into()))
}
fn lit(l: &'static str) -> SimpleTerm<'static> {
    use sophia_api::term::Term;
    l.into_term()
}

/// `_:a "p" _:b . _:c "p" _:d .` : a/c (and b/d) share their first degree hash, so the
/// N-degree hashing is run.
#[test]
fn literal_predicate_with_ndegree_hashing_is_an_explicit_error() {
    let mut d = MyDataset::new();
    d.insert(([bn("a"), lit("p"), bn("b")], None));
    d.insert(([bn("c"), lit("p"), bn("d")], None));
    let res = std::panic::catch_unwind(|| {
        let mut out = Vec::new();
        normalize(&d, &mut out).map(|()| String::from_utf8(out).unwrap())
    });
    match res {
        Err(_) => panic!("normalize() panicked instead of returning C14nError::Unsupported"),
        Ok(Ok(nq)) => panic!("a literal predicate was accepted, producing {nq:?}"),
        Ok(Err(e)) => assert!(matches!(e, C14nError::Unsupported(_)), "{e}"),
    }
}

/// same kind of input, but every blank node has a unique first degree hash
#[test]
fn literal_predicate_is_an_explicit_error() {
    let mut d = MyDataset::new();
    d.insert(([bn("a"), lit("p"), bn("b")], None));
    let mut out = Vec::new();
    let res = normalize(&d, &mut out);
    assert!(
        matches!(res, Err(C14nError::Unsupported(_))),
        "expected Unsupported (like for a blank node predicate), got {res:?} / {:?}",
        String::from_utf8_lossy(&out)
    );
}
