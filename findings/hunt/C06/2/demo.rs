//! Property C06 - drop into `c14n/tests/hunt_C06_2.rs`, run with
//! `cargo test -p sophia_c14n --test hunt_C06_2 --offline`
//!
//! RDFC-1.0 serialises the canonical dataset in "canonical n-quads form", defined in
//! RDF 1.2 N-Quads, section 4 "A Canonical form of N-Quads".  Within STRING_LITERAL_QUOTE:
//!  * BS, HT, LF, FF, CR, `"` and `\` MUST be encoded using ECHAR;
//!  * "Characters in the range from U+0000 to U+0007, VT (U+000B), characters in the range
//!    from U+000E to U+001F, DEL (U+007F), **and characters not matching the Char production
//!    from [XML11]** MUST be represented by UCHAR using a lowercase \u with 4 HEXes";
//!  * all other characters MUST be represented natively.
//!
//! XML 1.1: `Char ::= [#x1-#xD7FF] | [#xE000-#xFFFD] | [#x10000-#x10FFFF]`.
//! The only Unicode scalar values outside `Char` are U+0000, U+FFFE and U+FFFF.
//! `_cnq::nq` handles U+0000 (it is <= U+001F) but writes U+FFFE and U+FFFF natively,
//! so the canonical document (and every hash / signature computed over it) differs from
//! what a conforming implementation produces (e.g. RDF.rb / rdf-normalize, which escapes
//! `0xFFFE..0xFFFF` with `\u`).

use sophia_api::quad::Spog;
use sophia_api::term::{IriRef, SimpleTerm};
use sophia_c14n::rdfc10::normalize;
use std::collections::HashSet;

fn iri(i: &'static str) -> SimpleTerm<'static> {
    SimpleTerm::Iri(IriRef::new_unchecked(i.into()))
}

fn c14n_of_literal(lex: &str) -> String {
    let lit = SimpleTerm::LiteralDatatype(
        lex.to_string().into(),
        IriRef::new_unchecked("http://www.w3.org/2001/XMLSchema#string".into()),
    );
    let mut d: HashSet<Spog<SimpleTerm<'static>>> = HashSet::new();
    d.insert(([iri("http://example.org/s"), iri("http://example.org/p"), lit], None));
    let mut out = Vec::new();
    normalize(&d, &mut out).unwrap();
    String::from_utf8(out).unwrap()
}

/// what the canonical form requires for one character
fn expected_escape(c: char) -> String {
    let cp = c as u32;
    let xml11_char = matches!(cp, 0x1..=0xD7FF | 0xE000..=0xFFFD | 0x10000..=0x10FFFF);
    match c {
        '\u{8}' => "\\b".into(),
        '\t' => "\\t".into(),
        '\n' => "\\n".into(),
        '\u{c}' => "\\f".into(),
        '\r' => "\\r".into(),
        '"' => "\\\"".into(),
        '\\' => "\\\\".into(),
        _ if cp <= 0x1F || cp == 0x7F || !xml11_char => format!("\\u{cp:04X}"),
        _ => c.to_string(),
    }
}

#[test]
fn noncharacters_fffe_ffff_are_uchar_escaped() {
    assert_eq!(
        c14n_of_literal("a\u{FFFE}b"),
        "<http://example.org/s> <http://example.org/p> \"a\\uFFFEb\" .\n",
        "U+FFFE does not match XML 1.1 Char: canonical N-Quads requires \\uFFFE"
    );
    assert_eq!(
        c14n_of_literal("a\u{FFFF}b"),
        "<http://example.org/s> <http://example.org/p> \"a\\uFFFFb\" .\n",
        "U+FFFF does not match XML 1.1 Char: canonical N-Quads requires \\uFFFF"
    );
}

/// every escape-relevant character (all of U+0000..U+00FF plus the boundaries of the
/// XML 1.1 Char ranges); reports all the characters that are serialised wrongly
#[test]
fn all_escape_relevant_characters() {
    let mut cps: Vec<u32> = (0..=0xFF).collect();
    cps.extend([
        0x2028, 0xD7FF, 0xE000, 0xFDD0, 0xFEFF, 0xFFFD, 0xFFFE, 0xFFFF, 0x10000, 0x1FFFE,
        0x10FFFF,
    ]);
    let mut wrong = vec![];
    for cp in cps {
        let c = char::from_u32(cp).unwrap();
        let got = c14n_of_literal(&c.to_string());
        let exp = format!(
            "<http://example.org/s> <http://example.org/p> \"{}\" .\n",
            expected_escape(c)
        );
        if got != exp {
            wrong.push(format!("U+{cp:04X}: got {got:?}, expected {exp:?}"));
        }
    }
    assert!(wrong.is_empty(), "wrongly serialised characters:\n{}", wrong.join("\n"));
}
