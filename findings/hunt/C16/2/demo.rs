//! C16 / violation 2 -- drop this file in `sparql/tests/hunt_C16_2.rs` and run
//! `cargo test -p sophia_sparql --test hunt_C16_2 --offline`
//!
//! Property C16: SPARQL-querying completes, or fails with an error value, for inputs of any
//! size, on a thread with an ordinary 2 MiB stack, in an unoptimised build: the depth of the
//! call stack may depend on the nesting depth of the data, not on the number of statements.
//!
//! `bgp_rec` (sparql/src/bgp.rs) handles the first triple pattern of a basic graph pattern and
//! calls itself for the remaining ones: one stack frame (about 2.7 kB in a dev build) per triple
//! pattern of the query, whatever the data. The triple patterns of a BGP are not nested in each
//! other, they are the statements of the query: a *flat* list `s p0 ?o0 ; p1 ?o1 ; ...`.
//! spargebra parses such a query without trouble (see the control test);
//! it is the evaluation by sophia_sparql that overflows the stack.
//!
//! A stack overflow is not a panic: it aborts the whole process. So each test re-runs itself in
//! a child process (same test binary, `HUNT_C16_CHILD` set), performs the operation there on a
//! thread with a 2 MiB stack, and the parent checks the *exit status* and the printed outcome.

use sophia_api::prelude::*;
use sophia_api::sparql::{Query, SparqlDataset, SparqlResult};
use sophia_api::term::SimpleTerm;
use sophia_inmem::dataset::LightDataset;
use sophia_iri::IriRef;
use sophia_sparql::{SparqlQuery, SparqlWrapper};

const MARK: &str = "HUNT_C16_OUTCOME=";

/// Run `op` on a thread with a 2 MiB stack, in a child process;
/// return the outcome printed by the child, or a description of how the child died.
fn outcome_on_2mib_stack(test_name: &str, op: fn() -> String) -> Result<String, String> {
    if std::env::var("HUNT_C16_CHILD").as_deref() == Ok(test_name) {
        let outcome = std::thread::Builder::new()
            .stack_size(2 * 1024 * 1024)
            .spawn(op)
            .unwrap()
            .join()
            .unwrap_or_else(|_| "panicked".into());
        println!("\n{MARK}{outcome}");
        std::process::exit(0);
    }
    let child = std::process::Command::new(std::env::current_exe().unwrap())
        .args(["--exact", test_name, "--nocapture", "--test-threads=1"])
        .env("HUNT_C16_CHILD", test_name)
        .output()
        .unwrap();
    let stdout = String::from_utf8_lossy(&child.stdout);
    let stderr = String::from_utf8_lossy(&child.stderr);
    if !child.status.success() {
        return Err(format!(
            "the child process died: {} -- {}",
            child.status,
            stderr
                .lines()
                .filter(|l| l.contains("overflow") || l.contains("panicked"))
                .collect::<Vec<_>>()
                .join(" / ")
        ));
    }
    stdout
        .lines()
        .find_map(|l| l.strip_prefix(MARK))
        .map(str::to_string)
        .ok_or_else(|| format!("no outcome in the child's output: {stdout}"))
}

fn iri(s: &str) -> SimpleTerm<'static> {
    SimpleTerm::Iri(IriRef::new_unchecked(s.to_string().into()))
}

/// The dataset `<tag:s> <tag:p> "x"` (one single statement).
fn dataset() -> LightDataset {
    let mut d = LightDataset::new();
    d.insert(iri("tag:s"), iri("tag:p"), "x", None::<SimpleTerm>)
        .unwrap();
    d
}

/// `SELECT * { <tag:s> <tag:p> ?o0 ; <tag:p> ?o1 ; ... ; <tag:p> ?o{n-1} }`
fn select_query(n: usize) -> String {
    let mut q = String::from("SELECT * { <tag:s> <tag:p> ?o0");
    for i in 1..n {
        q.push_str(&format!(" ; <tag:p> ?o{i}"));
    }
    q.push_str(" }");
    q
}

/// `ASK { <tag:s> <tag:p> "x" , "x" , ... , "x" }` (n ground triple patterns)
fn ask_query(n: usize) -> String {
    let mut q = String::from("ASK { <tag:s> <tag:p> 'x'");
    for _ in 1..n {
        q.push_str(" , 'x'");
    }
    q.push_str(" }");
    q
}

/// Evaluate `query` against `dataset()`; describe the outcome in one line.
fn evaluate(query: &str) -> String {
    let d = dataset();
    let query = match SparqlQuery::<LightDataset>::parse(query) {
        Ok(q) => q,
        Err(e) => return format!("error value (parser): {e}"),
    };
    match SparqlWrapper(&d).query(&query) {
        Err(e) => format!("error value: {e}"),
        Ok(SparqlResult::Boolean(b)) => format!("{b}"),
        Ok(SparqlResult::Triples(_)) => unreachable!(),
        Ok(SparqlResult::Bindings(bindings)) => {
            let nvars = bindings.variables().len();
            let mut nsol = 0;
            for res in bindings {
                match res {
                    Ok(sol) => {
                        assert!(sol.iter().all(|t| t.as_ref().is_some_and(|t| Term::eq(t, "x"))));
                        nsol += 1;
                    }
                    Err(e) => return format!("error value: {e}"),
                }
            }
            format!("{nsol} solution(s) with {nvars} variables")
        }
    }
}

/// Control: a BGP of 50 triple patterns is evaluated correctly.
#[test]
fn control_bgp_of_50_triple_patterns() {
    let outcome = outcome_on_2mib_stack("control_bgp_of_50_triple_patterns", || {
        format!(
            "{} / {}",
            evaluate(&select_query(50)),
            evaluate(&ask_query(50))
        )
    });
    assert_eq!(
        outcome.as_deref(),
        Ok("1 solution(s) with 50 variables / true")
    );
}

/// Control: *parsing* the queries with 2000 triple patterns works on a 2 MiB stack.
#[test]
fn control_parsing_2000_triple_patterns() {
    let outcome = outcome_on_2mib_stack("control_parsing_2000_triple_patterns", || {
        let q1 = SparqlQuery::<LightDataset>::parse(&select_query(2000));
        let q2 = SparqlQuery::<LightDataset>::parse(&ask_query(2000));
        format!("{} {}", q1.is_ok(), q2.is_ok())
    });
    assert_eq!(outcome.as_deref(), Ok("true true"));
}

/// Expected (C16): one solution binding the 2000 variables (or an error value)
/// -- the process must not die of a stack overflow.
#[test]
fn select_bgp_of_2000_triple_patterns() {
    let outcome = outcome_on_2mib_stack("select_bgp_of_2000_triple_patterns", || {
        evaluate(&select_query(2000))
    });
    match outcome {
        Ok(o) => assert!(
            o == "1 solution(s) with 2000 variables" || o.starts_with("error value"),
            "unexpected outcome: {o}"
        ),
        Err(e) => panic!("a BGP of 2000 triple patterns against 1 statement, 2 MiB stack: {e}"),
    }
}

/// Same thing for the branch of `bgp_rec` that handles triple patterns without any variable
/// (`return bgp_rec(state, remaining, ...)`).
/// Expected (C16): `true` (or an error value).
#[test]
fn ask_bgp_of_2000_ground_triple_patterns() {
    let outcome = outcome_on_2mib_stack("ask_bgp_of_2000_ground_triple_patterns", || {
        evaluate(&ask_query(2000))
    });
    match outcome {
        Ok(o) => assert!(
            o == "true" || o.starts_with("error value"),
            "unexpected outcome: {o}"
        ),
        Err(e) => panic!("a BGP of 2000 ground triple patterns, 2 MiB stack: {e}"),
    }
}
