//! C16 / violation 1 -- drop this file in `c14n/tests/hunt_C16_1.rs` and run
//! `cargo test -p sophia_c14n --test hunt_C16_1 --offline`
//!
//! Property C16: serialising (here: to canonical N-Quads, RDFC-1.0) completes, or fails with an
//! error value, for inputs of any size, on a thread with an ordinary 2 MiB stack, in an
//! unoptimised build: the depth of the call stack must not grow with the number of statements
//! nor with the number of items of an RDF list.
//!
//! `C14nState::hash_n_degree_quads` (c14n/src/rdfc10.rs) calls itself once per blank node met
//! along a path of blank nodes that the first-degree hash does not tell apart.
//! Its only guard is `depth > depth_factor * <number of blank nodes>` (1.0 by default), i.e. it
//! *allows* a recursion as deep as the dataset is large.
//! Two equal RDF lists `(0 1 2 ... N-1)` are enough: cell i of the first list and cell i of the
//! second list have the same first-degree hash, so each list is walked by recursion, one level
//! (three stack frames: hash_n_degree_quads -> for_each_permutation_of -> closure; about 4.5 kB
//! in a dev build) per cell.
//!
//! A stack overflow is not a panic: it aborts the whole process. So each test re-runs itself in
//! a child process (same test binary, `HUNT_C16_CHILD` set), performs the operation there on a
//! thread with a 2 MiB stack, and the parent checks the *exit status* and the printed outcome.

use sophia_api::ns::rdf;
use sophia_api::quad::Spog;
use sophia_api::term::{BnodeId, SimpleTerm, Term};
use sophia_iri::IriRef;
use std::collections::HashSet;

const MARK: &str = "HUNT_C16_OUTCOME=";

/// Run `op` on a thread with a 2 MiB stack, in a child process;
/// return the outcome printed by the child, or a description of how the child died.
fn outcome_on_2mib_stack(test_name: &str, op: fn() -> String) -> Result<String, String> {
    if std::env::var("HUNT_C16_CHILD").as_deref() == Ok(test_name) {
        let outcome = std::thread::Builder::new()
            .stack_size(2 * 1024 * 1024)
            .spawn(op)
            .unwrap()
            .join()
            .unwrap_or_else(|_| "panicked".into());
        println!("\n{MARK}{outcome}");
        std::process::exit(0);
    }
    let child = std::process::Command::new(std::env::current_exe().unwrap())
        .args(["--exact", test_name, "--nocapture", "--test-threads=1"])
        .env("HUNT_C16_CHILD", test_name)
        .output()
        .unwrap();
    let stdout = String::from_utf8_lossy(&child.stdout);
    let stderr = String::from_utf8_lossy(&child.stderr);
    if !child.status.success() {
        return Err(format!(
            "the child process died: {} -- {}",
            child.status,
            stderr
                .lines()
                .filter(|l| l.contains("overflow") || l.contains("panicked"))
                .collect::<Vec<_>>()
                .join(" / ")
        ));
    }
    stdout
        .lines()
        .find_map(|l| l.strip_prefix(MARK))
        .map(str::to_string)
        .ok_or_else(|| format!("no outcome in the child's output: {stdout}"))
}

type MyDataset = HashSet<Spog<SimpleTerm<'static>>>;

fn iri(s: &str) -> SimpleTerm<'static> {
    SimpleTerm::Iri(IriRef::new_unchecked(s.to_string().into()))
}

fn bnode(s: String) -> SimpleTerm<'static> {
    SimpleTerm::BlankNode(BnodeId::new_unchecked(s.into()))
}

/// Canonicalize `d` with the default settings; describe the outcome in one line.
fn normalize(d: &MyDataset) -> String {
    let mut out = vec![];
    match sophia_c14n::rdfc10::normalize(d, &mut out) {
        Ok(()) => format!("ok: {} lines", out.iter().filter(|b| **b == b'\n').count()),
        Err(e) => format!("error value: {e}"),
    }
}

/// `<tag:a> <tag:p> (0 1 2 ... n-1). <tag:b> <tag:p> (0 1 2 ... n-1).`
/// (2 * (1 + 2n) quads)
fn two_equal_lists(n: usize) -> MyDataset {
    let mut d = MyDataset::new();
    for name in ["a", "b"] {
        let cell = |i: usize| {
            if i < n {
                bnode(format!("{name}{i}"))
            } else {
                rdf::nil.into_term()
            }
        };
        d.insert(([iri(&format!("tag:{name}")), iri("tag:p"), cell(0)], None));
        for i in 0..n {
            d.insert(([cell(i), rdf::first.into_term(), i.into_term()], None));
            d.insert(([cell(i), rdf::rest.into_term(), cell(i + 1)], None));
        }
    }
    d
}

/// Nothing to do with lists: two paths `_:x0 <tag:p0> _:x1 <tag:p1> _:x2 ...` of n statements
/// (2n quads)
fn two_equal_paths(n: usize) -> MyDataset {
    let mut d = MyDataset::new();
    for name in ["a", "b"] {
        for i in 0..n {
            d.insert((
                [
                    bnode(format!("{name}{i}")),
                    iri(&format!("tag:p{i}")),
                    bnode(format!("{name}{}", i + 1)),
                ],
                None,
            ));
        }
    }
    d
}

/// Control: with 20 items per list (resp. 20 statements per path) everything works.
#[test]
fn control_20_items() {
    let outcome = outcome_on_2mib_stack("control_20_items", || {
        format!(
            "{} / {}",
            normalize(&two_equal_lists(20)),
            normalize(&two_equal_paths(20))
        )
    });
    assert_eq!(outcome.as_deref(), Ok("ok: 82 lines / ok: 40 lines"));
}

/// Expected (C16): with 1000 items per list, `normalize` either succeeds (4002 lines) or returns
/// an error value (C14nError::ToxicGraph) -- the process must not die of a stack overflow.
#[test]
fn two_equal_lists_of_1000_items() {
    let outcome = outcome_on_2mib_stack("two_equal_lists_of_1000_items", || {
        normalize(&two_equal_lists(1000))
    });
    match outcome {
        Ok(o) => assert!(
            o == "ok: 4002 lines" || o.starts_with("error value: "),
            "unexpected outcome: {o}"
        ),
        Err(e) => panic!("canonicalizing two equal lists of 1000 items on a 2 MiB stack: {e}"),
    }
}

/// Expected (C16): `normalize` either succeeds (2000 lines) or returns an error value.
#[test]
fn two_equal_paths_of_1000_statements() {
    let outcome = outcome_on_2mib_stack("two_equal_paths_of_1000_statements", || {
        normalize(&two_equal_paths(1000))
    });
    match outcome {
        Ok(o) => assert!(
            o == "ok: 2000 lines" || o.starts_with("error value: "),
            "unexpected outcome: {o}"
        ),
        Err(e) => panic!("canonicalizing two equal paths of 1000 statements on a 2 MiB stack: {e}"),
    }
}
