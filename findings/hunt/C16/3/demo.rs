//! C16 / violation 3 -- drop this file in `jsonld/tests/hunt_C16_3.rs` and run
//! `cargo test -p sophia_jsonld --test hunt_C16_3 --offline`
//!
//! Property C16: parsing completes, or fails with an error value, for inputs of any size, on a
//! thread with an ordinary 2 MiB stack, in an unoptimised build: the depth of the call stack may
//! depend on the nesting depth of the data, not on the number of entries of a (flat) JSON object.
//!
//! `JsonLdParser` hands the document to the `json-ld` crate. Its context processing
//! (json-ld-context-processing 0.15.1, src/syntax/define.rs `define` <-> src/syntax/iri.rs
//! `expand_iri_with`) follows the recursive formulation of the "Create Term Definition" algorithm:
//! defining a term whose IRI is a compact IRI `prefix:suffix` first defines the term `prefix`,
//! and so on. Each level is a boxed future polled by the previous one and costs more than 40 kB
//! of stack in a dev build. So a *flat* `@context` object in which every term is defined from the
//! next one (`"t3": "t2:a/", "t2": "t1:a/", "t1": "t0:a/", "t0": "tag:x/"`) -- legal JSON-LD 1.1,
//! no cycle, no nesting -- kills the process with as few as 50 entries (fewer than 1000 in a release
//! build). The same entries written in the opposite order are processed without any recursion.
//!
//! A stack overflow is not a panic: it aborts the whole process. So each test re-runs itself in
//! a child process (same test binary, `HUNT_C16_CHILD` set), performs the operation there on a
//! thread with a 2 MiB stack, and the parent checks the *exit status* and the printed outcome.

use sophia_api::prelude::*;
use sophia_api::quad::Spog;
use sophia_api::term::SimpleTerm;

const MARK: &str = "HUNT_C16_OUTCOME=";

/// Run `op` on a thread with a 2 MiB stack, in a child process;
/// return the outcome printed by the child, or a description of how the child died.
fn outcome_on_2mib_stack(test_name: &str, op: fn() -> String) -> Result<String, String> {
    if std::env::var("HUNT_C16_CHILD").as_deref() == Ok(test_name) {
        let outcome = std::thread::Builder::new()
            .stack_size(2 * 1024 * 1024)
            .spawn(op)
            .unwrap()
            .join()
            .unwrap_or_else(|_| "panicked".into());
        println!("\n{MARK}{outcome}");
        std::process::exit(0);
    }
    let child = std::process::Command::new(std::env::current_exe().unwrap())
        .args(["--exact", test_name, "--nocapture", "--test-threads=1"])
        .env("HUNT_C16_CHILD", test_name)
        .output()
        .unwrap();
    let stdout = String::from_utf8_lossy(&child.stdout);
    let stderr = String::from_utf8_lossy(&child.stderr);
    if !child.status.success() {
        return Err(format!(
            "the child process died: {} -- {}",
            child.status,
            stderr
                .lines()
                .filter(|l| l.contains("overflow") || l.contains("panicked"))
                .collect::<Vec<_>>()
                .join(" / ")
        ));
    }
    stdout
        .lines()
        .find_map(|l| l.strip_prefix(MARK))
        .map(str::to_string)
        .ok_or_else(|| format!("no outcome in the child's output: {stdout}"))
}

/// A document whose (flat) context defines t0 as `tag:x/` and t{i+1} as `t{i}:a/`,
/// and which uses the last term as a property:
/// `{"@context": {"tN": "tN-1:a/", ..., "t1": "t0:a/", "t0": "tag:x/"}, "@id": "tag:s", "tN": 1}`
/// (or the same entries from t0 to tN if `dependencies_first`).
fn document(n: usize, dependencies_first: bool) -> String {
    let mut entries = vec![r#""t0": "tag:x/""#.to_string()];
    for i in 0..n {
        entries.push(format!(r#""t{}": "t{}:a/""#, i + 1, i));
    }
    if !dependencies_first {
        entries.reverse();
    }
    format!(
        r#"{{"@context": {{{}}}, "@id": "tag:s", "t{n}": 1}}"#,
        entries.join(", ")
    )
}

/// Parse `doc` with the default JSON-LD parser; describe the outcome in one line.
fn parse(doc: &str) -> String {
    let res: Result<Vec<Spog<SimpleTerm<'static>>>, _> =
        sophia_jsonld::parser::parse_str(doc).collect_quads();
    match res {
        Err(e) => format!("error value: {e}"),
        Ok(quads) => {
            let predicates: Vec<String> = quads
                .iter()
                .map(|q| q.p().iri().unwrap().as_str().to_string())
                .collect();
            match &predicates[..] {
                [p] => format!(
                    "1 quad, predicate tag:x/ followed by {} times a/",
                    p.strip_prefix("tag:x/").unwrap().matches("a/").count()
                ),
                _ => format!("{} quads", quads.len()),
            }
        }
    }
}

/// Control: 30 chained terms are processed correctly, in both orders.
#[test]
fn control_30_chained_terms() {
    let outcome = outcome_on_2mib_stack("control_30_chained_terms", || {
        format!(
            "{} | {}",
            parse(&document(30, true)),
            parse(&document(30, false))
        )
    });
    assert_eq!(
        outcome.as_deref(),
        Ok("1 quad, predicate tag:x/ followed by 30 times a/ | 1 quad, predicate tag:x/ followed by 30 times a/")
    );
}

/// Control: 100 chained terms, each one defined *after* the term it depends on: no recursion.
#[test]
fn control_100_chained_terms_dependencies_first() {
    let outcome = outcome_on_2mib_stack("control_100_chained_terms_dependencies_first", || {
        parse(&document(100, true))
    });
    assert_eq!(
        outcome.as_deref(),
        Ok("1 quad, predicate tag:x/ followed by 100 times a/")
    );
}

/// Expected (C16): the same 100 context entries in the opposite order give the same quad
/// (or an error value) -- the process must not die of a stack overflow.
#[test]
fn context_of_100_chained_terms_dependencies_last() {
    let outcome = outcome_on_2mib_stack("context_of_100_chained_terms_dependencies_last", || {
        parse(&document(100, false))
    });
    match outcome {
        Ok(o) => assert!(
            o == "1 quad, predicate tag:x/ followed by 100 times a/"
                || o.starts_with("error value: "),
            "unexpected outcome: {o}"
        ),
        Err(e) => panic!("a flat @context of 101 entries (about 2 kB of JSON), 2 MiB stack: {e}"),
    }
}

/// Same thing with 2000 entries (a 50 kB document), which is also fatal in a release build.
#[test]
fn context_of_2000_chained_terms_dependencies_last() {
    let outcome = outcome_on_2mib_stack("context_of_2000_chained_terms_dependencies_last", || {
        parse(&document(2000, false))
    });
    match outcome {
        Ok(o) => assert!(
            o == "1 quad, predicate tag:x/ followed by 2000 times a/"
                || o.starts_with("error value: "),
            "unexpected outcome: {o}"
        ),
        Err(e) => panic!("a flat @context of 2001 entries (50 kB of JSON), 2 MiB stack: {e}"),
    }
}
