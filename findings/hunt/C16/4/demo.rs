//! C16 / violation 4 -- drop this file in `sparql/tests/hunt_C16_4.rs` and run
//! `cargo test -p sophia_sparql --test hunt_C16_4 --offline`
//!
//! Property C16: SPARQL-querying completes, or fails with an error value, for inputs of any
//! size, on a thread with an ordinary 2 MiB stack, in an unoptimised build: the depth of the
//! call stack may depend on the *nesting* depth of the input, not on its length.
//!
//! `a || b || c || ...`, `a && b && c && ...` and `{A} UNION {B} UNION {C} ...` are flat lists
//! in the text of a query (no parentheses, no nested braces), but spargebra hands them over as
//! left-deep binary trees `((a || b) || c) || ...`. sophia_sparql walks these trees by
//! recursion:
//! * `ArcExpression::from_expr` and `ArcExpression::eval` (sparql/src/expression.rs): one level
//!   per `||` / `&&`; a level of `eval` costs more than 10 kB of stack in a dev build, so a
//!   FILTER with 200 alternatives (the typical shape of a generated "one of these values"
//!   query) is fatal;
//! * `ExecState::select` -> `ExecState::union` (sparql/src/exec.rs): one level per UNION, and
//!   the result is a `Chain<Chain<Chain<...>>>` nested just as deep (the pattern that was
//!   repaired in `graph_rec` for graph names).
//! spargebra parses these queries without trouble on the same stack (see the control test).
//!
//! A stack overflow is not a panic: it aborts the whole process. So each test re-runs itself in
//! a child process (same test binary, `HUNT_C16_CHILD` set), performs the operation there on a
//! thread with a 2 MiB stack, and the parent checks the *exit status* and the printed outcome.

use sophia_api::prelude::*;
use sophia_api::sparql::{Query, SparqlDataset, SparqlResult};
use sophia_api::term::SimpleTerm;
use sophia_inmem::dataset::LightDataset;
use sophia_iri::IriRef;
use sophia_sparql::{SparqlQuery, SparqlWrapper};

const MARK: &str = "HUNT_C16_OUTCOME=";

/// Run `op` on a thread with a 2 MiB stack, in a child process;
/// return the outcome printed by the child, or a description of how the child died.
fn outcome_on_2mib_stack(test_name: &str, op: fn() -> String) -> Result<String, String> {
    if std::env::var("HUNT_C16_CHILD").as_deref() == Ok(test_name) {
        let outcome = std::thread::Builder::new()
            .stack_size(2 * 1024 * 1024)
            .spawn(op)
            .unwrap()
            .join()
            .unwrap_or_else(|_| "panicked".into());
        println!("\n{MARK}{outcome}");
        std::process::exit(0);
    }
    let child = std::process::Command::new(std::env::current_exe().unwrap())
        .args(["--exact", test_name, "--nocapture", "--test-threads=1"])
        .env("HUNT_C16_CHILD", test_name)
        .output()
        .unwrap();
    let stdout = String::from_utf8_lossy(&child.stdout);
    let stderr = String::from_utf8_lossy(&child.stderr);
    if !child.status.success() {
        return Err(format!(
            "the child process died: {} -- {}",
            child.status,
            stderr
                .lines()
                .filter(|l| l.contains("overflow") || l.contains("panicked"))
                .collect::<Vec<_>>()
                .join(" / ")
        ));
    }
    stdout
        .lines()
        .find_map(|l| l.strip_prefix(MARK))
        .map(str::to_string)
        .ok_or_else(|| format!("no outcome in the child's output: {stdout}"))
}

fn iri(s: &str) -> SimpleTerm<'static> {
    SimpleTerm::Iri(IriRef::new_unchecked(s.to_string().into()))
}

/// The dataset `<tag:s> <tag:p> "x", "y"` (two statements).
fn dataset() -> LightDataset {
    let mut d = LightDataset::new();
    d.insert(iri("tag:s"), iri("tag:p"), "x", None::<SimpleTerm>)
        .unwrap();
    d.insert(iri("tag:s"), iri("tag:p"), "y", None::<SimpleTerm>)
        .unwrap();
    d
}

/// `SELECT ?o { ?s ?p ?o FILTER(?o = 'a1' || ?o = 'a2' || ... || ?o = 'x') }` (n alternatives)
fn or_query(n: usize) -> String {
    let mut q = String::from("SELECT ?o { ?s ?p ?o FILTER(");
    for i in 1..n {
        q.push_str(&format!("?o = 'a{i}' || "));
    }
    q.push_str("?o = 'x') }");
    q
}

/// `SELECT ?o { ?s ?p ?o FILTER(?o != 'a1' && ?o != 'a2' && ... && ?o != 'x') }` (n conditions)
fn and_query(n: usize) -> String {
    let mut q = String::from("SELECT ?o { ?s ?p ?o FILTER(");
    for i in 1..n {
        q.push_str(&format!("?o != 'a{i}' && "));
    }
    q.push_str("?o != 'x') }");
    q
}

/// `SELECT ?o { { ?s ?p 'a1' } UNION { ?s ?p 'a2' } UNION ... UNION { ?s ?p ?o FILTER(?o = 'x') } }`
/// (n branches)
fn union_query(n: usize) -> String {
    let mut q = String::from("SELECT ?o { ");
    for i in 1..n {
        q.push_str(&format!("{{ ?s ?p 'a{i}' }} UNION "));
    }
    q.push_str("{ ?s ?p ?o FILTER(?o = 'x') } }");
    q
}

/// Evaluate `query` against `dataset()`; describe the outcome in one line.
fn evaluate(query: &str) -> String {
    let d = dataset();
    let query = match SparqlQuery::<LightDataset>::parse(query) {
        Ok(q) => q,
        Err(e) => return format!("error value (parser): {e}"),
    };
    match SparqlWrapper(&d).query(&query) {
        Err(e) => format!("error value: {e}"),
        Ok(SparqlResult::Bindings(bindings)) => {
            let mut values = vec![];
            for res in bindings {
                match res {
                    Ok(sol) => values.push(
                        sol[0]
                            .as_ref()
                            .and_then(|t| t.lexical_form())
                            .map(|lex| lex.to_string()),
                    ),
                    Err(e) => return format!("error value: {e}"),
                }
            }
            format!("{values:?}")
        }
        Ok(_) => unreachable!(),
    }
}

/// Control: with 50 operands everything works:
/// only "x" is one of the alternatives, only "y" is none of them, only one branch has a solution.
#[test]
fn control_50_operands() {
    let outcome = outcome_on_2mib_stack("control_50_operands", || {
        format!(
            "{} / {} / {}",
            evaluate(&or_query(50)),
            evaluate(&and_query(50)),
            evaluate(&union_query(50)),
        )
    });
    assert_eq!(
        outcome.as_deref(),
        Ok(r#"[Some("x")] / [Some("y")] / [Some("x")]"#)
    );
}

/// Control: *parsing* (and dropping) the queries used below works on a 2 MiB stack.
#[test]
fn control_parsing() {
    let outcome = outcome_on_2mib_stack("control_parsing", || {
        let q1 = SparqlQuery::<LightDataset>::parse(&or_query(1000));
        let q2 = SparqlQuery::<LightDataset>::parse(&and_query(1000));
        let q3 = SparqlQuery::<LightDataset>::parse(&union_query(2000));
        format!("{} {} {}", q1.is_ok(), q2.is_ok(), q3.is_ok())
    });
    assert_eq!(outcome.as_deref(), Ok("true true true"));
}

/// Expected (C16): the solution ?o="x" (or an error value)
/// -- the process must not die of a stack overflow.
#[test]
fn filter_with_1000_alternatives() {
    let outcome = outcome_on_2mib_stack("filter_with_1000_alternatives", || {
        evaluate(&or_query(1000))
    });
    match outcome {
        Ok(o) => assert!(
            o == r#"[Some("x")]"# || o.starts_with("error value"),
            "unexpected outcome: {o}"
        ),
        Err(e) => panic!("FILTER(a1 || a2 || ... || a1000), 2 statements, 2 MiB stack: {e}"),
    }
}

/// Expected (C16): the solution ?o="y" (or an error value).
#[test]
fn filter_with_1000_conditions() {
    let outcome = outcome_on_2mib_stack("filter_with_1000_conditions", || {
        evaluate(&and_query(1000))
    });
    match outcome {
        Ok(o) => assert!(
            o == r#"[Some("y")]"# || o.starts_with("error value"),
            "unexpected outcome: {o}"
        ),
        Err(e) => panic!("FILTER(c1 && c2 && ... && c1000), 2 statements, 2 MiB stack: {e}"),
    }
}

/// Expected (C16): the solution ?o="x" (or an error value).
#[test]
fn union_of_2000_branches() {
    let outcome = outcome_on_2mib_stack("union_of_2000_branches", || {
        evaluate(&union_query(2000))
    });
    match outcome {
        Ok(o) => assert!(
            o == r#"[Some("x")]"# || o.starts_with("error value"),
            "unexpected outcome: {o}"
        ),
        Err(e) => panic!("{{A1}} UNION {{A2}} UNION ... UNION {{A2000}}, 2 MiB stack: {e}"),
    }
}
