//! hunt C11 / 1 -- drop into `inmem/tests/hunt_C11_1.rs`, run with
//! `cargo test -p sophia_inmem --test hunt_C11_1 --offline`
//!
//! Property C11: viewing a dataset as one named/default graph (Dataset::graph / graph_mut)
//! shows exactly the triples of the corresponding quads, *for every store type and every
//! graph name*.
//!
//! On the current code this file does not even compile: the bound
//! `T: for<'x> Term<BorrowTerm<'x> = DTerm<'x, Self>> + 'static`
//! on `Dataset::graph` / `Dataset::graph_mut`
//!  * forces `Self: 'static` (the HRTB quantifies over every `'x`, and `DTerm<'x, Self>` is only
//!    well formed when `Self: 'x`), so the single-graph view can not be taken on any store that
//!    borrows something: `graph.as_dataset()`, `graph.as_dataset_mut()`, `ds.graph_mut(g).as_dataset_mut()`,
//!    `Vec<Spog<SimpleTerm<'a>>>` with borrowed terms, ...
//!  * forces the graph name to be of the one type whose `BorrowTerm` is the store's own term type
//!    (e.g. only `SimpleTerm<'static>` for the in-memory datasets), although
//!    `DatasetGraph<D, G>` itself accepts any `G: Term` and works fine with it
//!    (see the `control_*` tests, which go through `DatasetGraph::new` and pass).
//!
//! Expected (according to C11): every test below compiles and passes.

use sophia_api::MownStr;
use sophia_api::dataset::{Dataset, MutableDataset};
use sophia_api::graph::adapter::DatasetGraph;
use sophia_api::graph::{Graph, MutableGraph};
use sophia_api::prelude::*;
use sophia_api::quad::Spog;
use sophia_api::term::SimpleTerm;
use sophia_inmem::dataset::LightDataset;

type T = SimpleTerm<'static>;
const P: Iri<&str> = Iri::new_unchecked_const("http://example.org/p");
const G: Iri<&str> = Iri::new_unchecked_const("http://example.org/g");

/// A graph viewed as a dataset is a store like any other:
/// its default graph, viewed through `Dataset::graph`, must show exactly the triples of the graph,
/// and any named graph must be empty.
#[test]
fn graph_view_of_a_graph_viewed_as_dataset() {
    let g: Vec<[T; 3]> = vec![[P.into_term(), P.into_term(), 1.into_term()]];
    let d = g.as_dataset();
    assert_eq!(d.graph(None::<T>).triples().count(), 1);
    assert_eq!(d.graph(Some(G.into_term::<T>())).triples().count(), 0);
}

/// Inserting through `graph_mut(None)` of `as_dataset_mut()` must add the triple to the wrapped graph,
/// with the same flag as the direct operation.
#[test]
fn graph_mut_view_of_a_graph_viewed_as_dataset() {
    let mut g: Vec<[T; 3]> = vec![];
    {
        let mut d = g.as_dataset_mut();
        assert!(d.graph_mut(None::<T>).insert(P, P, 1).unwrap());
    }
    assert_eq!(g.len(), 1);
    assert!(Graph::contains(&g, P, P, 1).unwrap());
}

/// A dataset whose terms borrow their text (e.g. produced by a zero-copy parser) is a legal store;
/// `Dataset::graph` must be usable on it.
#[test]
fn graph_view_of_a_dataset_with_borrowed_terms() {
    let text = String::from("http://example.org/p");
    let p: SimpleTerm<'_> = SimpleTerm::Iri(IriRef::new_unchecked(MownStr::from_ref(&text)));
    let ds: Vec<Spog<SimpleTerm<'_>>> = vec![
        ([p.clone(), p.clone(), p.clone()], None),
        ([p.clone(), p.clone(), p.clone()], Some(p.clone())),
    ];
    assert_eq!(ds.graph(None::<SimpleTerm<'_>>).triples().count(), 1);
    assert_eq!(ds.graph(Some(p.clone())).triples().count(), 1);
}

/// "for all graph names": a graph name given as an `Iri<&str>` (or any other `Term`)
/// designates the same graph as the equal `SimpleTerm`.
#[test]
fn graph_view_with_a_graph_name_of_another_term_type() {
    let mut ds = LightDataset::new();
    ds.insert(P, P, 1, Some(G)).unwrap();
    ds.insert(P, P, 2, None::<T>).unwrap();
    assert_eq!(ds.graph(Some(G)).triples().count(), 1);
    assert!(ds.graph_mut(Some(G)).insert(P, P, 3).unwrap());
    assert!(Dataset::contains(&ds, P, P, 3, Some(G)).unwrap());
    assert_eq!(ds.quads().count(), 3);
}

// ---- controls: the very same views, built with DatasetGraph::new, already work ----

#[test]
fn control_graph_view_of_a_graph_viewed_as_dataset() {
    let mut g: Vec<[T; 3]> = vec![];
    {
        let mut d = g.as_dataset_mut();
        assert!(DatasetGraph::new(&mut d, None::<T>).insert(P, P, 1).unwrap());
    }
    let d = g.as_dataset();
    assert_eq!(DatasetGraph::new(&d, None::<T>).triples().count(), 1);
    assert_eq!(DatasetGraph::new(&d, Some(G)).triples().count(), 0);
}

#[test]
fn control_graph_view_with_a_graph_name_of_another_term_type() {
    let mut ds = LightDataset::new();
    ds.insert(P, P, 1, Some(G)).unwrap();
    assert_eq!(DatasetGraph::new(&ds, Some(G)).triples().count(), 1);
    assert!(DatasetGraph::new(&mut ds, Some(G)).insert(P, P, 3).unwrap());
    assert!(Dataset::contains(&ds, P, P, 3, Some(G)).unwrap());
}
