// (attr removed)
use sophia_api::dataset::{Dataset, MutableDataset};
use sophia_api::graph::adapter::{DatasetGraph, PartialUnionGraph, UnionGraph};
use sophia_api::graph::{Graph, MutableGraph};
use sophia_api::prelude::*;
use sophia_api::quad::{Gspo, Spog};
use sophia_api::source::IntoSource;
use sophia_api::term::matcher::{GraphNameMatcher, Not, TermMatcher};
use sophia_api::term::{BnodeId, GraphName, LanguageTag, SimpleTerm, VarName};
use sophia_api::MownStr;
use std::collections::{BTreeSet, HashSet};

type T = SimpleTerm<'static>;

fn iri(s: &'static str) -> T {
    SimpleTerm::Iri(IriRef::new_unchecked(MownStr::from_ref(s)))
}
fn bn(s: &'static str) -> T {
    SimpleTerm::BlankNode(BnodeId::new_unchecked(MownStr::from_ref(s)))
}
fn lit(s: &'static str) -> T {
    SimpleTerm::LiteralDatatype(
        MownStr::from_ref(s),
        IriRef::new_unchecked(MownStr::from_ref("http://www.w3.org/2001/XMLSchema#string")),
    )
}
fn int(s: &'static str) -> T {
    SimpleTerm::LiteralDatatype(
        MownStr::from_ref(s),
        IriRef::new_unchecked(MownStr::from_ref("http://www.w3.org/2001/XMLSchema#integer")),
    )
}
fn lang(s: &'static str, l: &'static str) -> T {
    SimpleTerm::LiteralLanguage(
        MownStr::from_ref(s),
        LanguageTag::new_unchecked(MownStr::from_ref(l)),
    )
}
fn var(s: &'static str) -> T {
    SimpleTerm::Variable(VarName::new_unchecked(MownStr::from_ref(s)))
}
fn tr(a: T, b: T, c: T) -> T {
    SimpleTerm::Triple(Box::new([a, b, c]))
}

fn pool() -> Vec<T> {
    vec![
        iri("http://ex/a"),
        iri("http://ex/b"),
        iri("http://ex/g1"),
        iri("http://ex/g2"),
        iri(""),
        bn("b1"),
        bn("g1"),
        lit("a"),
        lit("http://ex/a"),
        int("1"),
        lang("a", "en"),
        lang("a", "EN"),
        lang("a", "fr"),
        var("v"),
        tr(iri("http://ex/a"), iri("http://ex/b"), lit("a")),
        tr(iri("http://ex/a"), iri("http://ex/b"), bn("b1")),
    ]
}
fn gpool() -> Vec<Option<T>> {
    vec![
        None,
        Some(iri("http://ex/g1")),
        Some(iri("http://ex/g2")),
        Some(bn("g1")),
        Some(bn("b1")),
        Some(iri("http://ex/a")),
        Some(lit("a")),
        Some(lang("a", "EN")),
        Some(iri("http://ex/absent")),
        Some(tr(iri("http://ex/a"), iri("http://ex/b"), lit("a"))),
    ]
}

/// canonical key of a term
fn key<X: Term>(t: X) -> String {
    match t.kind() {
        TermKind::Iri => format!("<{}>", t.iri().unwrap().as_str()),
        TermKind::BlankNode => format!("_:{}", t.bnode_id().unwrap().as_str()),
        TermKind::Literal => match t.language_tag() {
            Some(tag) => format!(
                "{:?}@{}",
                &t.lexical_form().unwrap()[..],
                tag.as_str().to_ascii_lowercase()
            ),
            None => format!(
                "{:?}^^{}",
                &t.lexical_form().unwrap()[..],
                t.datatype().unwrap().as_str()
            ),
        },
        TermKind::Variable => format!("?{}", t.variable().unwrap().as_str()),
        TermKind::Triple => {
            let [a, b, c] = t.triple().unwrap();
            format!("<<{} {} {}>>", key(a), key(b), key(c))
        }
    }
}
fn gkey<X: Term>(g: Option<X>) -> Option<String> {
    g.map(key)
}

type MQ = (Option<String>, [String; 3]);
type Model = BTreeSet<MQ>;

struct Rng(u64);
impl Rng {
    fn next(&mut self) -> u64 {
        self.0 ^= self.0 << 13;
        self.0 ^= self.0 >> 7;
        self.0 ^= self.0 << 17;
        self.0
    }
    fn below(&mut self, n: usize) -> usize {
        (self.next() % n as u64) as usize
    }
    fn pick<'a, X>(&mut self, v: &'a [X]) -> &'a X {
        &v[self.below(v.len())]
    }
}

fn triples_of<G: Graph>(g: &G) -> Vec<[String; 3]> {
    let mut v: Vec<_> = g
        .triples()
        .map(|t| {
            let t = t.unwrap();
            [key(t.s()), key(t.p()), key(t.o())]
        })
        .collect();
    v.sort();
    v
}
fn quads_of<D: Dataset>(d: &D) -> Vec<MQ> {
    let mut v: Vec<_> = d
        .quads()
        .map(|q| {
            let q = q.unwrap();
            (gkey(q.g()), [key(q.s()), key(q.p()), key(q.o())])
        })
        .collect();
    v.sort();
    v
}

fn model_graph(m: &Model, g: &Option<T>) -> Vec<[String; 3]> {
    let gk = gkey(g.as_ref());
    m.iter()
        .filter(|q| q.0 == gk)
        .map(|q| q.1.clone())
        .collect::<Vec<_>>()
}

fn dedup<X: Ord>(mut v: Vec<X>) -> Vec<X> {
    v.sort();
    v.dedup();
    v
}

macro_rules! check_views {
    ($ds:expr, $model:expr, $is_set:expr, $ctx:expr) => {{
        let ds = &$ds;
        let model: &Model = &$model;
        let ctx = &$ctx;
        // store itself
        let sq = quads_of(ds);
        let sq = if $is_set { sq } else { dedup(sq) };
        assert_eq!(sq, model.iter().cloned().collect::<Vec<_>>(), "store vs model {ctx}");
        // union
        let u = dedup(triples_of(&ds.union_graph()));
        let mu = dedup(model.iter().map(|q| q.1.clone()).collect::<Vec<_>>());
        assert_eq!(u, mu, "union {ctx}");
        // each graph
        for g in gpool() {
            let v = DatasetGraph::new(ds, g.clone());
            let got = triples_of(&v);
            let got = if $is_set { got } else { dedup(got) };
            let exp = model_graph(model, &g);
            assert_eq!(got, exp, "graph {:?} {ctx}", g);
            // pattern queries through the view
            for s in pool() {
                let got: Vec<_> = dedup(v
                    .triples_matching([s.clone()], Any, Any)
                    .map(|t| { let t = t.unwrap(); [key(t.s()), key(t.p()), key(t.o())] })
                    .collect());
                let sk = key(&s);
                let e: Vec<_> = exp.iter().filter(|t| t[0] == sk).cloned().collect();
                assert_eq!(got, e, "graph {:?} s={:?} {ctx}", g, s);
                let got: Vec<_> = dedup(v
                    .triples_matching(Any, Any, [s.clone()])
                    .map(|t| { let t = t.unwrap(); [key(t.s()), key(t.p()), key(t.o())] })
                    .collect());
                let e: Vec<_> = exp.iter().filter(|t| t[2] == sk).cloned().collect();
                assert_eq!(got, e, "graph {:?} o={:?} {ctx}", g, s);
                let got: Vec<_> = dedup(v
                    .triples_matching(Any, [s.clone()], Any)
                    .map(|t| { let t = t.unwrap(); [key(t.s()), key(t.p()), key(t.o())] })
                    .collect());
                let e: Vec<_> = exp.iter().filter(|t| t[1] == sk).cloned().collect();
                assert_eq!(got, e, "graph {:?} p={:?} {ctx}", g, s);
                let got: Vec<_> = dedup(v
                    .triples_matching([s.clone(), iri("http://ex/zzz")], |t: SimpleTerm| t.is_iri(), Any)
                    .map(|t| { let t = t.unwrap(); [key(t.s()), key(t.p()), key(t.o())] })
                    .collect());
                let e: Vec<_> = exp.iter().filter(|t| t[0] == sk && t[1].starts_with('<') && !t[1].starts_with("<<")).cloned().collect();
                assert_eq!(got, e, "graph {:?} s2={:?} {ctx}", g, s);
                // union
                let got: Vec<_> = dedup(ds.union_graph()
                    .triples_matching(Any, Any, [s.clone()])
                    .map(|t| { let t = t.unwrap(); [key(t.s()), key(t.p()), key(t.o())] })
                    .collect());
                let e: Vec<_> = mu.iter().filter(|t| t[2] == sk).cloned().collect();
                assert_eq!(got, e, "union o={:?} {ctx}", s);
            }
            for t in &exp {
                // contains
                let _ = t;
            }
            // terms
            let subj = dedup(v.subjects().map(|t| key(t.unwrap())).collect::<Vec<_>>());
            let e = dedup(exp.iter().map(|t| t[0].clone()).collect::<Vec<_>>());
            assert_eq!(subj, e, "subjects {:?} {ctx}", g);
        }
        // partial unions
        let g1 = Some(iri("http://ex/g1"));
        let g2 = Some(iri("http://ex/g2"));
        let sel = [g1.clone(), g2.clone(), None];
        let pu = dedup(triples_of(&ds.partial_union_graph(&sel[..])));
        let selk: Vec<_> = sel.iter().map(|g| gkey(g.as_ref())).collect();
        let e = dedup(model.iter().filter(|q| selk.contains(&q.0)).map(|q| q.1.clone()).collect::<Vec<_>>());
        assert_eq!(pu, e, "partial [g1,g2,None] {ctx}");
        let sel1 = [Some(bn("g1"))];
        let pu = dedup(triples_of(&ds.partial_union_graph(&sel1[..])));
        let e = model_graph(model, &sel1[0]);
        assert_eq!(pu, e, "partial [_:g1] {ctx}");
        let sel0: [Option<T>; 0] = [];
        let pu = dedup(triples_of(&ds.partial_union_graph(&sel0[..])));
        assert!(pu.is_empty(), "partial [] {ctx}");
        let pu = dedup(triples_of(&ds.partial_union_graph(Some(TermKind::BlankNode))));
        let e = dedup(model.iter().filter(|q| q.0.as_ref().map(|k| k.starts_with("_:")).unwrap_or(false)).map(|q| q.1.clone()).collect::<Vec<_>>());
        assert_eq!(pu, e, "partial bnodes {ctx}");
        let pu = dedup(triples_of(&ds.partial_union_graph(None::<TermKind>)));
        let e = model_graph(model, &None);
        assert_eq!(pu, e, "partial None::<TermKind> {ctx}");
        let pu = dedup(triples_of(&ds.partial_union_graph(|g: Option<SimpleTerm>| g.is_some())));
        let e = dedup(model.iter().filter(|q| q.0.is_some()).map(|q| q.1.clone()).collect::<Vec<_>>());
        assert_eq!(pu, e, "partial closure {ctx}");
        let pu = dedup(triples_of(&ds.partial_union_graph(Some(None::<&T>))));
        let e = model_graph(model, &None);
        assert_eq!(pu, e, "partial Some(None) {ctx}");
        let pu = dedup(triples_of(&ds.partial_union_graph(Any)));
        assert_eq!(pu, mu, "partial Any {ctx}");
    }};
}

macro_rules! run_dataset {
    ($name:ident, $ty:ty, $new:expr, $is_set:expr) => {
        #[test]
        fn $name() {
            for seed in 1..40u64 {
                let mut rng = Rng(seed.wrapping_mul(0x9E3779B97F4A7C15));
                let mut ds: $ty = $new;
                let mut model = Model::new();
                let p = pool();
                let gp = gpool();
                for step in 0..60 {
                    let s = rng.pick(&p).clone();
                    let pr = rng.pick(&p).clone();
                    let o = rng.pick(&p).clone();
                    let g = rng.pick(&gp).clone();
                    let mq: MQ = (gkey(g.as_ref()), [key(&s), key(&pr), key(&o)]);
                    let op = rng.below(8);
                    let ctx = format!("seed={seed} step={step} op={op} q={:?}", mq);
                    match op {
                        0 | 1 => {
                            let r = MutableDataset::insert(&mut ds, &s, &pr, &o, g.as_ref()).unwrap();
                            let e = model.insert(mq);
                            if $is_set { assert_eq!(r, e, "direct insert {ctx}"); }
                        }
                        2 => {
                            let r = MutableDataset::remove(&mut ds, &s, &pr, &o, g.as_ref()).unwrap();
                            let e = model.remove(&mq);
                            if $is_set { assert_eq!(r, e, "direct remove {ctx}"); }
                        }
                        3 | 4 => {
                            let mut v = DatasetGraph::new(&mut ds, g.clone());
                            let r = MutableGraph::insert(&mut v, &s, &pr, &o).unwrap();
                            let e = model.insert(mq);
                            if $is_set { assert_eq!(r, e, "view insert {ctx}"); }
                        }
                        5 => {
                            let mut v = DatasetGraph::new(&mut ds, g.clone());
                            let r = MutableGraph::remove(&mut v, &s, &pr, &o).unwrap();
                            let e = model.remove(&mq);
                            if $is_set { assert_eq!(r, e, "view remove {ctx}"); }
                        }
                        6 => {
                            // remove_matching through view: all triples with subject s
                            let mut v = DatasetGraph::new(&mut ds, g.clone());
                            let r = v.remove_matching([s.clone()], Any, Any).unwrap();
                            let gk = gkey(g.as_ref());
                            let sk = key(&s);
                            let before = model.len();
                            model.retain(|q| !(q.0 == gk && q.1[0] == sk));
                            if $is_set { assert_eq!(r, before - model.len(), "view remove_matching {ctx}"); }
                        }
                        _ => {
                            // retain_matching through view: keep triples with object o
                            let mut v = DatasetGraph::new(&mut ds, g.clone());
                            v.retain_matching(Any, Any, [o.clone()]).unwrap();
                            let gk = gkey(g.as_ref());
                            let ok = key(&o);
                            model.retain(|q| !(q.0 == gk && q.1[2] != ok));
                        }
                    }
                    check_views!(ds, model, $is_set, ctx);
                }
            }
        }
    };
}

run_dataset!(light, sophia_inmem::dataset::LightDataset, sophia_inmem::dataset::LightDataset::new(), true);
run_dataset!(fast, sophia_inmem::dataset::FastDataset, sophia_inmem::dataset::FastDataset::new(), true);
run_dataset!(small_fast, sophia_inmem::dataset::small::FastDataset, sophia_inmem::dataset::small::FastDataset::new(), true);
run_dataset!(vec_spog, Vec<Spog<T>>, Vec::new(), false);
run_dataset!(vec_gspo, Vec<Gspo<T>>, Vec::new(), false);
run_dataset!(hs_spog, HashSet<Spog<T>>, HashSet::new(), true);
run_dataset!(hs_gspo, HashSet<Gspo<T>>, HashSet::new(), true);
run_dataset!(bt_spog, BTreeSet<Spog<T>>, BTreeSet::new(), true);
run_dataset!(bt_gspo, BTreeSet<Gspo<T>>, BTreeSet::new(), true);

// ---------- graph as dataset ----------
type MT = [String; 3];
macro_rules! run_graph {
    ($name:ident, $ty:ty, $new:expr, $is_set:expr) => {
        #[test]
        fn $name() {
            for seed in 1..40u64 {
                let mut rng = Rng(seed.wrapping_mul(0x9E3779B97F4A7C15));
                let mut gr: $ty = $new;
                let mut model: BTreeSet<MT> = BTreeSet::new();
                let p = pool();
                let gp = gpool();
                for step in 0..60 {
                    let s = rng.pick(&p).clone();
                    let pr = rng.pick(&p).clone();
                    let o = rng.pick(&p).clone();
                    let g = rng.pick(&gp).clone();
                    let mt: MT = [key(&s), key(&pr), key(&o)];
                    let op = rng.below(8);
                    let ctx = format!("seed={seed} step={step} op={op} t={:?} g={:?}", mt, g);
                    match op {
                        0 => {
                            let r = MutableGraph::insert(&mut gr, &s, &pr, &o).unwrap();
                            let e = model.insert(mt);
                            if $is_set { assert_eq!(r, e, "direct insert {ctx}"); }
                        }
                        1 => {
                            let r = MutableGraph::remove(&mut gr, &s, &pr, &o).unwrap();
                            let e = model.remove(&mt);
                            if $is_set { assert_eq!(r, e, "direct remove {ctx}"); }
                        }
                        2 | 3 => {
                            let mut v = gr.as_dataset_mut();
                            let r = MutableDataset::insert(&mut v, &s, &pr, &o, g.as_ref());
                            if g.is_none() {
                                let e = model.insert(mt);
                                if $is_set { assert_eq!(r.unwrap(), e, "view insert {ctx}"); }
                            } else {
                                assert!(r.is_err(), "view insert named {ctx}");
                            }
                        }
                        4 | 5 => {
                            let mut v = gr.as_dataset_mut();
                            let r = MutableDataset::remove(&mut v, &s, &pr, &o, g.as_ref()).unwrap();
                            if g.is_none() {
                                let e = model.remove(&mt);
                                if $is_set { assert_eq!(r, e, "view remove {ctx}"); }
                            } else {
                                assert!(!r, "view remove named {ctx}");
                            }
                        }
                        6 => {
                            let mut v = gr.as_dataset_mut();
                            let qs = vec![([s.clone(), pr.clone(), o.clone()], None::<T>), ([o.clone(), pr.clone(), s.clone()], None)];
                            let r = v.insert_all(qs.into_iter().into_source()).unwrap();
                            let mut c = 0;
                            if model.insert(mt.clone()) { c += 1; }
                            if model.insert([mt[2].clone(), mt[1].clone(), mt[0].clone()]) { c += 1; }
                            if $is_set { assert_eq!(r, c, "view insert_all {ctx}"); }
                        }
                        _ => {
                            let mut v = gr.as_dataset_mut();
                            let qs = vec![([s.clone(), pr.clone(), o.clone()], g.clone()), ([o.clone(), pr.clone(), s.clone()], None)];
                            let r = v.remove_all(qs.into_iter().into_source()).unwrap();
                            let mut c = 0;
                            if g.is_none() && model.remove(&mt) { c += 1; }
                            if model.remove(&[mt[2].clone(), mt[1].clone(), mt[0].clone()]) { c += 1; }
                            if $is_set { assert_eq!(r, c, "view remove_all {ctx}"); }
                        }
                    }
                    // checks
                    let got = triples_of(&gr);
                    let got = if $is_set { got } else { dedup(got) };
                    let exp: Vec<MT> = model.iter().cloned().collect();
                    assert_eq!(got, exp, "graph vs model {ctx}");
                    let d = gr.as_dataset();
                    let q = quads_of(&d);
                    let q = if $is_set { q } else { dedup(q) };
                    let eq: Vec<MQ> = exp.iter().map(|t| (None, t.clone())).collect();
                    assert_eq!(q, eq, "as_dataset {ctx}");
                    assert_eq!(d.graph_names().count(), 0);
                    for g in gpool() {
                        let v = DatasetGraph::new(&d, g.clone());
                        let got = dedup(triples_of(&v));
                        if g.is_none() { assert_eq!(got, exp, "ds graph None {ctx}"); } else { assert!(got.is_empty(), "ds graph {:?} {ctx}", g); }
                        for t in pool() {
                            let tk = key(&t);
                            let got: Vec<MQ> = dedup(d.quads_matching(Any, Any, [t.clone()], [g.clone()]).map(|q| { let q = q.unwrap(); (gkey(q.g()), [key(q.s()), key(q.p()), key(q.o())]) }).collect());
                            let e: Vec<MQ> = if g.is_none() { eq.iter().filter(|q| q.1[2] == tk).cloned().collect() } else { vec![] };
                            assert_eq!(got, e, "as_dataset qm {ctx}");
                            let c = d.contains(&s, &pr, &t, g.as_ref()).unwrap();
                            let e = g.is_none() && model.contains(&[key(&s), key(&pr), tk.clone()]);
                            assert_eq!(c, e, "as_dataset contains {ctx}");
                        }
                    }
                    let u = dedup(triples_of(&d.union_graph()));
                    assert_eq!(u, exp, "as_dataset union {ctx}");
                    let pu = dedup(triples_of(&d.partial_union_graph(Some(TermKind::Iri))));
                    assert!(pu.is_empty());
                    let pu = dedup(triples_of(&d.partial_union_graph(|g: Option<SimpleTerm>| g.is_none())));
                    assert_eq!(pu, exp, "as_dataset partial union {ctx}");
                    let pu = dedup(triples_of(&d.partial_union_graph(Not(|g: Option<SimpleTerm>| g.is_some()).matcher_ref())));
                    assert_eq!(pu, exp, "as_dataset partial union Not {ctx}");
                }
            }
        }
    };
}
run_graph!(g_light, sophia_inmem::graph::LightGraph, sophia_inmem::graph::LightGraph::new(), true);
run_graph!(g_fast, sophia_inmem::graph::FastGraph, sophia_inmem::graph::FastGraph::new(), true);
run_graph!(g_vec, Vec<[T;3]>, Vec::new(), false);
run_graph!(g_hs, HashSet<[T;3]>, HashSet::new(), true);
run_graph!(g_bt, BTreeSet<[T;3]>, BTreeSet::new(), true);
