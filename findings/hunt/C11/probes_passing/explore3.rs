use sophia_api::dataset::{Dataset, MutableDataset};
use sophia_api::graph::adapter::DatasetGraph;
use sophia_api::graph::{Graph, MutableGraph};
use sophia_api::prelude::*;
use sophia_api::term::SimpleTerm;
type T = SimpleTerm<'static>;

#[test]
fn nested() {
    let mut g: Vec<[T; 3]> = vec![];
    let p = Iri::new_unchecked("http://ex/p");
    {
        let mut d = g.as_dataset_mut();
        let mut v = DatasetGraph::new(&mut d, None::<T>);
        assert!(v.insert(p, p, 1).unwrap());
    }
    assert_eq!(g.len(), 1);
    let d = g.as_dataset();
    assert_eq!(DatasetGraph::new(&d, None::<T>).triples().count(), 1);
    assert_eq!(DatasetGraph::new(&d, Some(p)).triples().count(), 0);
    assert_eq!(d.union_graph().triples().count(), 1);

    let mut ds: Vec<([T; 3], Option<T>)> = vec![];
    {
        let mut v = ds.graph_mut(Some(p.into_term::<T>()));
        let mut vd = v.as_dataset_mut();
        {
        let mut vv = DatasetGraph::new(&mut vd, None::<T>);
        assert!(vv.insert(p, p, 2).unwrap());
        }
        assert!(vd.insert(p, p, 3, Some(p)).is_err());
    }
    assert_eq!(ds.len(), 1);
    assert!(ds.contains(p, p, 2, Some(p)).unwrap());
}
