#![allow(dead_code, unused_imports)]
include!("explore.rs");

macro_rules! run_pu {
    ($name:ident, $ty:ty, $new:expr) => {
        #[test]
        fn $name() {
            for seed in 1..30u64 {
                let mut rng = Rng(seed.wrapping_mul(0x9E3779B97F4A7C15));
                let mut ds: $ty = $new;
                let mut model = Model::new();
                let p = pool();
                let gp = gpool();
                for _ in 0..80 {
                    let s = rng.pick(&p[..4]).clone();
                    let pr = rng.pick(&p[..3]).clone();
                    let o = rng.pick(&p[5..12]).clone();
                    let g = rng.pick(&gp[..5]).clone();
                    let mq: MQ = (gkey(g.as_ref()), [key(&s), key(&pr), key(&o)]);
                    if rng.below(4) == 0 {
                        MutableDataset::remove(&mut ds, &s, &pr, &o, g.as_ref()).unwrap();
                        model.remove(&mq);
                    } else {
                        MutableDataset::insert(&mut ds, &s, &pr, &o, g.as_ref()).unwrap();
                        model.insert(mq);
                    }
                }
                let sel = [gp[1].clone(), gp[3].clone(), None, gp[8].clone()];
                let selk: Vec<_> = sel.iter().map(|g| gkey(g.as_ref())).collect();
                let view = ds.partial_union_graph(&sel[..]);
                let view2 = ds.partial_union_graph(|g: Option<SimpleTerm>| g.map(|t| t.is_blank_node()).unwrap_or(true));
                for s in &p[..5] { for pr in &p[..4] { for o in &p[4..13] {
                    for mask in 0..8u8 {
                        let exp = |in_sel: &dyn Fn(&Option<String>) -> bool| {
                            let mut v: Vec<[String;3]> = model.iter().filter(|q| in_sel(&q.0)
                                && (mask & 1 == 0 || q.1[0] == key(s))
                                && (mask & 2 == 0 || q.1[1] == key(pr))
                                && (mask & 4 == 0 || q.1[2] == key(o))).map(|q| q.1.clone()).collect();
                            v.sort(); v
                        };
                        macro_rules! q {
                            ($v:expr) => {{
                                let sm: Vec<T> = if mask & 1 != 0 { vec![s.clone()] } else { vec![] };
                                let pm: Vec<T> = if mask & 2 != 0 { vec![pr.clone()] } else { vec![] };
                                let om: Vec<T> = if mask & 4 != 0 { vec![o.clone()] } else { vec![] };
                                let mut v: Vec<[String;3]> = match mask {
                                    0 => $v.triples_matching(Any, Any, Any).map(|t| {let t=t.unwrap(); [key(t.s()), key(t.p()), key(t.o())]}).collect(),
                                    1 => $v.triples_matching(&sm[..], Any, Any).map(|t| {let t=t.unwrap(); [key(t.s()), key(t.p()), key(t.o())]}).collect(),
                                    2 => $v.triples_matching(Any, &pm[..], Any).map(|t| {let t=t.unwrap(); [key(t.s()), key(t.p()), key(t.o())]}).collect(),
                                    3 => $v.triples_matching(&sm[..], &pm[..], Any).map(|t| {let t=t.unwrap(); [key(t.s()), key(t.p()), key(t.o())]}).collect(),
                                    4 => $v.triples_matching(Any, Any, &om[..]).map(|t| {let t=t.unwrap(); [key(t.s()), key(t.p()), key(t.o())]}).collect(),
                                    5 => $v.triples_matching(&sm[..], Any, &om[..]).map(|t| {let t=t.unwrap(); [key(t.s()), key(t.p()), key(t.o())]}).collect(),
                                    6 => $v.triples_matching(Any, &pm[..], &om[..]).map(|t| {let t=t.unwrap(); [key(t.s()), key(t.p()), key(t.o())]}).collect(),
                                    _ => $v.triples_matching(&sm[..], &pm[..], &om[..]).map(|t| {let t=t.unwrap(); [key(t.s()), key(t.p()), key(t.o())]}).collect(),
                                };
                                v.sort(); v
                            }};
                        }
                        assert_eq!(q!(view), exp(&|g| selk.contains(g)), "sel seed={seed} mask={mask}");
                        assert_eq!(q!(view2), exp(&|g| g.as_ref().map(|k| k.starts_with("_:")).unwrap_or(true)), "closure seed={seed} mask={mask}");
                        assert_eq!(q!(ds.union_graph()), exp(&|_| true), "union seed={seed} mask={mask}");
                    }
                }}}
            }
        }
    };
}
run_pu!(pu_light, sophia_inmem::dataset::LightDataset, sophia_inmem::dataset::LightDataset::new());
run_pu!(pu_fast, sophia_inmem::dataset::FastDataset, sophia_inmem::dataset::FastDataset::new());
run_pu!(pu_hs, HashSet<Spog<T>>, HashSet::new());
