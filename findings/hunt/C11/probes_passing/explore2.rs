#![allow(dead_code, unused_imports)]
use sophia_api::dataset::{Dataset, MutableDataset};
use sophia_api::graph::adapter::DatasetGraph;
use sophia_api::graph::{Graph, MutableGraph};
use sophia_api::prelude::*;
use sophia_api::term::SimpleTerm;
use sophia_inmem::dataset::small::{FastDataset, LightDataset};

#[test]
fn full_index_through_view() {
    let mut ds = LightDataset::new();
    let g: Option<SimpleTerm<'static>> = Some(Iri::new_unchecked("http://ex/g").into_term());
    let p = Iri::new_unchecked("http://ex/p");
    let mut n_ok = 0usize;
    let mut first_err = None;
    for i in 0..70000i32 {
        let mut v = ds.graph_mut(g.clone());
        match v.insert(p, p, i) {
            Ok(b) => { assert!(b); n_ok += 1; }
            Err(_) => { first_err = Some(i); break; }
        }
    }
    println!("n_ok={n_ok} first_err={first_err:?}");
    assert_eq!(ds.quads().count(), n_ok);
    assert_eq!(ds.graph(g.clone()).triples().count(), n_ok);
    assert_eq!(ds.graph(None::<SimpleTerm<'static>>).triples().count(), 0);
    assert_eq!(ds.union_graph().triples().count(), n_ok);
    // the last one inserted
    let last = (n_ok - 1) as i32;
    assert!(ds.graph(g.clone()).contains(p, p, last).unwrap());
    assert_eq!(ds.graph(g.clone()).triples_matching(Any, Any, [last]).count(), 1);
    assert_eq!(ds.graph(g.clone()).triples_matching([p], Any, Any).count(), n_ok);
    assert_eq!(ds.graph(g.clone()).triples_matching(Any, [p], Any).count(), n_ok);
    // default graph insert of existing terms is still possible
    assert!(ds.graph_mut(None::<SimpleTerm<'static>>).insert(p, p, last).unwrap());
    assert_eq!(ds.graph(None::<SimpleTerm<'static>>).triples().count(), 1);
    assert_eq!(ds.graph(g.clone()).triples().count(), n_ok);
    assert_eq!(ds.quads_matching(Any, Any, [last], Any).count(), 2);
    assert_eq!(ds.union_graph().triples_matching(Any, Any, [last]).count(), 2);
}

#[test]
fn full_index_through_view_fast() {
    let mut ds = FastDataset::new();
    let g: Option<SimpleTerm<'static>> = Some(Iri::new_unchecked("http://ex/g").into_term());
    let p = Iri::new_unchecked("http://ex/p");
    let mut n_ok = 0usize;
    for i in 0..70000i32 {
        let mut v = ds.graph_mut(g.clone());
        match v.insert(i, p, p) {
            Ok(b) => { assert!(b); n_ok += 1; }
            Err(_) => { break; }
        }
    }
    assert_eq!(ds.quads().count(), n_ok);
    assert_eq!(ds.graph(g.clone()).triples().count(), n_ok);
    let last = (n_ok - 1) as i32;
    assert!(ds.graph_mut(None::<SimpleTerm<'static>>).insert(last, p, p).unwrap());
    assert_eq!(ds.quads_matching([last], Any, Any, Any).count(), 2);
    assert_eq!(ds.quads_matching([last], [p], Any, Any).count(), 2);
    assert_eq!(ds.quads_matching([last], [p], [p], Any).count(), 2);
    assert_eq!(ds.quads_matching(Any, [p], [p], Any).count(), n_ok + 1);
    assert_eq!(ds.quads_matching(Any, Any, [p], Any).count(), n_ok + 1);
    assert_eq!(ds.union_graph().triples_matching([last], Any, Any).count(), 2);
    assert_eq!(ds.graph(None::<SimpleTerm<'static>>).triples_matching([last], Any, Any).count(), 1);
    assert_eq!(ds.graph(g.clone()).triples_matching([last], Any, Any).count(), 1);
}

#[test]
fn clone_history() {
    let mut ds = FastDataset::new();
    let g: Option<SimpleTerm<'static>> = Some(Iri::new_unchecked("http://ex/g").into_term());
    let p = Iri::new_unchecked("http://ex/p");
    ds.graph_mut(g.clone()).insert(p, p, 1).unwrap();
    let mut c = ds.clone();
    drop(ds);
    c.graph_mut(g.clone()).insert(p, p, 2).unwrap();
    c.graph_mut(None::<SimpleTerm<'static>>).insert(p, p, 1).unwrap();
    assert_eq!(c.graph(g.clone()).triples().count(), 2);
    assert_eq!(c.union_graph().triples().count(), 3);
    let u = c.into_union_graph();
    assert_eq!(u.triples().count(), 3);
}
