//! hunt C11 / 2 -- drop into `inmem/tests/hunt_C11_2.rs`, run with
//! `cargo test -p sophia_inmem --test hunt_C11_2 --offline`
//!
//! Property C11: removing through a mutable view (here: a graph viewed as a dataset with
//! `Graph::as_dataset_mut` / `into_dataset`) changes the underlying store exactly like the direct
//! operation, for all mutation histories.
//!
//! `MutableDataset::remove_matching` and `MutableDataset::retain_matching` are two of the mutations of
//! the `MutableDataset` interface. Both carry the bound `Self::MutationError: From<Self::Error>`.
//! For `GraphAsDataset<G>` the mutation error is `GraphAsDatasetMutationError<G::MutationError>`,
//! which implements `From<_>` for nothing, so the bound can never be met:
//! the two operations can not be applied through the view of ANY graph type
//! (this file does not compile on the current code, error E0277
//! "the trait bound `GraphAsDatasetMutationError<Infallible>: From<Infallible>` is not satisfied").
//!
//! Expected (according to C11): the tests compile and pass --
//! `remove_matching` through the view removes exactly the matching triples of the wrapped graph
//! and returns their number (as `MutableGraph::remove_matching` does directly), a matcher that only selects named
//! graphs removes nothing, and `retain_matching` keeps exactly the matching triples.

use sophia_api::dataset::MutableDataset;
use sophia_api::graph::{Graph, MutableGraph};
use sophia_api::prelude::*;
use sophia_api::term::SimpleTerm;
use sophia_inmem::graph::FastGraph;
use std::collections::HashSet;

type T = SimpleTerm<'static>;
const P: Iri<&str> = Iri::new_unchecked_const("http://example.org/p");
const Q: Iri<&str> = Iri::new_unchecked_const("http://example.org/q");

#[test]
fn remove_matching_through_as_dataset_mut() {
    let mut g: HashSet<[T; 3]> = HashSet::new();
    g.insert_triple([P, P, P]).unwrap();
    g.insert_triple([P, Q, P]).unwrap();
    g.insert_triple([Q, Q, P]).unwrap();

    // same effect and same count as `g.remove_matching([P], Any, Any)`
    let n = g
        .as_dataset_mut()
        .remove_matching([P], Any, Any, Any)
        .unwrap();
    assert_eq!(n, 2);
    assert_eq!(g.len(), 1);
    assert!(Graph::contains(&g, Q, Q, P).unwrap());

    // the view only has a default graph: selecting IRI-named graphs removes nothing
    let n = g
        .as_dataset_mut()
        .remove_matching(Any, Any, Any, Some(TermKind::Iri))
        .unwrap();
    assert_eq!(n, 0);
    assert_eq!(g.len(), 1);
}

#[test]
fn retain_matching_through_into_dataset() {
    let mut g = FastGraph::new();
    g.insert_triple([P, P, P]).unwrap();
    g.insert_triple([P, Q, P]).unwrap();
    g.insert_triple([Q, Q, P]).unwrap();

    let mut d = g.into_dataset();
    d.retain_matching([P], Any, Any, Any).unwrap();
    let g = d.unwrap();
    assert_eq!(g.triples().count(), 2);
    assert!(!g.contains(Q, Q, P).unwrap());
}
