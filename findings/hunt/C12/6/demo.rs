//! Hunt C12 / 6 -- a list nested in a list nested in a list ... a few hundred (debug build) or a
//! few thousand (release build) times makes the serializer overflow its stack: the process is
//! aborted (SIGABRT, not a panic, not an error).
//!
//! Drop into `sophia/tests/hunt_C12_6.rs` and run
//! `cargo test -p sophia --features jsonld --test hunt_C12_6 --offline`
//! (the control alone: `... --test hunt_C12_6 --offline -- control`)
//!
//! Property C12: serialising ANY dataset whose quads JSON-LD can express, and parsing the result
//! back, gives an isomorphic dataset, in every processing mode.
//!
//! In mode 1.1 a list that is the rdf:first of a list node is folded into a nested `@list`.
//! `Engine::convert_rdf_object` -> `Engine::populate_list` -> `Engine::convert_rdf_object` ...
//! recurse once per nesting level (two big stack frames per level: ~8 kB in a debug build),
//! without any bound: the walk along rdf:rest was made iterative, the walk along rdf:first was not.
//! The dataset below has 2 quads per level and nothing unusual but its depth.
//! In mode 1.0 (no list of lists) the same dataset is written flat, and read back, without trouble.

use sophia::api::ns::rdf;
use sophia::api::prelude::*;
use sophia::api::quad::Spog;
use sophia::api::term::{BnodeId, IriRef, SimpleTerm};
use sophia::jsonld::options::ProcessingMode;
use sophia::jsonld::{JsonLdOptions, JsonLdParser, JsonLdStringifier};
use std::collections::HashSet;

type Ds = HashSet<Spog<SimpleTerm<'static>>>;

const DEPTH: usize = 5000;

/// `<tag:s> <tag:p> ( ( ( ... ( <tag:s> ) ... ) ) )`, `depth` pairs of parentheses.
fn nested_list(depth: usize) -> Ds {
    let s = SimpleTerm::Iri(IriRef::new_unchecked("tag:s".into()));
    let p = SimpleTerm::Iri(IriRef::new_unchecked("tag:p".into()));
    let bn = |i: usize| SimpleTerm::BlankNode(BnodeId::new_unchecked(format!("l{i}").into()));
    let mut d = Ds::new();
    d.insert(([s.clone(), p, bn(0)], None));
    for i in 0..depth {
        let item = if i + 1 < depth { bn(i + 1) } else { s.clone() };
        d.insert(([bn(i), rdf::first.into_term(), item], None));
        d.insert(([bn(i), rdf::rest.into_term(), rdf::nil.into_term()], None));
    }
    d
}

/// Runs on a thread with the default stack size of Rust threads (2 MiB), whatever RUST_MIN_STACK.
fn serialize(d: Ds, mode: ProcessingMode) -> Result<String, String> {
    std::thread::Builder::new()
        .stack_size(2 * 1024 * 1024)
        .spawn(move || {
            let opts = JsonLdOptions::new().with_processing_mode(mode);
            let mut ser = JsonLdStringifier::new_stringifier_with_options(opts);
            match ser.serialize_dataset(&d) {
                Ok(ser) => Ok(ser.to_string()),
                Err(e) => Err(e.to_string()),
            }
        })
        .unwrap()
        .join()
        .unwrap()
}

/// Expected: a JSON-LD document (or, at the very least, an `Err`) -- not the death of the process.
/// Observed: "thread '<unknown>' has overflowed its stack / fatal runtime error: stack overflow",
/// the test binary is killed by SIGABRT.
#[test]
fn deeply_nested_list_is_serialized_in_mode_1_1() {
    let d = nested_list(DEPTH);
    let n = d.len();
    let json = serialize(d, ProcessingMode::JsonLd1_1).expect("serialization failed");
    assert!(!json.is_empty());
    // NB: reading such a document back is another story (json-ld 0.15 recurses as well)
    println!("{n} quads serialized as {} bytes", json.len());
}

/// Control: mode 1.0 does not nest lists; the same dataset is written and read back.
#[test]
fn control_same_dataset_in_mode_1_0() {
    let d = nested_list(DEPTH);
    let n = d.len();
    let json = serialize(d, ProcessingMode::JsonLd1_0).expect("serialization failed");
    let opts = JsonLdOptions::new().with_processing_mode(ProcessingMode::JsonLd1_0);
    let d2: Ds = JsonLdParser::new_with_options(opts)
        .parse_str(&json)
        .collect_quads()
        .unwrap();
    assert_eq!(d2.len(), n);
}
