//! Hunt C12 / 4 -- a canonical rdf:JSON literal whose object keys contain a character outside the
//! BMP comes back with its keys in another order (that is, as another literal).
//!
//! Drop into `sophia/tests/hunt_C12_4.rs` and run
//! `cargo test -p sophia --features jsonld --test hunt_C12_4 --offline`
//!
//! Property C12: serialising a dataset as JSON-LD and parsing it back gives an isomorphic dataset,
//! for (among others) "rdf:JSON literals in canonical form".
//!
//! The canonical form of an rdf:JSON literal is the JSON Canonicalization Scheme (RFC 8785),
//! which sorts the keys of an object by their UTF-16 code units: "😀" (U+1F600, i.e. D83D DE00)
//! comes BEFORE "דּ" (U+FB33). The literal below is therefore in canonical form (the second test
//! uses the very example of RFC 8785, section 3.2.3). The serializer embeds it correctly as a
//! `@json` value. The parser (json-ld 0.15 / json-syntax 0.9 `Object::canonicalize`, which sorts
//! with the `Ord` of `str`, i.e. by code point) re-orders the keys, and yields a literal with a
//! different lexical form, which is a different RDF term.

use sophia::api::prelude::*;
use sophia::api::quad::Spog;
use sophia::api::term::SimpleTerm;
use sophia::isomorphism::isomorphic_datasets;
use sophia::jsonld::options::ProcessingMode;
use sophia::jsonld::{JsonLdOptions, JsonLdParser, JsonLdStringifier};
use sophia::turtle::parser::nq;
use std::collections::HashSet;

type Ds = HashSet<Spog<SimpleTerm<'static>>>;

const RDF: &str = "http://www.w3.org/1999/02/22-rdf-syntax-ns#";

/// Parse N-Quads (`rdf:` is expanded for readability).
fn load(src: &str) -> Ds {
    let src = src.replace("rdf:", RDF);
    nq::parse_str(&src).collect_quads().unwrap()
}

fn dump(d: &Ds) -> String {
    let mut lines: Vec<String> = d.iter().map(|q| format!("    {q:?}")).collect();
    lines.sort();
    lines.join("\n")
}

/// Serialise `d1` as JSON-LD, parse the result back (same options on both sides),
/// and require the outcome to be isomorphic to `d1` (this is property C12).
fn assert_roundtrip(d1: &Ds, mode: ProcessingMode, use_rdf_type: bool, spaces: u16) {
    let opts = || {
        JsonLdOptions::new()
            .with_processing_mode(mode)
            .with_use_rdf_type(use_rdf_type)
            .with_spaces(spaces)
    };
    let mut ser = JsonLdStringifier::new_stringifier_with_options(opts());
    let json = ser.serialize_dataset(d1).unwrap().to_string();
    let d2: Ds = JsonLdParser::new_with_options(opts())
        .parse_str(&json)
        .collect_quads()
        .unwrap();
    assert!(
        isomorphic_datasets(d1, &d2).unwrap(),
        "round-trip is not isomorphic [{mode:?}, use_rdf_type={use_rdf_type}, spaces={spaces}]\n  input ({} quads):\n{}\n  JSON-LD: {json}\n  parsed back ({} quads):\n{}",
        d1.len(),
        dump(d1),
        d2.len(),
        dump(&d2),
    );
}

/// All the lossless configurations named by the property.
fn assert_roundtrip_everywhere(src: &str) {
    let d1 = load(src);
    for mode in [ProcessingMode::JsonLd1_0, ProcessingMode::JsonLd1_1] {
        for use_rdf_type in [false, true] {
            for spaces in [0, 2] {
                assert_roundtrip(&d1, mode, use_rdf_type, spaces);
            }
        }
    }
}

use sophia::api::term::IriRef;

fn json_literal_dataset(lex: &str) -> Ds {
    let s = SimpleTerm::Iri(IriRef::new_unchecked("tag:s".into()));
    let p = SimpleTerm::Iri(IriRef::new_unchecked("tag:p".into()));
    let o = SimpleTerm::LiteralDatatype(
        lex.to_string().into(),
        IriRef::new_unchecked(format!("{RDF}JSON").into()),
    );
    [([s, p, o], None)].into_iter().collect()
}

/// Expected: the canonical literal `{"😀":1,"דּ":2}` is unchanged by the round-trip.
#[test]
fn canonical_json_literal_with_astral_key() {
    let d = json_literal_dataset("{\"\u{1F600}\":1,\"\u{FB33}\":2}");
    for mode in [ProcessingMode::JsonLd1_0, ProcessingMode::JsonLd1_1] {
        assert_roundtrip(&d, mode, false, 0);
    }
}

/// The example of RFC 8785, section 3.2.3 (keys in the order the RFC gives as the expected one).
#[test]
fn rfc8785_sorting_example() {
    let d = json_literal_dataset(
        "{\"\\r\":\"Carriage Return\",\"1\":\"One\",\"\u{80}\":\"Control\",\"\u{F6}\":\"Latin Small Letter O With Diaeresis\",\"\u{20AC}\":\"Euro Sign\",\"\u{1F600}\":\"Emoji: Grinning Face\",\"\u{FB33}\":\"Hebrew Letter Dalet With Dagesh\"}",
    );
    assert_roundtrip(&d, ProcessingMode::JsonLd1_1, false, 0);
}

/// Control: canonical literals whose keys are all in the BMP round-trip.
#[test]
fn control_bmp_keys() {
    let d = json_literal_dataset("{\"\\r\":2,\"1\":4,\"\u{80}\":6,\"\u{F6}\":7,\"\u{20AC}\":1,\"\u{FB33}\":3}");
    assert_roundtrip(&d, ProcessingMode::JsonLd1_1, false, 0);
    let d = json_literal_dataset("[1e+30,\"\u{1F600}\",{\"a\":[null,true,4.5]}]");
    assert_roundtrip(&d, ProcessingMode::JsonLd1_1, false, 0);
}
