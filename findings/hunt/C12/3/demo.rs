//! Hunt C12 / 3 -- a blank node whose label contains a dot (`_:a.b`) comes back as an IRI.
//!
//! Drop into `sophia/tests/hunt_C12_3.rs` and run
//! `cargo test -p sophia --features jsonld --test hunt_C12_3 --offline`
//!
//! Property C12: serialising a dataset as JSON-LD and parsing it back gives an isomorphic dataset
//! (IRI or blank subjects and graph names, any object).
//!
//! `_:a.b` is a legal blank node label (`BLANK_NODE_LABEL ::= '_:' (PN_CHARS_U | [0-9])
//! ((PN_CHARS | '.')* PN_CHARS)?` in N-Triples, N-Quads, Turtle, TriG, and hence in JSON-LD,
//! which refers to that production); `BnodeId::new("a.b")` accepts it and the N-Quads parser
//! produces it. The serializer writes `"@id": "_:a.b"`, which is right.
//! The parser (json-ld 0.15 through `rdf_types::BlankId::new`, whose `check` function forgets the
//! `'.'` of the production) does not recognise `_:a.b` as a blank node identifier, takes it for a
//! relative IRI reference, and resolves it against the base: the blank node becomes the IRI
//! `<x-string:///_:a.b>` -- silently, as a subject, as an object and as a graph name.

use sophia::api::prelude::*;
use sophia::api::quad::Spog;
use sophia::api::term::SimpleTerm;
use sophia::isomorphism::isomorphic_datasets;
use sophia::jsonld::options::ProcessingMode;
use sophia::jsonld::{JsonLdOptions, JsonLdParser, JsonLdStringifier};
use sophia::turtle::parser::nq;
use std::collections::HashSet;

type Ds = HashSet<Spog<SimpleTerm<'static>>>;

const RDF: &str = "http://www.w3.org/1999/02/22-rdf-syntax-ns#";

/// Parse N-Quads (`rdf:` is expanded for readability).
fn load(src: &str) -> Ds {
    let src = src.replace("rdf:", RDF);
    nq::parse_str(&src).collect_quads().unwrap()
}

fn dump(d: &Ds) -> String {
    let mut lines: Vec<String> = d.iter().map(|q| format!("    {q:?}")).collect();
    lines.sort();
    lines.join("\n")
}

/// Serialise `d1` as JSON-LD, parse the result back (same options on both sides),
/// and require the outcome to be isomorphic to `d1` (this is property C12).
fn assert_roundtrip(d1: &Ds, mode: ProcessingMode, use_rdf_type: bool, spaces: u16) {
    let opts = || {
        JsonLdOptions::new()
            .with_processing_mode(mode)
            .with_use_rdf_type(use_rdf_type)
            .with_spaces(spaces)
    };
    let mut ser = JsonLdStringifier::new_stringifier_with_options(opts());
    let json = ser.serialize_dataset(d1).unwrap().to_string();
    let d2: Ds = JsonLdParser::new_with_options(opts())
        .parse_str(&json)
        .collect_quads()
        .unwrap();
    assert!(
        isomorphic_datasets(d1, &d2).unwrap(),
        "round-trip is not isomorphic [{mode:?}, use_rdf_type={use_rdf_type}, spaces={spaces}]\n  input ({} quads):\n{}\n  JSON-LD: {json}\n  parsed back ({} quads):\n{}",
        d1.len(),
        dump(d1),
        d2.len(),
        dump(&d2),
    );
}

/// All the lossless configurations named by the property.
fn assert_roundtrip_everywhere(src: &str) {
    let d1 = load(src);
    for mode in [ProcessingMode::JsonLd1_0, ProcessingMode::JsonLd1_1] {
        for use_rdf_type in [false, true] {
            for spaces in [0, 2] {
                assert_roundtrip(&d1, mode, use_rdf_type, spaces);
            }
        }
    }
}

fn assert_no_bnode_turned_into_iri(src: &str) {
    let d1 = load(src);
    let mut ser = JsonLdStringifier::new_stringifier();
    let json = ser.serialize_dataset(&d1).unwrap().to_string();
    let d2: Ds = JsonLdParser::new().parse_str(&json).collect_quads().unwrap();
    for q in &d2 {
        let (spo, g) = q;
        for t in spo.iter().chain(g.iter()) {
            if let Some(iri) = t.iri() {
                assert!(
                    !iri.as_str().contains("_:"),
                    "blank node parsed back as the IRI <{}>\n  JSON-LD: {json}",
                    iri.as_str()
                );
            }
        }
    }
}

/// Expected: `_:a.b` is still a blank node after the round-trip.
#[test]
fn dotted_blank_node_as_subject() {
    let src = r#"_:a.b <tag:p> "x" ."#;
    assert_no_bnode_turned_into_iri(src);
    assert_roundtrip_everywhere(src);
}

#[test]
fn dotted_blank_node_as_object() {
    let src = r#"<tag:s> <tag:p> _:a.b ."#;
    assert_no_bnode_turned_into_iri(src);
    assert_roundtrip_everywhere(src);
}

#[test]
fn dotted_blank_node_as_graph_name() {
    let src = r#"<tag:s> <tag:p> <tag:o> _:a.b ."#;
    assert_no_bnode_turned_into_iri(src);
    assert_roundtrip_everywhere(src);
}

/// The worst case: the dataset already contains the IRI the blank node is turned into;
/// two different terms are merged, and a quad disappears.
#[test]
fn dotted_blank_node_merged_with_an_existing_iri() {
    let src = r#"
        _:a.b <tag:p> "x" .
        <x-string:///_:a.b> <tag:p> "x" .
    "#;
    assert_roundtrip_everywhere(src);
}

/// Control: the other characters allowed in a label are fine.
#[test]
fn control_other_labels() {
    assert_roundtrip_everywhere(
        r#"
        _:a-b <tag:p> _:1a .
        _:a·b <tag:p> _:é <tag:g> .
        _:_x <tag:p> _:a1 _:g-1 .
    "#,
    );
}
