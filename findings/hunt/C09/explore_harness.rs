// Exploration harness (temporary).
use sophia_iri::resolve::{BaseIri, BaseIriRef};
use sophia_iri::*;
use std::collections::BTreeMap;
use std::panic::{AssertUnwindSafe, catch_unwind};

// ---------- reference recogniser for RFC 3987 ----------

fn is_ucschar(c: char) -> bool {
    let c = c as u32;
    (0xA0..=0xD7FF).contains(&c)
        || (0xF900..=0xFDCF).contains(&c)
        || (0xFDF0..=0xFFEF).contains(&c)
        || ((0x10000..=0xEFFFD).contains(&c) && (c & 0xFFFF) <= 0xFFFD && !(0xE0000..=0xE0FFF).contains(&c))
}
fn is_iprivate(c: char) -> bool {
    let c = c as u32;
    (0xE000..=0xF8FF).contains(&c) || (0xF0000..=0xFFFFD).contains(&c) || (0x100000..=0x10FFFD).contains(&c)
}
fn is_unreserved(c: char) -> bool {
    c.is_ascii_alphanumeric() || matches!(c, '-' | '.' | '_' | '~')
}
fn is_iunreserved(c: char) -> bool {
    is_unreserved(c) || is_ucschar(c)
}
fn is_sub_delim(c: char) -> bool {
    matches!(c, '!' | '$' | '&' | '\'' | '(' | ')' | '*' | '+' | ',' | ';' | '=')
}
/// checks that s is a sequence of (chars satisfying f | pct-encoded)
fn seq(s: &str, f: impl Fn(char) -> bool) -> bool {
    let cs: Vec<char> = s.chars().collect();
    let mut i = 0;
    while i < cs.len() {
        if cs[i] == '%' {
            if i + 2 < cs.len() + 0 && cs[i + 1].is_ascii_hexdigit() && cs[i + 2].is_ascii_hexdigit() {
                i += 3;
                continue;
            }
            return false;
        }
        if !f(cs[i]) {
            return false;
        }
        i += 1;
    }
    true
}
fn ipchar(c: char) -> bool {
    is_iunreserved(c) || is_sub_delim(c) || c == ':' || c == '@'
}
fn dec_octet(s: &str) -> bool {
    if s.is_empty() || s.len() > 3 || !s.chars().all(|c| c.is_ascii_digit()) {
        return false;
    }
    if s.len() > 1 && s.starts_with('0') {
        return false;
    }
    s.parse::<u32>().unwrap() <= 255
}
fn ipv4(s: &str) -> bool {
    let p: Vec<&str> = s.split('.').collect();
    p.len() == 4 && p.iter().all(|x| dec_octet(x))
}
fn h16(s: &str) -> bool {
    (1..=4).contains(&s.len()) && s.chars().all(|c| c.is_ascii_hexdigit())
}
fn groups(s: &str, allow_v4: bool) -> Option<usize> {
    if s.is_empty() {
        return Some(0);
    }
    let p: Vec<&str> = s.split(':').collect();
    let mut n = 0;
    for (i, g) in p.iter().enumerate() {
        if h16(g) {
            n += 1;
        } else if allow_v4 && i == p.len() - 1 && ipv4(g) {
            n += 2;
        } else {
            return None;
        }
    }
    Some(n)
}
fn ipv6(s: &str) -> bool {
    if let Some(idx) = s.find("::") {
        let (l, r) = (&s[..idx], &s[idx + 2..]);
        if r.contains("::") {
            return false;
        }
        match (groups(l, false), groups(r, true)) {
            (Some(a), Some(b)) => a + b <= 7,
            _ => false,
        }
    } else {
        groups(s, true) == Some(8)
    }
}
fn ipvfuture(s: &str) -> bool {
    let mut cs = s.chars();
    if !matches!(cs.next(), Some('v' | 'V')) {
        return false;
    }
    let rest = cs.as_str();
    let Some(dot) = rest.find('.') else { return false };
    let (ver, tail) = (&rest[..dot], &rest[dot + 1..]);
    !ver.is_empty()
        && ver.chars().all(|c| c.is_ascii_hexdigit())
        && !tail.is_empty()
        && tail.chars().all(|c| is_unreserved(c) || is_sub_delim(c) || c == ':')
}
fn authority(s: &str) -> bool {
    let hostport = if let Some(at) = s.find('@') {
        if !seq(&s[..at], |c| is_iunreserved(c) || is_sub_delim(c) || c == ':') {
            return false;
        }
        &s[at + 1..]
    } else {
        s
    };
    let port;
    if hostport.starts_with('[') {
        let Some(close) = hostport.find(']') else { return false };
        let lit = &hostport[1..close];
        if !(ipv6(lit) || ipvfuture(lit)) {
            return false;
        }
        let rest = &hostport[close + 1..];
        if rest.is_empty() {
            return true;
        }
        if !rest.starts_with(':') {
            return false;
        }
        port = &rest[1..];
    } else if let Some(colon) = hostport.find(':') {
        if !seq(&hostport[..colon], |c| is_iunreserved(c) || is_sub_delim(c)) {
            return false;
        }
        port = &hostport[colon + 1..];
    } else {
        return seq(hostport, |c| is_iunreserved(c) || is_sub_delim(c));
    }
    port.chars().all(|c| c.is_ascii_digit())
}
/// hier-part / relative-part (without query and fragment)
fn part(s: &str, noscheme: bool) -> bool {
    if let Some(r) = s.strip_prefix("//") {
        let (auth, path) = match r.find('/') {
            Some(i) => (&r[..i], &r[i..]),
            None => (r, ""),
        };
        authority(auth) && path.split('/').all(|sg| seq(sg, ipchar))
    } else if s.starts_with('/') {
        s.split('/').all(|sg| seq(sg, ipchar))
    } else if s.is_empty() {
        true
    } else {
        let mut it = s.split('/');
        let first = it.next().unwrap();
        if first.is_empty() {
            return false;
        }
        if noscheme && first.contains(':') {
            return false;
        }
        seq(first, ipchar) && it.all(|sg| seq(sg, ipchar))
    }
}
fn split_qf(s: &str) -> Option<&str> {
    let (s, frag) = match s.find('#') {
        Some(i) => (&s[..i], Some(&s[i + 1..])),
        None => (s, None),
    };
    if let Some(f) = frag {
        if !seq(f, |c| ipchar(c) || c == '/' || c == '?') {
            return None;
        }
    }
    let (s, q) = match s.find('?') {
        Some(i) => (&s[..i], Some(&s[i + 1..])),
        None => (s, None),
    };
    if let Some(q) = q {
        if !seq(q, |c| ipchar(c) || is_iprivate(c) || c == '/' || c == '?') {
            return None;
        }
    }
    Some(s)
}
fn ref_is_iri(s: &str) -> bool {
    let Some(s) = split_qf(s) else { return false };
    let Some(colon) = s.find(':') else { return false };
    let sch = &s[..colon];
    let mut cs = sch.chars();
    if !cs.next().map_or(false, |c| c.is_ascii_alphabetic()) {
        return false;
    }
    if !cs.all(|c| c.is_ascii_alphanumeric() || matches!(c, '+' | '-' | '.')) {
        return false;
    }
    part(&s[colon + 1..], false)
}
fn ref_is_rel(s: &str) -> bool {
    let Some(s) = split_qf(s) else { return false };
    part(s, true)
}

// ---------- RFC 3986 5.2 reference resolution ----------
#[derive(Debug, Clone)]
struct Parts {
    scheme: Option<String>,
    authority: Option<String>,
    path: String,
    query: Option<String>,
    fragment: Option<String>,
}
fn split(s: &str) -> Parts {
    let (s, fragment) = match s.find('#') {
        Some(i) => (&s[..i], Some(s[i + 1..].to_string())),
        None => (s, None),
    };
    let (s, query) = match s.find('?') {
        Some(i) => (&s[..i], Some(s[i + 1..].to_string())),
        None => (s, None),
    };
    let (scheme, s) = match s.find(|c| matches!(c, ':' | '/')) {
        Some(i) if s.as_bytes()[i] == b':' && ref_is_iri(&format!("{}:", &s[..i])) => {
            (Some(s[..i].to_string()), &s[i + 1..])
        }
        _ => (None, s),
    };
    let (authority, path) = if let Some(r) = s.strip_prefix("//") {
        match r.find('/') {
            Some(i) => (Some(r[..i].to_string()), r[i..].to_string()),
            None => (Some(r.to_string()), String::new()),
        }
    } else {
        (None, s.to_string())
    };
    Parts { scheme, authority, path, query, fragment }
}
fn remove_dot_segments(path: &str) -> String {
    let mut input = path.to_string();
    let mut output = String::new();
    while !input.is_empty() {
        if input.starts_with("../") {
            input.drain(..3);
        } else if input.starts_with("./") {
            input.drain(..2);
        } else if input.starts_with("/./") {
            input.replace_range(..3, "/");
        } else if input == "/." {
            input = "/".into();
        } else if input.starts_with("/../") {
            input.replace_range(..4, "/");
            match output.rfind('/') {
                Some(i) => output.truncate(i),
                None => output.clear(),
            }
        } else if input == "/.." {
            input = "/".into();
            match output.rfind('/') {
                Some(i) => output.truncate(i),
                None => output.clear(),
            }
        } else if input == "." || input == ".." {
            input.clear();
        } else {
            let start = if input.starts_with('/') { 1 } else { 0 };
            let end = input[start..].find('/').map(|i| i + start).unwrap_or(input.len());
            output.push_str(&input[..end]);
            input.drain(..end);
        }
    }
    output
}
fn rfc_resolve(base: &str, r: &str) -> String {
    let b = split(base);
    let r = split(r);
    let mut t = Parts { scheme: None, authority: None, path: String::new(), query: None, fragment: None };
    if r.scheme.is_some() {
        t.scheme = r.scheme;
        t.authority = r.authority;
        t.path = remove_dot_segments(&r.path);
        t.query = r.query;
    } else {
        if r.authority.is_some() {
            t.authority = r.authority;
            t.path = remove_dot_segments(&r.path);
            t.query = r.query;
        } else {
            if r.path.is_empty() {
                t.path = b.path.clone();
                t.query = if r.query.is_some() { r.query } else { b.query.clone() };
            } else {
                if r.path.starts_with('/') {
                    t.path = remove_dot_segments(&r.path);
                } else {
                    let merged = if b.authority.is_some() && b.path.is_empty() {
                        format!("/{}", r.path)
                    } else {
                        match b.path.rfind('/') {
                            Some(i) => format!("{}{}", &b.path[..=i], r.path),
                            None => r.path.clone(),
                        }
                    };
                    t.path = remove_dot_segments(&merged);
                }
                t.query = r.query;
            }
            t.authority = b.authority.clone();
        }
        t.scheme = b.scheme.clone();
    }
    t.fragment = r.fragment;
    let mut out = String::new();
    if let Some(s) = t.scheme {
        out.push_str(&s);
        out.push(':');
    }
    if let Some(a) = t.authority {
        out.push_str("//");
        out.push_str(&a);
    }
    out.push_str(&t.path);
    if let Some(q) = t.query {
        out.push('?');
        out.push_str(&q);
    }
    if let Some(f) = t.fragment {
        out.push('#');
        out.push_str(&f);
    }
    out
}

// ---------- generator ----------
struct Rng(u64);
impl Rng {
    fn next(&mut self) -> u64 {
        self.0 ^= self.0 << 13;
        self.0 ^= self.0 >> 7;
        self.0 ^= self.0 << 17;
        self.0
    }
    fn below(&mut self, n: usize) -> usize {
        (self.next() % n as u64) as usize
    }
    fn pick<'a, T>(&mut self, v: &'a [T]) -> &'a T {
        &v[self.below(v.len())]
    }
    fn chance(&mut self, pct: usize) -> bool {
        self.below(100) < pct
    }
}
const BOUNDARY: &[u32] = &[
    0x7F, 0x80, 0x9F, 0xA0, 0xA1, 0xD7FF, 0xE000, 0xF8FF, 0xF900, 0xFDCF, 0xFDD0, 0xFDEF, 0xFDF0, 0xFFEF, 0xFFF0,
    0xFFFD, 0xFFFE, 0xFFFF, 0x10000, 0x1FFFD, 0x1FFFE, 0x1FFFF, 0x20000, 0x2FFFD, 0x2FFFE, 0x30000, 0x3FFFD, 0x3FFFE,
    0x40000, 0x4FFFD, 0x4FFFF, 0x50000, 0x5FFFD, 0x5FFFE, 0x60000, 0x6FFFD, 0x6FFFE, 0x70000, 0x7FFFD, 0x7FFFE,
    0x80000, 0x8FFFD, 0x8FFFE, 0x90000, 0x9FFFD, 0x9FFFE, 0xA0000, 0xAFFFD, 0xAFFFE, 0xB0000, 0xBFFFD, 0xBFFFE,
    0xC0000, 0xCFFFD, 0xCFFFE, 0xD0000, 0xDFFFD, 0xDFFFE, 0xDFFFF, 0xE0000, 0xE0001, 0xE0FFF, 0xE1000, 0xEFFFD,
    0xEFFFE, 0xEFFFF, 0xF0000, 0xFFFFD, 0xFFFFE, 0xFFFFF, 0x100000, 0x10FFFD, 0x10FFFE, 0x10FFFF, 0x200E, 0x202A,
    0x202E, 0xE9, 0x4E2D,
];
const ASCII: &str = "aZ09-._~!$&'()*+,;=:@/?#[]%<>\"{}|\\^` \t\n\r\0";
fn any_char(r: &mut Rng) -> char {
    if r.chance(50) {
        *r.pick(&ASCII.chars().collect::<Vec<_>>())
    } else {
        char::from_u32(*r.pick(BOUNDARY)).unwrap()
    }
}
fn gen_pchars(r: &mut Rng, extra: &str, min: usize, max: usize) -> String {
    let base = "abcXYZ019-._~!$&'()*+,;=";
    let pool: Vec<char> = base.chars().chain(extra.chars()).collect();
    let n = min + r.below(max - min + 1);
    let mut s = String::new();
    for _ in 0..n {
        match r.below(10) {
            0 => {
                s.push('%');
                s.push(*r.pick(&"0123456789abcdefABCDEF".chars().collect::<Vec<_>>()));
                s.push(*r.pick(&"0123456789abcdefABCDEF".chars().collect::<Vec<_>>()));
            }
            1 => {
                let c = char::from_u32(*r.pick(BOUNDARY)).unwrap();
                if is_ucschar(c) {
                    s.push(c)
                } else {
                    s.push('x')
                }
            }
            2 => s.push('.'),
            _ => s.push(*r.pick(&pool)),
        }
    }
    s
}
fn gen_h16(r: &mut Rng) -> String {
    let n = 1 + r.below(4);
    (0..n).map(|_| *r.pick(&"0123456789abcdefABCDEF".chars().collect::<Vec<_>>())).collect()
}
fn gen_octet(r: &mut Rng) -> String {
    r.pick(&["0", "1", "9", "10", "99", "100", "199", "200", "249", "250", "255", "25", "7"]).to_string()
}
fn gen_ipv4(r: &mut Rng) -> String {
    format!("{}.{}.{}.{}", gen_octet(r), gen_octet(r), gen_octet(r), gen_octet(r))
}
fn gen_ipv6(r: &mut Rng) -> String {
    // choose total groups and whether :: is used
    if r.chance(25) {
        let v4 = r.chance(30);
        let n = if v4 { 6 } else { 8 };
        let mut g: Vec<String> = (0..n).map(|_| gen_h16(r)).collect();
        if v4 {
            g.push(gen_ipv4(r));
        }
        g.join(":")
    } else {
        let total = r.below(8); // 0..=7
        let v4 = r.chance(30) && total >= 2;
        let units = if v4 { total - 1 } else { total }; // number of textual groups
        let left = r.below(units + 1);
        let (left, right) = if v4 && left == units { (left - 1, 1) } else { (left, units - left) };
        let l: Vec<String> = (0..left).map(|_| gen_h16(r)).collect();
        let mut rt: Vec<String> = (0..right).map(|_| gen_h16(r)).collect();
        if v4 {
            let last = rt.len() - 1;
            rt[last] = gen_ipv4(r);
        }
        format!("{}::{}", l.join(":"), rt.join(":"))
    }
}
fn gen_host(r: &mut Rng) -> String {
    match r.below(6) {
        0 => format!("[{}]", gen_ipv6(r)),
        1 => format!(
            "[{}{}.{}]",
            r.pick(&["v", "V"]),
            gen_h16(r),
            r.pick(&["a", ":", "!:x", "~._-", "1.2", "a=b&c"])
        ),
        2 => gen_ipv4(r),
        3 => String::new(),
        _ => gen_pchars(r, "", 0, 5),
    }
}
fn gen_authority(r: &mut Rng) -> String {
    let mut s = String::new();
    if r.chance(30) {
        s.push_str(&gen_pchars(r, ":", 0, 4));
        s.push('@');
    }
    s.push_str(&gen_host(r));
    if r.chance(30) {
        s.push(':');
        s.push_str(*r.pick(&["", "0", "80", "65536", "00000000000000000001"]));
    }
    s
}
fn gen_seg(r: &mut Rng, extra: &str, min: usize) -> String {
    match r.below(8) {
        0 if min == 0 => String::new(),
        1 => ".".into(),
        2 => "..".into(),
        _ => gen_pchars(r, extra, min, 3),
    }
}
fn gen_tail_segs(r: &mut Rng) -> String {
    let n = r.below(4);
    let mut s = String::new();
    for _ in 0..n {
        s.push('/');
        s.push_str(&gen_seg(r, ":@", 0));
    }
    s
}
fn gen_part(r: &mut Rng, noscheme: bool) -> String {
    match r.below(5) {
        0 => format!("//{}{}", gen_authority(r), gen_tail_segs(r)),
        1 => {
            if r.chance(20) {
                "/".into()
            } else {
                format!("/{}{}", gen_seg(r, ":@", 1), gen_tail_segs(r))
            }
        }
        2 => String::new(),
        _ => format!("{}{}", gen_seg(r, if noscheme { "@" } else { ":@" }, 1), gen_tail_segs(r)),
    }
}
fn gen_qf(r: &mut Rng) -> String {
    let mut s = String::new();
    if r.chance(30) {
        s.push('?');
        s.push_str(&gen_pchars(r, ":@/?\u{E000}\u{F8FF}\u{F0000}\u{FFFFD}\u{100000}\u{10FFFD}", 0, 4));
    }
    if r.chance(30) {
        s.push('#');
        s.push_str(&gen_pchars(r, ":@/?", 0, 4));
    }
    s
}
fn gen_scheme(r: &mut Rng) -> String {
    r.pick(&["a", "http", "A", "z+", "x-y.z", "a1", "urn", "file"]).to_string()
}
fn gen_iri(r: &mut Rng) -> String {
    format!("{}:{}{}", gen_scheme(r), gen_part(r, false), gen_qf(r))
}
fn gen_rel(r: &mut Rng) -> String {
    format!("{}{}", gen_part(r, true), gen_qf(r))
}
fn mutate(r: &mut Rng, s: &str) -> String {
    let mut cs: Vec<char> = s.chars().collect();
    let pos = r.below(cs.len() + 1);
    match r.below(3) {
        0 => cs.insert(pos, any_char(r)),
        1 if pos < cs.len() => {
            cs.remove(pos);
        }
        _ if pos < cs.len() => cs[pos] = any_char(r),
        _ => cs.push(any_char(r)),
    }
    cs.into_iter().collect()
}

fn check_one(s: &str, report: &mut BTreeMap<String, Vec<String>>) -> (bool, bool) {
    let exp_abs = ref_is_iri(s);
    let exp_rel = ref_is_rel(s);
    let got_abs = is_absolute_iri_ref(s);
    let got_rel = is_relative_iri_ref(s);
    let got_any = is_valid_iri_ref(s);
    let mut add = |k: &str, s: &str| {
        let v = report.entry(k.to_string()).or_default();
        if v.len() < 15 {
            v.push(s.to_string())
        }
    };
    if exp_abs != got_abs {
        add(&format!("abs: expected {exp_abs} got {got_abs}"), s);
    }
    if exp_rel != got_rel {
        add(&format!("rel: expected {exp_rel} got {got_rel}"), s);
    }
    if got_any != (got_abs || got_rel) {
        add("any != abs||rel", s);
    }
    if exp_abs && exp_rel {
        add("both abs and rel in reference", s);
    }
    assert_eq!(Iri::new(s).is_ok(), got_abs);
    assert_eq!(IriRef::new(s).is_ok(), got_any);
    // oxiri agreement
    let ox_ref = BaseIriRef::new(s).is_ok();
    let ox_abs = BaseIri::new(s).is_ok();
    if ox_ref != got_any {
        add(&format!("oxiri ref {ox_ref} vs regex {got_any}"), s);
    }
    if ox_abs != got_abs {
        add(&format!("oxiri abs {ox_abs} vs regex {got_abs}"), s);
    }
    if got_abs {
        if catch_unwind(|| {
            let i = Iri::new(s).unwrap();
            let _ = i.as_base();
            let _ = Iri::new(s.to_string()).unwrap().to_base();
        })
        .is_err()
        {
            add("as_base panics (abs)", s);
        }
    }
    if got_any {
        if catch_unwind(|| {
            let i = IriRef::new(s).unwrap();
            let b = i.as_base();
            assert_eq!(b.is_absolute(), got_abs);
            let _ = IriRef::new(s.to_string()).unwrap().to_base();
        })
        .is_err()
        {
            add("as_base panics (ref)", s);
        }
    }
    (got_abs, got_any)
}

#[test]
fn explore_validation() {
    std::panic::set_hook(Box::new(|_| {}));
    let mut r = Rng(0x9E3779B97F4A7C15);
    let mut report = BTreeMap::new();
    let n: usize = std::env::var("HUNT_N").ok().and_then(|x| x.parse().ok()).unwrap_or(200_000);
    let mut acc = 0;
    for i in 0..n {
        let s = if i % 2 == 0 { gen_iri(&mut r) } else { gen_rel(&mut r) };
        let (_, any) = check_one(&s, &mut report);
        if any {
            acc += 1;
        } else {
            let v = report.entry("generated but not accepted".to_string()).or_default();
            if v.len() < 15 {
                v.push(s.clone())
            }
        }
        let mut m = s.clone();
        for _ in 0..(1 + r.below(2)) {
            m = mutate(&mut r, &m);
        }
        check_one(&m, &mut report);
    }
    eprintln!("accepted {acc} of {n}");
    for (k, v) in &report {
        eprintln!("== {k}");
        for s in v {
            eprintln!("     {:?}", s);
        }
    }
    assert!(report.is_empty());
}

#[test]
fn explore_all_boundaries() {
    // every boundary char in every position kind
    let mut report = BTreeMap::new();
    let mut all: Vec<u32> = BOUNDARY.to_vec();
    for c in 0..0x250u32 {
        all.push(c);
    }
    for c in all {
        let Some(c) = char::from_u32(c) else { continue };
        for tpl in [
            "a:{}", "a:/{}", "a://{}", "a://{}@h", "a://h/{}", "a:?{}", "a:#{}", "{}", "/{}", "//{}", "//{}@h", "?{}",
            "#{}", "x/{}", "a://h:{}", "a://[{}]", "a://[v1.{}]", "{}:a", "a{}:b",
        ] {
            let s = tpl.replace("{}", &c.to_string());
            check_one(&s, &mut report);
        }
    }
    for (k, v) in &report {
        eprintln!("== {k}");
        for s in v {
            eprintln!("     {:?}", s);
        }
    }
    assert!(report.is_empty());
}

#[test]
fn explore_resolution() {
    std::panic::set_hook(Box::new(|_| {}));
    let mut r = Rng(0x1234567887654321);
    let mut report: BTreeMap<String, Vec<String>> = BTreeMap::new();
    let n: usize = std::env::var("HUNT_N").ok().and_then(|x| x.parse().ok()).unwrap_or(200_000);
    for _ in 0..n {
        let base = gen_iri(&mut r);
        let rf = if r.chance(15) { gen_iri(&mut r) } else { gen_rel(&mut r) };
        if !is_absolute_iri_ref(&base) || !is_valid_iri_ref(&rf) {
            continue;
        }
        let expected = rfc_resolve(&base, &rf);
        let got = catch_unwind(AssertUnwindSafe(|| {
            let b = Iri::new(base.as_str()).unwrap();
            let rr = IriRef::new(rf.as_str()).unwrap();
            b.resolve(rr).unwrap()
        }));
        let key = match &got {
            Err(_) => {
                let e = BaseIri::new(base.as_str()).unwrap().resolve(rf.as_str());
                format!("PANIC ({:?}) expected-valid={}", e.err().map(|e| e.to_string()), is_absolute_iri_ref(&expected))
            }
            Ok(g) if *g != expected => {
                let bp = split(&base);
                let rp = split(&rf);
                format!(
                    "DIFF ref_scheme={} ref_auth={} base_auth={} base_has_dots={} got_valid={} exp_valid={}",
                    rp.scheme.is_some(),
                    rp.authority.is_some(),
                    bp.authority.is_some(),
                    bp.path.split('/').any(|s| s == "." || s == ".."),
                    is_absolute_iri_ref(g),
                    is_absolute_iri_ref(&expected),
                )
            }
            Ok(g) if !is_absolute_iri_ref(g) => "INVALID result".to_string(),
            _ => continue,
        };
        let v = report.entry(key).or_default();
        if v.len() < 12 {
            v.push(format!("base={base:?} ref={rf:?} got={got:?} expected={expected:?}"));
        }
    }
    for (k, v) in &report {
        eprintln!("== {k}");
        for s in v {
            eprintln!("     {}", s);
        }
    }
    assert!(report.is_empty());
}

#[test]
fn explore_relative_base() {
    std::panic::set_hook(Box::new(|_| {}));
    let mut r = Rng(0x1234567887654321);
    let mut report: BTreeMap<String, Vec<String>> = BTreeMap::new();
    let n: usize = std::env::var("HUNT_N").ok().and_then(|x| x.parse().ok()).unwrap_or(200_000);
    for _ in 0..n {
        let base = gen_rel(&mut r);
        let rf = if r.chance(15) { gen_iri(&mut r) } else { gen_rel(&mut r) };
        if !is_valid_iri_ref(&base) || !is_valid_iri_ref(&rf) {
            continue;
        }
        let bb = BaseIriRef::new(base.as_str()).unwrap();
        let got = match catch_unwind(AssertUnwindSafe(|| bb.resolve(rf.as_str()).map(|x| x.unwrap()))) { Ok(g) => g, Err(_) => Ok("\u{0}PANIC".to_string()) };
        let key = match &got {
            Err(e) => format!("ERR {e}"),
            Ok(g) if !is_valid_iri_ref(g) => "INVALID result".to_string(),
            Ok(g) if is_absolute_iri_ref(g) && !is_absolute_iri_ref(&rf) => "ABSOLUTE from relative".to_string(),
            _ => continue,
        };
        let v = report.entry(key).or_default();
        if v.len() < 12 {
            v.push(format!("base={base:?} ref={rf:?} got={got:?}"));
        }
    }
    for (k, v) in &report {
        eprintln!("== {k}");
        for s in v {
            eprintln!("     {}", s);
        }
    }
    assert!(report.is_empty());
}

#[test]
fn explore_ipv6_exhaustive() {
    use std::str::FromStr;
    let mut bad = vec![];
    let mut n_ok = 0;
    for len in 0..=17usize {
        for bits in 0..(1u32 << len) {
            let s: String = (0..len).map(|i| if bits >> i & 1 == 1 { ':' } else { 'f' }).collect();
            for suffix in ["", "1.2.3.4", "255.255.255.255", "1.2.3", "01.2.3.4", "1.2.3.256"] {
                let lit = format!("{s}{suffix}");
                let exp = ipv6(&lit);
                let std = std::net::Ipv6Addr::from_str(&lit).is_ok();
                for tpl in ["a://[{}]", "//[{}]:1/x", "a://u@[{}]"] {
                    let iri = tpl.replace("{}", &lit);
                    let got = is_valid_iri_ref(&iri);
                    let ox = BaseIriRef::new(iri.as_str()).is_ok();
                    if got != exp || ox != exp || std != exp {
                        if bad.len() < 40 {
                            bad.push(format!("{iri} regex={got} ref={exp} oxiri={ox} std={std}"));
                        }
                    }
                }
                if exp { n_ok += 1; }
            }
        }
    }
    eprintln!("valid literals: {n_ok}");
    for b in &bad { eprintln!("{b}"); }
    assert!(bad.is_empty());
}

#[test]
fn explore_long() {
    let t = std::time::Instant::now();
    let s = format!("http://example.org/{}", "a/".repeat(2_000_000));
    assert!(is_valid_iri_ref(&s));
    assert!(is_absolute_iri_ref(&s));
    let i = Iri::new(s.as_str()).unwrap();
    let b = i.as_base();
    let r = b.resolve(IriRef::new_unchecked("../x"));
    assert!(r.as_str().ends_with("a/x"));
    let s2 = format!("http://example.org/{}", "é%20/".repeat(500_000));
    assert!(is_valid_iri_ref(&s2));
    let s3 = format!("{}\u{E000}", s2);
    assert!(!is_valid_iri_ref(&s3));
    eprintln!("{:?}", t.elapsed());
}
