//! Property C09 - violation 3.
//! Drop into `iri/tests/hunt_C09_3.rs`, run with
//! `cargo test -p sophia_iri --test hunt_C09_3 --offline`.
//!
//! RFC 3986 section 5.2.2 applies `remove_dot_segments` to the *merged* path
//! (`T.path = remove_dot_segments(merge(Base.path, R.path))`), so dot segments that are
//! in the path of the base disappear as well.  The resolver used by
//! `Iri::resolve` / `BaseIri::resolve` / `BaseIri::resolve_into` (oxiri) copies the base
//! path verbatim and only interprets the dot segments that come from the reference.
//! A base such as `http://a/b/../c/d` is an accepted IRI (dot segments are ordinary
//! `isegment`s), so the property "resolving an accepted reference against an accepted
//! absolute base gives the result of the RFC 3986 section 5.2 algorithm" is violated:
//! the answer is not only un-normalised, `..` climbs to the wrong directory.
//!
//! (All bases below have an authority, all references are plain relative paths: this is
//! neither the known "reference with a scheme is returned verbatim" observation nor the
//! authority-less "//" problem.)

use sophia_iri::resolve::BaseIri;
use sophia_iri::{Iri, IriRef};

/// Straight transcription of RFC 3986 section 5.2.4.
fn remove_dot_segments(path: &str) -> String {
    let mut input = path.to_string();
    let mut output = String::new();
    fn pop(output: &mut String) {
        match output.rfind('/') {
            Some(i) => output.truncate(i),
            None => output.clear(),
        }
    }
    while !input.is_empty() {
        if input.starts_with("../") {
            input.drain(..3);
        } else if input.starts_with("./") {
            input.drain(..2);
        } else if input.starts_with("/./") {
            input.replace_range(..3, "/");
        } else if input == "/." {
            input = "/".into();
        } else if input.starts_with("/../") {
            input.replace_range(..4, "/");
            pop(&mut output);
        } else if input == "/.." {
            input = "/".into();
            pop(&mut output);
        } else if input == "." || input == ".." {
            input.clear();
        } else {
            let start = usize::from(input.starts_with('/'));
            let end = input[start..].find('/').map_or(input.len(), |i| i + start);
            output.push_str(&input[..end]);
            input.drain(..end);
        }
    }
    output
}

/// RFC 3986 section 5.2.2 / 5.2.3 for a base `http://a<base_path>` and a reference that
/// is a non-empty relative path without query or fragment.
fn rfc_resolve(base_path: &str, rel_path: &str) -> String {
    let merged = match base_path.rfind('/') {
        Some(i) => format!("{}{}", &base_path[..=i], rel_path),
        None => format!("/{rel_path}"),
    };
    format!("http://a{}", remove_dot_segments(&merged))
}

/// (base path, reference, RFC 3986 result)
const CASES: &[(&str, &str, &str)] = &[
    ("/b/../c/d", "x", "http://a/c/x"),   // observed: http://a/b/../c/x
    ("/b/./c", "..", "http://a/"),        // observed: http://a/b/      (wrong directory)
    ("/b/c/../d", "../x", "http://a/x"),  // observed: http://a/b/c/x   (wrong directory)
    ("/./b", "x", "http://a/x"),          // observed: http://a/./x
    ("/../../9c", "+", "http://a/+"),     // observed: http://a/../../+
];

#[test]
fn expectations_are_those_of_rfc3986() {
    // sanity check of the transcription on the RFC's own examples (section 5.4)
    assert_eq!(rfc_resolve("/b/c/d;p", "../../../g"), "http://a/g");
    assert_eq!(rfc_resolve("/b/c/d;p", "./g/."), "http://a/b/c/g/");
    assert_eq!(rfc_resolve("/b/c/d;p", "g;x=1/../y"), "http://a/b/c/y");
    for (base_path, rel, expected) in CASES {
        assert_eq!(rfc_resolve(base_path, rel), *expected);
    }
}

#[test]
fn dot_segments_of_the_base_are_removed_typed() {
    let mut failures = vec![];
    for (base_path, rel, expected) in CASES {
        let base = Iri::new(format!("http://a{base_path}")).expect("accepted absolute IRI");
        let rel = IriRef::new(*rel).expect("accepted reference");
        let got = base.resolve(rel);
        if got.as_str() != *expected {
            failures.push(format!("<{base}> + <{rel}>: expected <{expected}>, got <{got}>"));
        }
    }
    assert!(failures.is_empty(), "\n{}", failures.join("\n"));
}

#[test]
fn dot_segments_of_the_base_are_removed_base_iri() {
    let mut failures = vec![];
    let mut buf = String::new();
    for (base_path, rel, expected) in CASES {
        let base = BaseIri::new(format!("http://a{base_path}")).unwrap();
        let got = base.resolve(*rel).unwrap();
        if got.as_str() != *expected {
            failures.push(format!("resolve: <{}> + <{rel}>: expected <{expected}>, got <{got}>", base.as_str()));
        }
        buf.clear();
        let got = base.resolve_into(*rel, &mut buf).unwrap();
        if got.as_str() != *expected {
            failures.push(format!("resolve_into: <{}> + <{rel}>: expected <{expected}>, got <{got}>", base.as_str()));
        }
    }
    assert!(failures.is_empty(), "\n{}", failures.join("\n"));
}

/// The same omission for a network-path reference (`//authority/path`): 5.2.2 says
/// `T.path = remove_dot_segments(R.path)`.
#[test]
fn dot_segments_of_a_network_path_reference_are_removed() {
    let base = Iri::new("http://a/b").unwrap();
    let got = base.resolve(IriRef::new("//c/d/../e").unwrap());
    assert_eq!(got.as_str(), "http://c/e"); // observed: http://c/d/../e
}
