//! Property C09 - violation 1.
//! Drop into `iri/tests/hunt_C09_1.rs`, run with
//! `cargo test -p sophia_iri --test hunt_C09_1 --offline`.
//!
//! Resolving an accepted relative reference against an accepted *relative* base
//! (`IriRef::resolve`, `BaseIriRef::resolve`, `BaseIriRef::resolve_into`)
//! can produce a string that is NOT an IRI reference (`1:b`, `:x`, `:`), or one that
//! silently turned into an absolute IRI with an unrelated scheme (`a:b`, `c:d`).
//! The result is wrapped with `IriRef::new_unchecked`, which
//!  * panics in debug builds (it re-validates under `cfg!(debug_assertions)`),
//!    even for the `&str` flavour that is documented to return a `Result`;
//!  * in release builds hands out an `IriRef<String>` whose content is rejected by
//!    `IriRef::new`, i.e. the type invariant is broken.
//!
//! Expected (property C09): every accepted value can be used as a base or be resolved
//! without panicking, and what comes out of `resolve` is itself an accepted value.
//! RFC 3986 section 4.2 says a relative-path reference whose first segment contains a
//! colon has to be written with a leading "./", so e.g. "x" + "./1:b" must give "./1:b"
//! (or, at the very least, an `Err` for the `&str` flavour) - never "1:b".

use sophia_iri::resolve::BaseIriRef;
use sophia_iri::{IriRef, is_absolute_iri_ref, is_valid_iri_ref};
use std::panic::catch_unwind;

/// (relative base, relative reference) - both are accepted by `IriRef::new`.
const CASES: &[(&str, &str)] = &[
    ("x", "./1:b"),    // oxiri answers "1:b"  : not an IRI reference
    ("", "./:"),       // oxiri answers ":"    : not an IRI reference
    ("/", "/../:x"),   // oxiri answers ":x"   : not an IRI reference
    ("x", "./a:b"),    // oxiri answers "a:b"  : an ABSOLUTE IRI of scheme "a"
    ("/a/b", "../../c:d"), // oxiri answers "c:d": an ABSOLUTE IRI of scheme "c"
];

#[test]
fn operands_are_accepted() {
    for (base, rel) in CASES {
        assert!(IriRef::new(*base).is_ok(), "{base:?}");
        assert!(IriRef::new(*rel).is_ok(), "{rel:?}");
        assert!(!is_absolute_iri_ref(base) && !is_absolute_iri_ref(rel));
    }
}

/// `BaseIriRef::resolve(&str)` returns a `Result`: it must never panic, and an `Ok`
/// must contain an accepted IRI reference that is still relative.
#[test]
fn str_flavour_returns_valid_iri_ref_or_error() {
    let mut failures = vec![];
    for (base, rel) in CASES {
        let res = catch_unwind(|| {
            BaseIriRef::new(*base)
                .unwrap()
                .resolve(*rel)
                .map(|r| r.as_str().to_string())
        });
        match res {
            Err(_) => failures.push(format!("<{base}> + <{rel}>: PANIC instead of a Result")),
            Ok(Err(_)) => {} // an error would be acceptable
            Ok(Ok(out)) => {
                if !is_valid_iri_ref(&out) {
                    failures.push(format!(
                        "<{base}> + <{rel}> = <{out}>, which is not an IRI reference"
                    ));
                } else if is_absolute_iri_ref(&out) {
                    failures.push(format!(
                        "<{base}> + <{rel}> = <{out}>, an absolute IRI made out of two relative references"
                    ));
                }
            }
        }
    }
    assert!(failures.is_empty(), "\n{}", failures.join("\n"));
}

/// The typed flavour (`IriRef::resolve`) must not panic on accepted operands and its
/// result must satisfy the `IriRef` invariant.
#[test]
fn typed_flavour_does_not_panic_and_keeps_invariant() {
    let mut failures = vec![];
    for (base, rel) in CASES {
        let res = catch_unwind(|| {
            let b = IriRef::new(*base).unwrap();
            let r = IriRef::new(*rel).unwrap();
            b.resolve(r).as_str().to_string()
        });
        match res {
            Err(_) => failures.push(format!("IriRef(<{base}>).resolve(IriRef(<{rel}>)) PANICS")),
            Ok(out) => {
                if IriRef::new(out.as_str()).is_err() {
                    failures.push(format!(
                        "IriRef(<{base}>).resolve(IriRef(<{rel}>)) = IriRef(<{out}>), rejected by IriRef::new"
                    ));
                } else if is_absolute_iri_ref(&out) {
                    failures.push(format!(
                        "IriRef(<{base}>).resolve(IriRef(<{rel}>)) = <{out}> is absolute"
                    ));
                }
            }
        }
    }
    assert!(failures.is_empty(), "\n{}", failures.join("\n"));
}

/// Same through `resolve_into`.
#[test]
fn resolve_into_flavour() {
    let res = catch_unwind(|| {
        let mut buf = String::new();
        let b = BaseIriRef::new("x").unwrap();
        b.resolve_into("./1:b", &mut buf)
            .map(|r| r.as_str().to_string())
    });
    match res {
        Err(_) => panic!("BaseIriRef(<x>).resolve_into(\"./1:b\") PANICS instead of returning a Result"),
        Ok(Err(_)) => {}
        Ok(Ok(out)) => assert!(is_valid_iri_ref(&out), "<{out}> is not an IRI reference"),
    }
}

/// What RFC 3986 section 4.2 prescribes for the simplest case.
#[test]
fn colon_in_first_segment_is_protected() {
    let out = catch_unwind(|| {
        BaseIriRef::new("x")
            .unwrap()
            .resolve("./a:b")
            .map(|r| r.as_str().to_string())
    })
    .expect("must not panic")
    .expect("both operands are valid");
    assert_eq!(out, "./a:b");
}
