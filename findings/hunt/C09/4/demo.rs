//! Property C09 - violation 4.
//! Drop into `iri/tests/hunt_C09_4.rs`, run with
//! `cargo test -p sophia_iri --test hunt_C09_4 --offline`.
//!
//! When the base has no authority but an absolute path (`file:/a/b`, very common for
//! `file:` IRIs) and the reference climbs up to - or above - the root with `..`,
//! the resolver used by `Iri::resolve` / `BaseIri::resolve` (oxiri) loses the leading
//! "/" of the path: `file:/a` + `../b` gives `file:b` instead of `file:/b`.
//! RFC 3986 section 5.2.4 never removes that slash ("/../" is replaced by "/"); its own
//! abnormal example (section 5.4.2: `../../../g` = `http://a/g`) spells it out for a base
//! with an authority, and the algorithm is the same without one.
//! The result is a *rootless* (opaque-looking) IRI denoting something else.
//!
//! Expected (property C09): resolving an accepted reference against an accepted absolute
//! base gives the result of the RFC 3986 section 5.2 algorithm.
//!
//! NB: probably the same root cause as the already recorded third-party observation
//! "drops an empty segment for authority-less bases" (`remove_last_segment` does not put
//! the "/" back when authority_end == scheme_end), but a distinct and more harmful
//! manifestation: no empty segment is involved, and the path changes from absolute to
//! rootless.

use sophia_iri::resolve::BaseIri;
use sophia_iri::{Iri, IriRef};

/// Straight transcription of RFC 3986 section 5.2.4.
fn remove_dot_segments(path: &str) -> String {
    let mut input = path.to_string();
    let mut output = String::new();
    fn pop(output: &mut String) {
        match output.rfind('/') {
            Some(i) => output.truncate(i),
            None => output.clear(),
        }
    }
    while !input.is_empty() {
        if input.starts_with("../") {
            input.drain(..3);
        } else if input.starts_with("./") {
            input.drain(..2);
        } else if input.starts_with("/./") {
            input.replace_range(..3, "/");
        } else if input == "/." {
            input = "/".into();
        } else if input.starts_with("/../") {
            input.replace_range(..4, "/");
            pop(&mut output);
        } else if input == "/.." {
            input = "/".into();
            pop(&mut output);
        } else if input == "." || input == ".." {
            input.clear();
        } else {
            let start = usize::from(input.starts_with('/'));
            let end = input[start..].find('/').map_or(input.len(), |i| i + start);
            output.push_str(&input[..end]);
            input.drain(..end);
        }
    }
    output
}

/// RFC 3986 5.2.2/5.2.3 for a base `<scheme>:<base_path>` (no authority, no query) and a
/// reference that is a non-empty path (no query, no fragment).
fn rfc_resolve(scheme: &str, base_path: &str, rel_path: &str) -> String {
    let path = if rel_path.starts_with('/') {
        remove_dot_segments(rel_path)
    } else {
        let merged = match base_path.rfind('/') {
            Some(i) => format!("{}{}", &base_path[..=i], rel_path),
            None => rel_path.to_string(),
        };
        remove_dot_segments(&merged)
    };
    format!("{scheme}:{path}")
}

/// (scheme, base path, reference, RFC 3986 result)
const CASES: &[(&str, &str, &str, &str)] = &[
    ("file", "/a", "../b", "file:/b"),                 // observed: file:b
    ("file", "/a/b", "/../c", "file:/c"),              // observed: file:c
    ("file", "/a/b", "../..", "file:/"),               // observed: file:
    ("file", "/b/c/d;p", "../../../g", "file:/g"),     // observed: file:g   (cf. RFC 3986 5.4.2)
    ("file", "/b/c/d;p", "../../../../g", "file:/g"),  // observed: file:g   (cf. RFC 3986 5.4.2)
    ("a", "/b/c", "../../d:e", "a:/d:e"),              // observed: a:d:e
];

#[test]
fn expectations_are_those_of_rfc3986() {
    // sanity check of the transcription on the RFC's own examples (section 5.4)
    assert_eq!(rfc_resolve("x", "/b/c/d;p", "../../../g"), "x:/g");
    assert_eq!(rfc_resolve("x", "/b/c/d;p", "../g"), "x:/b/g");
    assert_eq!(rfc_resolve("x", "/b/c/d;p", "/./g"), "x:/g");
    for (scheme, base_path, rel, expected) in CASES {
        assert_eq!(rfc_resolve(scheme, base_path, rel), *expected);
    }
}

#[test]
fn root_slash_is_kept_typed() {
    let mut failures = vec![];
    for (scheme, base_path, rel, expected) in CASES {
        let base = Iri::new(format!("{scheme}:{base_path}")).expect("accepted absolute IRI");
        let rel = IriRef::new(*rel).expect("accepted reference");
        let got = base.resolve(rel);
        if got.as_str() != *expected {
            failures.push(format!("<{base}> + <{rel}>: expected <{expected}>, got <{got}>"));
        }
    }
    assert!(failures.is_empty(), "\n{}", failures.join("\n"));
}

#[test]
fn root_slash_is_kept_base_iri() {
    let mut failures = vec![];
    let mut buf = String::new();
    for (scheme, base_path, rel, expected) in CASES {
        let base = BaseIri::new(format!("{scheme}:{base_path}")).unwrap();
        let got = base.resolve(*rel).unwrap();
        if got.as_str() != *expected {
            failures.push(format!("resolve: <{}> + <{rel}>: expected <{expected}>, got <{got}>", base.as_str()));
        }
        buf.clear();
        let got = base.resolve_into(*rel, &mut buf).unwrap();
        if got.as_str() != *expected {
            failures.push(format!("resolve_into: <{}> + <{rel}>: expected <{expected}>, got <{got}>", base.as_str()));
        }
    }
    assert!(failures.is_empty(), "\n{}", failures.join("\n"));
}

/// The same base with an (empty) authority behaves correctly - the two spellings of a
/// local file IRI must resolve alike.
#[test]
fn consistent_with_empty_authority() {
    let with_auth = Iri::new("file:///a").unwrap().resolve(IriRef::new("../b").unwrap());
    assert_eq!(with_auth.as_str(), "file:///b"); // fine
    let without = Iri::new("file:/a").unwrap().resolve(IriRef::new("../b").unwrap());
    assert_eq!(without.as_str(), "file:/b"); // observed: file:b
}
