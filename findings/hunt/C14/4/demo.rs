//! Hunt C14 / violation 4 -- drop into `sparql/tests/hunt_C14_4.rs`, run with
//! `cargo test -p sophia_sparql --test hunt_C14_4 --offline`
//!
//! Property C14: "... any two values that SPARQL's '<' can compare (numerics of any type, ...)
//! appear in that order ..." -- quantified over "... huge decimals ...".
//!
//! To compare an xsd:decimal with an xsd:double, `SparqlNumber::coerce_to_double` relies on
//! `bigdecimal::BigDecimal::to_f64`. For a decimal with a fractional part and more than ~43
//! significant digits, that function (bigdecimal 0.4.10, src/impl_num.rs) drops the trailing digits,
//! converts the remaining integer to f64 and then multiplies it by `powi(10.0, n)`: two roundings,
//! the second one with an inexact power of ten. The result is NOT the double nearest to the decimal
//! (what casting xsd:decimal to xsd:double must give); it is off by one or several ulps.
//! ORDER BY then misplaces the decimal with respect to the doubles in that neighbourhood.
//!
//! In every test below, the expected order is the order of the exact mathematical values
//! AND the order given by '<' with a correct cast to xsd:double (they agree).

use sophia_api::prelude::*;
use sophia_api::quad::Spog;
use sophia_api::sparql::Query;
use sophia_api::term::{IriRef, SimpleTerm};
use sophia_sparql::*;

const XSD: &str = "http://www.w3.org/2001/XMLSchema#";

fn lit(lex: &str, dt: &str) -> SimpleTerm<'static> {
    SimpleTerm::LiteralDatatype(lex.to_string().into(), IriRef::new_unchecked(format!("{XSD}{dt}").into()))
}

fn iri(i: String) -> SimpleTerm<'static> {
    SimpleTerm::Iri(IriRef::new_unchecked(i.into()))
}

/// Store the given values (one solution each, enumerated in the given order:
/// a `Vec` dataset enumerates its quads in insertion order),
/// and return `SELECT ?x { ?s <tag:v> ?x } ORDER BY <order>`.
fn order_by(values: &[SimpleTerm<'static>], order: &str) -> Vec<String> {
    let dataset: Vec<Spog<SimpleTerm<'static>>> = values
        .iter()
        .enumerate()
        .map(|(i, v)| ([iri(format!("tag:s{i}")), iri("tag:v".into()), v.clone()], None))
        .collect();
    let wrapper = SparqlWrapper(&dataset);
    let query = SparqlQuery::parse(&format!("SELECT ?x {{ ?s <tag:v> ?x }} ORDER BY {order}")).unwrap();
    wrapper
        .query(&query)
        .unwrap()
        .into_bindings()
        .into_iter()
        .map(|row| row.unwrap()[0].as_ref().unwrap().lexical_form().unwrap().to_string())
        .collect()
}

/// The value that a correct cast of this decimal to xsd:double gives (Rust's `str::parse::<f64>` is
/// correctly rounded, and accepts this syntax).
fn correct_cast(decimal: &str) -> f64 {
    decimal.parse().unwrap()
}

const D49: &str = "98150268921740234349321931517602748011018.93050361";

/// Expected: D49 = 9.8150268921740234...e40 is greater than the double 9.815026892174022E40
/// (the double nearest to D49 is the *next* one, 9.815026892174024e40), so the double comes first.
/// Observed: `BigDecimal::to_f64` maps D49 to 9.815026892174022e40 exactly, the two values are
/// considered equal, and they are returned in the order of enumeration: [D49, double].
#[test]
fn decimal_with_49_digits_vs_neighbour_double() {
    let x = "9.815026892174022E40";
    assert!(x.parse::<f64>().unwrap() < correct_cast(D49)); // sanity check of the expectation
    let exp = vec![x, D49];
    assert_eq!(order_by(&[lit(x, "double"), lit(D49, "decimal")], "?x"), exp);
    assert_eq!(order_by(&[lit(D49, "decimal"), lit(x, "double")], "?x"), exp);
}

/// Same values: 9.815026892174022E40 < D49 are NOT tied, so a second key must not be used.
/// Expected: [double, D49]. Observed: [D49, double] (tie on ?x, then DESC(?s) decides).
#[test]
fn second_key_used_although_values_differ() {
    let x = "9.815026892174022E40";
    // s0 -> double, s1 -> D49
    let got = order_by(&[lit(x, "double"), lit(D49, "decimal")], "?x DESC(?s)");
    assert_eq!(got, vec![x, D49]);
}

/// Expected: 10^308 + 0.5 (a 309-digit decimal with one fractional digit) is less than
/// 1.0000000000000002E308 (the double following 1e308), so the decimal comes first.
/// Observed: the decimal is converted to 1.0000000000000006e308 and comes after the double,
/// whatever the order of enumeration.
#[test]
fn decimal_with_310_digits_vs_double() {
    let d = format!("1{}.5", "0".repeat(308));
    let x = "1.0000000000000002E308";
    assert!(correct_cast(&d) < x.parse::<f64>().unwrap()); // sanity check of the expectation
    let exp = vec![d.as_str(), x];
    assert_eq!(order_by(&[lit(x, "double"), lit(&d, "decimal")], "?x"), exp);
    assert_eq!(order_by(&[lit(&d, "decimal"), lit(x, "double")], "?x"), exp);
    let exp_desc = vec![x, d.as_str()];
    assert_eq!(order_by(&[lit(&d, "decimal"), lit(x, "double")], "DESC(?x)"), exp_desc);
}

/// Control (passes): the same 49 digits without a fractional part are converted correctly.
#[test]
fn control_integer_valued_decimal() {
    let d = "98150268921740234349321931517602748011018";
    let x = "9.815026892174022E40";
    let exp = vec![x, d];
    assert_eq!(order_by(&[lit(d, "decimal"), lit(x, "double")], "?x"), exp);
    assert_eq!(order_by(&[lit(x, "double"), lit(d, "decimal")], "?x"), exp);
}
