//! Hunt C20 / 4 -- drop into `jsonld/tests/hunt_C20_4.rs`, run with
//! `cargo test -p sophia_jsonld --test hunt_C20_4 --offline`
//!
//! Property C20: a native isize / usize / f64 used as a term, after a
//! serialisation round trip, converts back to the original value.
//!
//! With the (non default) option `use_native_types`, the JSON-LD serializer
//! (jsonld/src/serializer/engine.rs, convert_rdf_object) turns every xsd:integer
//! and xsd:double literal into a JSON number by `txt.parse::<f64>()`:
//!  * integers beyond 2^53 are silently rounded (9007199254740993 comes back as
//!    the *different* integer 9007199254740992), and isize::MAX / usize::MAX come
//!    back as xsd:double literals which no integer conversion accepts;
//!  * a double without fractional part (42.0, lexical form "42") comes back as
//!    "42"^^xsd:integer, which `f64::try_from_term` rejects.
//! The option is only supposed to change the *syntax* of the value objects.
//! (The JSON-LD API algorithm has the same weakness, but nothing forces the
//! serializer to use a native number when that number does not denote the same
//! value: the typed value object is always a correct output.)

use sophia_api::prelude::*;
use sophia_api::quad::Spog;
use sophia_api::source::QuadSource;
use sophia_api::term::{SimpleTerm, TryFromTerm};
use sophia_iri::Iri;
use sophia_jsonld::{JsonLdOptions, JsonLdParser, JsonLdSerializer};
use sophia_term::ArcTerm;

fn round_trip<T: Term + Copy>(value: T, native: bool) -> ArcTerm {
    let s = Iri::new_unchecked("http://example.org/s");
    let p = Iri::new_unchecked("http://example.org/p");
    let d: Vec<Spog<SimpleTerm>> =
        vec![([s.into_term(), p.into_term(), value.into_term()], None)];
    let options = JsonLdOptions::new().with_use_native_types(native);
    let json = JsonLdSerializer::new_stringifier_with_options(options)
        .serialize_dataset(&d)
        .unwrap()
        .to_string();
    let d2: Vec<Spog<ArcTerm>> = JsonLdParser::new()
        .parse_str(&json)
        .collect_quads()
        .unwrap();
    assert_eq!(d2.len(), 1, "one quad expected from {json}");
    d2[0].0[2].clone()
}

/// 2^53 + 1 : the round trip *succeeds* but gives another integer
#[test]
fn isize_2_53_plus_1() {
    let v: isize = 9_007_199_254_740_993;
    let back = round_trip(v, true);
    assert_eq!(
        isize::try_from_term(&back).ok(),
        Some(v),
        "got the term {back:?}"
    );
}

#[test]
fn usize_2_53_plus_1() {
    let v: usize = 9_007_199_254_740_993;
    let back = round_trip(v, true);
    assert_eq!(usize::try_from_term(&back).ok(), Some(v), "got the term {back:?}");
}

#[test]
fn usize_max() {
    let v = usize::MAX;
    let back = round_trip(v, true);
    assert_eq!(usize::try_from_term(&back).ok(), Some(v), "got the term {back:?}");
}

#[test]
fn isize_extremes() {
    for v in [isize::MAX, isize::MIN] {
        let back = round_trip(v, true);
        assert_eq!(isize::try_from_term(&back).ok(), Some(v), "got the term {back:?}");
    }
}

/// a double whose lexical form is also an integer changes datatype
#[test]
fn f64_without_fraction() {
    for v in [42.0_f64, 0.0, -1.0, 1e16] {
        let back = round_trip(v, true);
        assert_eq!(f64::try_from_term(&back).ok(), Some(v), "got the term {back:?}");
    }
}

/// negative zero loses its sign (and its datatype)
#[test]
fn f64_negative_zero() {
    let back = round_trip(-0.0_f64, true);
    let got = f64::try_from_term(&back).ok();
    assert!(
        matches!(got, Some(z) if z == 0.0 && z.is_sign_negative()),
        "got the term {back:?}"
    );
}

/// control: without the option everything round-trips,
/// and with the option "ordinary" values do
#[test]
fn control() {
    assert_eq!(isize::try_from_term(round_trip(9_007_199_254_740_993_isize, false)).unwrap(), 9_007_199_254_740_993);
    assert_eq!(usize::try_from_term(round_trip(usize::MAX, false)).unwrap(), usize::MAX);
    assert_eq!(f64::try_from_term(round_trip(42.0_f64, false)).unwrap(), 42.0);
    assert_eq!(i32::try_from_term(round_trip(i32::MIN, true)).unwrap(), i32::MIN);
    assert_eq!(f64::try_from_term(round_trip(0.1_f64, true)).unwrap(), 0.1);
    assert_eq!(f64::try_from_term(round_trip(f64::MAX, true)).unwrap(), f64::MAX);
    assert_eq!(f64::try_from_term(round_trip(5e-324_f64, true)).unwrap(), 5e-324);
    assert!(f64::try_from_term(round_trip(f64::NAN, true)).unwrap().is_nan());
    assert_eq!(f64::try_from_term(round_trip(f64::INFINITY, true)).unwrap(), f64::INFINITY);
    assert!(bool::try_from_term(round_trip(true, true)).unwrap());
}
