//! Hunt C20 / 3 -- drop into `xml/tests/hunt_C20_3.rs`, run with
//! `cargo test -p sophia_xml --test hunt_C20_3 --offline`
//!
//! Property C20: every string used as a term is an xsd:string literal, and after
//! a serialisation round trip the literal gives back the original string.
//!
//! A native `&str` made only of XML white space (" ", "\t", "\n", "\r", "\r\n", "   ")
//! is serialised by RdfXmlSerializer as `<p xmlns="..."> </p>`, and the RDF/XML
//! parser reads that property element back as the EMPTY string: rio_xml's
//! `parse_text_event` ignores a text event made only of white space, even when the
//! property element has no child element (RDF/XML section 7.2.16 literalPropertyElt:
//! the object is the text content, white space included).
//! All the other serialisations (N-Triples, Turtle, TriG, JSON-LD) give the string back.

use sophia_api::prelude::*;
use sophia_api::source::TripleSource;
use sophia_api::term::SimpleTerm;
use sophia_iri::Iri;
use sophia_xml::parser;
use sophia_xml::serializer::{RdfXmlConfig, RdfXmlSerializer};

type MyGraph = Vec<[SimpleTerm<'static>; 3]>;

fn round_trip(value: &str, indentation: usize) -> String {
    let s = Iri::new_unchecked("http://example.org/s");
    let p = Iri::new_unchecked("http://example.org/p");
    let g: Vec<[SimpleTerm; 3]> = vec![[s.into_term(), p.into_term(), value.into_term()]];
    let config = RdfXmlConfig::new().with_indentation(indentation);
    let xml = RdfXmlSerializer::new_stringifier_with_config(config)
        .serialize_graph(&g)
        .unwrap()
        .to_string();
    let g2: MyGraph = parser::parse_str(&xml).collect_triples().unwrap();
    assert_eq!(g2.len(), 1, "one triple expected from {xml:?}");
    let o = &g2[0][2];
    assert!(o.is_literal());
    assert!(Term::eq(&o.datatype().unwrap(), sophia_api::ns::xsd::string));
    o.lexical_form().unwrap().to_string()
}

#[test]
fn single_space() {
    assert_eq!(round_trip(" ", 0), " ", "the string \" \" must survive RDF/XML");
}

#[test]
fn several_spaces() {
    assert_eq!(round_trip("   ", 0), "   ");
}

#[test]
fn tab() {
    assert_eq!(round_trip("\t", 0), "\t");
}

#[test]
fn newline() {
    assert_eq!(round_trip("\n", 0), "\n");
}

#[test]
fn single_space_indented_output() {
    assert_eq!(round_trip(" ", 2), " ");
}

/// what is lost is a distinction between two different terms:
/// " " and "" are different literals, but become the same after the round trip
#[test]
fn space_and_empty_stay_different() {
    assert_ne!(round_trip(" ", 0), round_trip("", 0));
}

/// control: white space is kept as soon as there is something else
#[test]
fn control_padded_string() {
    assert_eq!(round_trip("  a  b  ", 0), "  a  b  ");
    assert_eq!(round_trip("", 0), "");
}
