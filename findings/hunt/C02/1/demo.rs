//! Drop into `sophia/tests/hunt_C02_1.rs` and run with
//! `cargo test -p sophia --test hunt_C02_1 --offline`
//!
//! Property C02: every `Term` implementation shipped in the workspace denotes its RDF term
//! through the accessor methods only, so that any other implementation / wrapper
//! (IsoTerm, CmpTerm, SimpleTerm...) can compare it, hash it and copy it.
//!
//! `sophia_c14n::rdfc10::relabel` hands out terms of type `C14nTerm<_>`.
//! `C14nTerm::triple()` (and `to_triple()`) are `unimplemented!()` *for every term*,
//! instead of returning `None` for terms that are not quoted triples.
//! Consequently the generic code that asks "are you a quoted triple?" through `triple()`
//! panics on the IRIs, literals and blank nodes returned by `relabel`:
//! `Term::atoms`, `Term::constituents`, `assert_consistent_term_impl`,
//! and the term comparison machinery of `sophia_isomorphism` (IsoTerm / hash_term_with).
use sophia::api::dataset::MutableDataset;
use sophia::api::ns::Namespace;
use sophia::api::quad::Quad;
use sophia::api::term::{BnodeId, LanguageTag, SimpleTerm, Term, assert_consistent_term_impl};
use sophia::c14n::rdfc10::relabel;
use sophia::inmem::dataset::LightDataset;
use sophia::isomorphism::isomorphic_datasets;

fn sample() -> LightDataset {
    let ex = Namespace::new("http://example.org/").unwrap();
    let mut d = LightDataset::new();
    d.insert(
        BnodeId::new_unchecked("x"),
        ex.get("p").unwrap(),
        "chat" * LanguageTag::new_unchecked("fr"),
        None::<SimpleTerm>,
    )
    .unwrap();
    d.insert(
        ex.get("s").unwrap(),
        ex.get("p").unwrap(),
        42,
        Some(BnodeId::new_unchecked("g")),
    )
    .unwrap();
    d
}

/// Expected: a dataset whose blank nodes were relabelled is, by definition,
/// isomorphic to the original one, and `isomorphic_datasets` must be able to tell so
/// whatever the `Term` implementation of either dataset.
/// Observed: panic "not implemented" in `C14nTerm::triple`
/// (called through `IsoTerm::constituents` / `hash_term_with`).
#[test]
fn relabelled_dataset_is_isomorphic_to_the_original() {
    let d = sample();
    let (relabelled, _id_map) = relabel(&d).unwrap();
    assert!(isomorphic_datasets(&relabelled, &d).unwrap());
    assert!(isomorphic_datasets(&d, &relabelled).unwrap());
}

/// Expected: for a term that is not a quoted triple, `triple()` and `to_triple()` return `None`,
/// `atoms()` and `constituents()` yield the term itself (this is what
/// `assert_consistent_term_impl` checks for every other implementation of the workspace).
/// Observed: panic "not implemented" in `C14nTerm::triple`.
#[test]
fn relabelled_terms_are_consistent_terms() {
    let d = sample();
    let (relabelled, _id_map) = relabel(&d).unwrap();
    for q in &relabelled {
        let (spo, g) = q.spog();
        for t in spo.into_iter().chain(g) {
            // these work: they only look at kind() and the atomic accessors
            let copy: SimpleTerm<'static> = t.into_term();
            assert!(Term::eq(t, &copy));
            assert_eq!(Term::cmp(t, &copy), std::cmp::Ordering::Equal);
            // these do not
            assert!(t.triple().is_none());
            assert_eq!(t.atoms().count(), 1);
            assert!(t.atoms().next().unwrap().eq(&copy));
            assert_eq!(t.constituents().count(), 1);
            assert_consistent_term_impl(t);
        }
    }
}
