//! Drop into `api/tests/hunt_C02_2.rs` and run with
//! `cargo test -p sophia_api --test hunt_C02_2 --offline`
//!
//! Property C02: equality, hashing and ordering of (the components of) terms are lawful;
//! in particular `LanguageTag`'s `Eq`/`Ord`/`Hash` all fold ASCII case, and equal values
//! hash identically.
//!
//! `LanguageTag<T>` implements `Borrow<str>` and `Borrow<T>`.
//! The contract of `std::borrow::Borrow` is that `Eq`, `Ord` and `Hash` of the borrowed value
//! are *identical* to those of the owned value
//! (that is what `HashMap::get`, `HashSet::contains`, `BTreeMap::get`... rely on).
//! But `LanguageTag` hashes its lower-cased chars one by one (as `u32`s),
//! compares case-insensitively and orders case-insensitively,
//! while `str` hashes its bytes, and compares/orders them case-sensitively.
//! So any std collection keyed by language tags gives wrong answers when probed with a `&str`
//! (or a `&String`), which the `Borrow` impls explicitly invite to do --
//! even when the probe is *byte-for-byte identical* to the stored tag.
use sophia_api::term::LanguageTag;
use std::collections::{BTreeSet, HashMap, HashSet};

/// Expected: a set containing the tag `en` answers `true` to `contains("en")`.
/// Observed: `false` (the hash of the `str` differs from the hash of the `LanguageTag`).
#[test]
fn hashset_lookup_by_str() {
    let mut tags: HashSet<LanguageTag<String>> = HashSet::new();
    tags.insert(LanguageTag::new("en".to_string()).unwrap());
    // sanity: lookup with a LanguageTag works, whatever the case
    assert!(tags.contains(&LanguageTag::new("en".to_string()).unwrap()));
    assert!(tags.contains(&LanguageTag::new("EN".to_string()).unwrap()));
    // lookup through Borrow<str>, with the very same string
    assert!(
        tags.contains("en"),
        "HashSet<LanguageTag<String>> containing `en` does not find \"en\""
    );
}

/// Same thing through `Borrow<T>` (here `T = String`) and with a map.
#[test]
fn hashmap_lookup_by_inner_type() {
    let mut labels: HashMap<LanguageTag<String>, &str> = HashMap::new();
    labels.insert(LanguageTag::new("fr-FR".to_string()).unwrap(), "chat");
    let probe: String = "fr-FR".to_string();
    assert_eq!(
        labels.get(&probe).copied(),
        Some("chat"),
        "HashMap<LanguageTag<String>, _> containing `fr-FR` does not find String \"fr-FR\""
    );
}

/// Expected: a sorted set containing the tags `a`, `B` and `c` finds each of them
/// when probed with the very same strings.
/// Observed: the set is ordered `a < B < c` (case-insensitive `Ord` of `LanguageTag`),
/// but the search driven by `str`'s `Ord` ("B" < "a" < "c") walks the wrong way and misses `B`.
#[test]
fn btreeset_lookup_by_str() {
    let tags: BTreeSet<LanguageTag<&str>> = ["a", "B", "c"]
        .into_iter()
        .map(|t| LanguageTag::new(t).unwrap())
        .collect();
    assert_eq!(tags.len(), 3);
    for probe in ["a", "B", "c"] {
        assert!(
            tags.contains(probe),
            "BTreeSet<LanguageTag<&str>> {tags:?} does not find {probe:?}"
        );
    }
}
