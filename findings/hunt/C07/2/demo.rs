//! C07 hunt, violation 2 -- drop into `isomorphism/tests/hunt_C07_2.rs`, run with
//! `cargo test -p sophia_isomorphism --test hunt_C07_2 --offline`
//!
//! Property C07: comparing a graph (dataset) with a copy of itself "whose statements are reordered
//! or held in a different container" must answer `true`.
//!
//! `sophia_api::graph::Graph` (resp. `Dataset`) explicitly allows an implementation to yield the
//! same triple (quad) several times ("the semantics of this trait allows a graph to contain
//! duplicate triples", "Users MUST therefore be prepared to deal with duplicates");
//! `Vec<[T; 3]>` is such a graph (`MutableGraph::insert` and `CollectibleGraph` simply push),
//! and so is `Dataset::union_graph()` when a triple occurs in two named graphs.
//! An RDF graph is a *set* of triples, so these containers hold the same RDF graph as their
//! deduplicated copy. `isomorphic_datasets` however compares the raw lengths of the two quad
//! lists, then zips the two sorted lists, without removing duplicates: it answers `false`.
use sophia_api::dataset::Dataset;
use sophia_api::graph::{Graph, MutableGraph};
use sophia_api::term::{BnodeId, IriRef, SimpleTerm};
use sophia_isomorphism::{isomorphic_datasets, isomorphic_graphs};
use std::collections::HashSet;

type T = SimpleTerm<'static>;

fn bn(label: &'static str) -> T {
    SimpleTerm::BlankNode(BnodeId::new_unchecked(label.into()))
}

fn iri(s: &'static str) -> T {
    SimpleTerm::Iri(IriRef::new_unchecked(s.into()))
}

/// Expected: the same triples inserted in a `Vec` graph and in a `HashSet` graph make isomorphic
/// graphs (in both directions), even if one triple is inserted twice.
#[test]
fn same_insertions_in_vec_and_in_hashset() {
    let mut g1: Vec<[T; 3]> = vec![];
    let mut g2: HashSet<[T; 3]> = HashSet::new();
    for label in ["b1", "b2", "b1"] {
        // NB: b1 is inserted twice
        let (p, o) = (iri("http://example.org/p"), iri("http://example.org/o"));
        MutableGraph::insert(&mut g1, bn(label), &p, &o).unwrap();
        MutableGraph::insert(&mut g2, bn(label), &p, &o).unwrap();
    }
    // both containers hold the same two distinct triples
    for t in g1.triples() {
        let [s, p, o] = t.unwrap();
        assert!(Graph::contains(&g2, s, p, o).unwrap());
    }
    for t in g2.triples() {
        let [s, p, o] = t.unwrap();
        assert!(Graph::contains(&g1, s, p, o).unwrap());
    }
    assert!(
        isomorphic_graphs(&g1, &g2).unwrap(),
        "Vec graph vs HashSet graph holding the same triples"
    );
    assert!(
        isomorphic_graphs(&g2, &g1).unwrap(),
        "HashSet graph vs Vec graph holding the same triples"
    );
}

/// Expected: two `Vec` graphs holding the same set of triples, with the same length but different
/// multiplicities, are isomorphic (they are even *equal* as RDF graphs).
#[test]
fn same_length_different_multiplicities() {
    let a = || [bn("b"), iri("http://example.org/p"), iri("http://example.org/o1")];
    let b = || [bn("b"), iri("http://example.org/p"), iri("http://example.org/o2")];
    let g1 = vec![a(), a(), b()];
    let g2 = vec![a(), b(), b()];
    assert!(isomorphic_graphs(&g1, &g2).unwrap());
    assert!(isomorphic_graphs(&g2, &g1).unwrap());
}

/// Expected: the union graph of a dataset where the same triple is asserted in two named graphs
/// is isomorphic to the plain graph containing that triple.
#[test]
fn union_graph_of_a_dataset() {
    let spo = || [bn("b"), iri("http://example.org/p"), iri("http://example.org/o")];
    let d: Vec<([T; 3], Option<T>)> = vec![
        (spo(), Some(iri("http://example.org/g1"))),
        (spo(), Some(iri("http://example.org/g2"))),
    ];
    let g1 = d.union_graph();
    let g2 = vec![[bn("x"), iri("http://example.org/p"), iri("http://example.org/o")]];
    assert!(isomorphic_graphs(&g1, &g2).unwrap());
    assert!(isomorphic_graphs(&g2, &g1).unwrap());
}

/// Expected: the same for datasets: a `Vec` of quads with a repeated quad is the same RDF dataset
/// as the `HashSet` of its quads.
#[test]
fn dataset_with_repeated_quad() {
    let q = |b: &'static str| -> ([T; 3], Option<T>) {
        (
            [bn(b), iri("http://example.org/p"), iri("http://example.org/o")],
            Some(bn("g")),
        )
    };
    let d1 = vec![q("b1"), q("b2"), q("b2")];
    let d2: HashSet<([T; 3], Option<T>)> = d1.iter().cloned().collect();
    assert_eq!(d2.len(), 2);
    assert!(isomorphic_datasets(&d1, &d2).unwrap());
    assert!(isomorphic_datasets(&d2, &d1).unwrap());
}
