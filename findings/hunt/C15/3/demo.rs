//! Drop into `xml/tests/hunt_C15_3.rs`, run with
//! `cargo test -p sophia_xml --test hunt_C15_3 --offline`.
//!
//! Property C15: if the source fails at item k (here: the RDF/XML document stops in the middle,
//! i.e. a syntax error "premature end of file" at statement k), the consumer gets exactly the
//! items before k AND the failure is reported as a `SourceError`.
//!
//! The RDF/XML source reports truncation only when the cut falls inside a tag. When the cut falls
//! between two tags (or inside character data), the stream simply ends with `Ok`: the consumer
//! cannot tell a complete document from the first few kilobytes of one, and even a half-read
//! literal is silently dropped. The Turtle-family parsers report "premature end of file" in the
//! equivalent situations.

use sophia_api::source::{StreamError, TripleSource};
use sophia_api::term::SimpleTerm;

type T3 = [SimpleTerm<'static>; 3];

const DOC: &str = r#"<?xml version="1.0"?>
<rdf:RDF xmlns:rdf="http://www.w3.org/1999/02/22-rdf-syntax-ns#" xmlns:ex="http://e/">
  <rdf:Description rdf:about="http://e/s0"><ex:p>0</ex:p></rdf:Description>
  <rdf:Description rdf:about="http://e/s1"><ex:p>1</ex:p></rdf:Description>
  <rdf:Description rdf:about="http://e/s2"><ex:p>2</ex:p></rdf:Description>
</rdf:RDF>"#;

fn parse(txt: &str) -> Result<Vec<T3>, String> {
    match sophia_xml::parser::parse_str(txt).collect_triples::<Vec<T3>>() {
        Ok(v) => Ok(v),
        Err(StreamError::SourceError(e)) => Err(format!("source: {e}")),
        Err(StreamError::SinkError(e)) => Err(format!("sink: {e}")),
    }
}

/// Control: the complete document has 3 triples.
#[test]
fn control_complete_document() {
    assert_eq!(parse(DOC).unwrap().len(), 3);
}

/// Expected: a document cut right after the first description (rdf:RDF never closed)
/// yields a SourceError. Observed: Ok with 1 triple.
#[test]
fn cut_between_two_descriptions_is_an_error() {
    let cut = DOC.find("  <rdf:Description rdf:about=\"http://e/s1\"").unwrap();
    let r = parse(&DOC[..cut]);
    assert!(r.is_err(), "truncated document accepted: {} triple(s)", r.unwrap().len());
}

/// Expected: a document cut in the middle of a literal yields a SourceError.
/// Observed: Ok with 1 triple, the half-read literal of statement 1 is dropped silently.
#[test]
fn cut_inside_character_data_is_an_error() {
    let cut = DOC.find("1</ex:p>").unwrap() + 1;
    assert!(DOC[..cut].ends_with("<ex:p>1"));
    let r = parse(&DOC[..cut]);
    assert!(r.is_err(), "truncated document accepted: {} triple(s)", r.unwrap().len());
}

/// Expected: EVERY proper prefix of the document (all of them lack `</rdf:RDF>`) is rejected,
/// except those consisting of the XML declaration / white space only (arguably an empty document).
#[test]
fn every_proper_prefix_is_an_error() {
    let body = DOC.find("<rdf:RDF").unwrap();
    let accepted: Vec<(usize, usize)> = (body + 1..DOC.len())
        .filter_map(|cut| parse(&DOC[..cut]).ok().map(|v| (cut, v.len())))
        .collect();
    assert!(
        accepted.is_empty(),
        "{} truncated prefixes were accepted as complete documents (byte length, triples delivered): {accepted:?}",
        accepted.len()
    );
}
