//! Drop into `turtle/tests/hunt_C15_4.rs`, run with
//! `cargo test -p sophia_turtle --test hunt_C15_4 --offline`.
//!
//! Property C15: if the source fails at item k, the failure is reported as a `SourceError`
//! *carrying the original error value*, and it is reported at all.
//!
//! For the Turtle and TriG sources, an I/O error of the underlying reader that happens while the
//! parser looks ahead for a keyword (`@prefix`, `@base`, `PREFIX`, `BASE`, `GRAPH`, `"""`, ...)
//! is swallowed. Depending on where it happens, the consumer then gets either
//! (a) a made-up *syntax* error ("unexpected character '@'") for a perfectly valid document, or
//! (b) no error at all.
//! The N-Triples source, fed by the same reader, reports the I/O error.

use sophia_api::quad::Spog;
use sophia_api::source::{QuadSource, StreamError, TripleSource};
use sophia_api::term::SimpleTerm;
use std::io::{self, BufReader, Read};

type T3 = [SimpleTerm<'static>; 3];

/// Delivers `data[..fail_at]`, then fails (once if `transient`, forever otherwise).
struct FailingReader<'a> {
    data: &'a [u8],
    pos: usize,
    fail_at: usize,
    transient: bool,
    failed: bool,
}
impl Read for FailingReader<'_> {
    fn read(&mut self, buf: &mut [u8]) -> io::Result<usize> {
        if self.pos >= self.fail_at && !(self.transient && self.failed) {
            self.failed = true;
            return Err(io::Error::new(io::ErrorKind::TimedOut, "boom"));
        }
        let end = if self.failed { self.data.len() } else { self.fail_at };
        let n = buf.len().min(end - self.pos);
        buf[..n].copy_from_slice(&self.data[self.pos..self.pos + n]);
        self.pos += n;
        Ok(n)
    }
}
fn reader(doc: &str, fail_at: usize, transient: bool) -> BufReader<FailingReader<'_>> {
    BufReader::new(FailingReader { data: doc.as_bytes(), pos: 0, fail_at, transient, failed: false })
}

const TTL: &str = "@prefix : <http://e/> .\n:s0 :p :o0 .\n:s1 :p :o1 .\n";

/// The connection breaks for good after 3 bytes (`@pr`).
/// Expected: SourceError carrying the I/O error ("boom").
/// Observed: SourceError("unexpected character '@' on line 1 at position 1").
#[test]
fn turtle_permanent_io_error_is_not_a_syntax_error() {
    let r: Result<Vec<T3>, _> =
        sophia_turtle::parser::turtle::parse_bufread(reader(TTL, 3, false)).collect_triples();
    match r {
        Err(StreamError::SourceError(e)) => {
            let msg = e.to_string();
            assert!(msg.contains("boom"), "the reader's error was replaced by: {msg:?}");
        }
        Err(StreamError::SinkError(_)) => unreachable!(),
        Ok(v) => panic!("the reader's error was not reported ({} triples)", v.len()),
    }
}

/// Same thing with TriG.
#[test]
fn trig_permanent_io_error_is_not_a_syntax_error() {
    let r: Result<Vec<Spog<SimpleTerm<'static>>>, _> =
        sophia_turtle::parser::trig::parse_bufread(reader(TTL, 3, false)).collect_quads();
    match r {
        Err(StreamError::SourceError(e)) => {
            let msg = e.to_string();
            assert!(msg.contains("boom"), "the reader's error was replaced by: {msg:?}");
        }
        Err(StreamError::SinkError(_)) => unreachable!(),
        Ok(v) => panic!("the reader's error was not reported ({} quads)", v.len()),
    }
}

/// One read times out after 26 bytes (the 24 bytes of the directive + `:s`, i.e. while the parser
/// examines the beginning of the first triple statement); the following reads succeed.
/// Expected: Err(SourceError(I/O error)), no item delivered
/// (this is what the N-Triples source does, see the control below).
/// Observed: Ok with all the triples, the error vanished.
#[test]
fn turtle_transient_io_error_is_reported() {
    let r: Result<Vec<T3>, _> =
        sophia_turtle::parser::turtle::parse_bufread(reader(TTL, 26, true)).collect_triples();
    match r {
        Err(StreamError::SourceError(e)) => assert!(e.to_string().contains("boom"), "{e}"),
        Err(StreamError::SinkError(_)) => unreachable!(),
        Ok(v) => panic!("the reader's error was not reported ({} triples delivered)", v.len()),
    }
}

/// Control: the N-Triples source reports the reader's error, at every fault position,
/// transient or not.
#[test]
fn control_ntriples_reports_the_io_error() {
    let nt = "<http://e/s0> <http://e/p> <http://e/o0> .\n<http://e/s1> <http://e/p> <http://e/o1> .\n";
    for transient in [false, true] {
        for fail_at in 0..nt.len() {
            let r: Result<Vec<T3>, _> =
                sophia_turtle::parser::nt::parse_bufread(reader(nt, fail_at, transient)).collect_triples();
            match r {
                Err(StreamError::SourceError(e)) => assert!(e.to_string().contains("boom"), "{e}"),
                _ => panic!("fail_at={fail_at}: expected a SourceError"),
            }
        }
    }
}
