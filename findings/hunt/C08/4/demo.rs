//! Hunt C08 / 4 -- drop into `turtle/tests/hunt_C08_4.rs`, run with
//! `cargo test -p sophia_turtle --test hunt_C08_4 --offline`
//! (every test aborts the whole test process with
//! "thread '...' has overflowed its stack / fatal runtime error: stack overflow" (SIGABRT);
//! run them one by one with `-- --exact <name>`)
//!
//! Property C08: "... deep nesting of collections/property lists/quoted triples ... It never
//! panics, overflows the stack or aborts, in debug or release builds."
//!
//! Defect: rio_turtle protects its recursive-descent parser with a nesting counter
//! (`increment_stack_size`, MAX_STACK_SIZE = 128 -> "The parser encountered more than 128 nested
//! constructions" error) but the counter is only consulted for `[...]`, `(...)` and `<<...>>`
//! in the *strict* Turtle/TriG/N-Triples/N-Quads code:
//! * Turtle / TriG annotations `{| ... |}` (Turtle-star) recurse
//!   parse_object_list -> parse_predicate_object_list -> parse_object_list ... without the counter;
//! * the Generalized TriG parser (gtrig.rs) never uses the counter at all: blank node property
//!   lists, collections, quoted triples and annotations all recurse without bound.
//! A few hundred to a few thousand nesting levels (debug build, 2 MiB test thread: ~400-1000)
//! abort the process; DEPTH below is chosen to also overflow an 8 MiB main thread in release builds.
//!
//! Expected behaviour for each test: the parser returns Ok or Err (e.g. the existing
//! "more than 128 nested constructions" error); the process must not abort.
use sophia_api::parser::{QuadParser, TripleParser};
use sophia_api::source::{QuadSource, TripleSource};
use sophia_turtle::parser::{gtrig::GTriGParser, trig::TriGParser, turtle::TurtleParser};

const DEPTH: usize = 100_000;

fn nested_annotations() -> String {
    format!(
        "<x:s> <x:p> <x:o> {} {} .",
        "{| <x:p> <x:o> ".repeat(DEPTH),
        "|}".repeat(DEPTH)
    )
}

#[test]
fn turtle_nested_annotations() {
    let doc = nested_annotations();
    let res = TurtleParser { base: None }.parse_str(&doc).for_each_triple(|_| ());
    println!("returned normally: {:?}", res.map_err(|e| e.to_string()));
}

#[test]
fn trig_nested_annotations() {
    let doc = nested_annotations();
    let res = TriGParser { base: None }.parse_str(&doc).for_each_quad(|_| ());
    println!("returned normally: {:?}", res.map_err(|e| e.to_string()));
}

#[test]
fn gtrig_nested_blank_node_property_lists() {
    let doc = format!(
        "<x:s> <x:p> {} <x:o> {} .",
        "[ <x:p> ".repeat(DEPTH),
        "]".repeat(DEPTH)
    );
    let res = GTriGParser { base: None }.parse_str(&doc).for_each_quad(|_| ());
    println!("returned normally: {:?}", res.map_err(|e| e.to_string()));
}

#[test]
fn gtrig_nested_collections() {
    let doc = format!("<x:s> <x:p> {} {} .", "( ".repeat(DEPTH), ")".repeat(DEPTH));
    let res = GTriGParser { base: None }.parse_str(&doc).for_each_quad(|_| ());
    println!("returned normally: {:?}", res.map_err(|e| e.to_string()));
}

#[test]
fn gtrig_nested_quoted_triples() {
    let doc = format!(
        "{} <x:s> <x:p> <x:o> {} <x:p> <x:o> .",
        "<< ".repeat(DEPTH),
        " >> <x:p> <x:o> ".repeat(DEPTH - 1) + ">>"
    );
    let res = GTriGParser { base: None }.parse_str(&doc).for_each_quad(|_| ());
    println!("returned normally: {:?}", res.map_err(|e| e.to_string()));
}

#[test]
fn control_strict_turtle_property_lists_are_guarded() {
    // (passes) the strict parser reports an error for the same nesting of [...]
    let doc = format!(
        "<x:s> <x:p> {} <x:o> {} .",
        "[ <x:p> ".repeat(DEPTH),
        "]".repeat(DEPTH)
    );
    let res = TurtleParser { base: None }.parse_str(&doc).for_each_triple(|_| ());
    assert!(res.is_err());
}
