//! Hunt C08 / 5 -- drop into `jsonld/tests/hunt_C08_5.rs`, run with
//! `cargo test -p sophia_jsonld --test hunt_C08_5 --offline`
//! (the failing tests abort the whole test process with
//! "thread '...' has overflowed its stack / fatal runtime error: stack overflow" (SIGABRT);
//! run them one by one with `-- --exact <name>`)
//!
//! Property C08: "... deep nesting of ... JSON arrays ... [the JSON-LD parser] never panics,
//! overflows the stack or aborts, in debug or release builds."
//!
//! Defect: `JsonLdParser::parse_str` parses the text with json-syntax (iterative, fine) and then
//! runs json-ld's expansion / node-map / to-RDF algorithms, which are (async) recursive on the
//! nesting of the JSON value, with very large frames:
//! json_ld_expansion::element::expand_element -> array::expand_array -> expand_element -> ...
//! Nothing bounds the nesting depth, so
//! * in a debug build, on a thread with the default 2 MiB stack (every `cargo test` thread, every
//!   `std::thread::spawn`), a document nested only ~20-40 levels deep aborts the process;
//!   on an 8 MiB main thread ~250 levels are enough;
//! * in any build, 100 000 levels (a 200 kB document) abort the process.
//!
//! Expected behaviour: Ok (possibly with zero quads) or Err; the process must not abort.
use sophia_api::parser::QuadParser;
use sophia_api::source::QuadSource;
use sophia_jsonld::parser::JsonLdParser;

fn run(doc: &str) {
    let mut n = 0usize;
    let res = JsonLdParser::new().parse_str(doc).for_each_quad(|_| n += 1);
    println!("returned normally: {n} quads, {:?}", res.map_err(|e| e.to_string()));
}

#[test]
fn arrays_64_deep() {
    // [[[[ ... ]]]]  -- aborts in debug builds (default `cargo test`)
    run(&format!("{}{}", "[".repeat(64), "]".repeat(64)));
}

#[test]
fn node_objects_64_deep() {
    // {"http://e/p": {"http://e/p": ... 1 ... }}  -- aborts in debug builds
    run(&format!("{}1{}", "{\"http://example.org/p\":".repeat(64), "}".repeat(64)));
}

#[test]
fn arrays_100000_deep() {
    // aborts in debug and release builds
    run(&format!("{}{}", "[".repeat(100_000), "]".repeat(100_000)));
}

#[test]
fn lists_100000_deep() {
    run(&format!(
        "{{\"http://example.org/p\":{}1{}}}",
        "{\"@list\":[".repeat(100_000),
        "]}".repeat(100_000)
    ));
}

#[test]
fn control_unbalanced_deep_document_is_a_plain_error() {
    // (passes) the JSON syntax layer copes with deep nesting
    let mut n = 0usize;
    let res = JsonLdParser::new().parse_str(&"[".repeat(100_000)).for_each_quad(|_| n += 1);
    assert!(res.is_err());
}
