//! Hunt C08 / 2 -- drop into `turtle/tests/hunt_C08_2.rs`, run with
//! `cargo test -p sophia_turtle --test hunt_C08_2 --offline`
//!
//! Property C08: for any input, a parser either reports an error or yields well-formed
//! statements; it never panics (debug or release).
//!
//! Defect: the generalized parsers (Generalized N-Quads; Generalized TriG when no base IRI is
//! configured, which is the default of `gtrig::parse_str`) panic on the *empty IRI reference* `<>`.
//! `<>` is a legal relative IRI reference (`IriRef::new("")` is Ok), and generalized RDF allows
//! relative IRI references. rio_turtle's `GeneralizedTripleAllocator` uses `NamedNode { iri: "" }`
//! as the "slot not filled yet" placeholder and checks the placeholder by value in
//! `debug_assert!`s, so a genuine `<>` in subject / predicate / graph-name position (or as the
//! subject of a finished triple) trips
//! `assertion failed: pos == 0 || !dummy(self.current()[pos - 1])` (gtriple_allocator.rs:96) or
//! `assertion failed: !dummy(self.incomplete_stack[self.incomplete_len - 1][0])` (gtriple_allocator.rs:53)
//! in debug builds.
use sophia_api::parser::QuadParser;
use sophia_api::quad::Quad;
use sophia_api::source::QuadSource;
use sophia_api::term::Term;
use sophia_turtle::parser::{gnq::GNQuadsParser, gtrig::GTriGParser};

/// Expected: the parser returns (Ok with one quad whose IRIs are valid IRI references) or Err; no panic.
fn check<P: for<'a> QuadParser<&'a [u8]>>(p: P, doc: &str) {
    let mut n = 0;
    let res = p.parse(doc.as_bytes()).for_each_quad(|q| {
        n += 1;
        for t in [Some(q.s()), Some(q.p()), Some(q.o()), q.g()].into_iter().flatten() {
            if let Some(iri) = t.iri() {
                assert!(sophia_iri::IriRef::new(iri.as_str()).is_ok());
            }
        }
    });
    if res.is_ok() {
        assert_eq!(n, 1, "{doc:?} is a valid generalized statement");
    }
}

#[test]
fn gnq_empty_iri_subject() {
    check(GNQuadsParser {}, "<> <http://example.org/p> <http://example.org/o> .\n");
}

#[test]
fn gnq_empty_iri_predicate() {
    check(GNQuadsParser {}, "<http://example.org/s> <> <http://example.org/o> .\n");
}

#[test]
fn gnq_empty_iri_object_is_fine() {
    // (passes: only the positions that are inspected by the debug assertions are affected)
    check(GNQuadsParser {}, "<http://example.org/s> <http://example.org/p> <> .\n");
}

#[test]
fn gnq_empty_iri_graph_name() {
    check(
        GNQuadsParser {},
        "<http://example.org/s> <http://example.org/p> <http://example.org/o> <> .\n",
    );
}

#[test]
fn gtrig_without_base_empty_iri_subject() {
    check(GTriGParser { base: None }, "<> <http://example.org/p> <http://example.org/o> .\n");
}

#[test]
fn gtrig_without_base_empty_iri_graph_name() {
    check(
        GTriGParser { base: None },
        "GRAPH <> { <http://example.org/s> <http://example.org/p> <http://example.org/o> }\n",
    );
}
