//! Hunt C08 / 3 -- drop into `turtle/tests/hunt_C08_3.rs`, run with
//! `cargo test -p sophia_turtle --test hunt_C08_3 --offline`
//!
//! Property C08: every parser (incl. the generalized variants) either reports an error or yields
//! terms that satisfy the toolkit's validity rules (IRIs accepted by `IriRef::new`); never a panic.
//!
//! Defect: the Generalized TriG parser performs NO validation of `<...>` IRI references when it
//! has no base IRI -- which is its default configuration (`GTriGParser::default()`,
//! `sophia_turtle::parser::gtrig::parse_str`). rio_turtle's `parse_generalized_iriref` only
//! validates as a side effect of resolving against the base; its `else` branch just copies the
//! characters between `<` and `>`. Spaces, `{`, `"`, `^`, bare `%`, control characters (via \u
//! escapes too) all get through, in every position, and also in `@prefix` / `@base` declarations.
//! * debug builds: `debug_assert!(IriRef::new(n.iri).is_ok())` panics (rio/src/model.rs `iri()`);
//! * release builds: an `IriRef` that is not an IRI reference is handed to the consumer.
//! (With a base IRI, and in the Generalized N-Quads parser, the same inputs are rejected.)
use sophia_api::parser::QuadParser;
use sophia_api::quad::Quad;
use sophia_api::source::QuadSource;
use sophia_api::term::Term;
use sophia_iri::IriRef;

/// Expected: Err(_) from the parser, or only valid IRI references. Never a panic.
fn check(doc: &str) {
    let mut iris: Vec<String> = vec![];
    // default configuration: no base
    let res = sophia_turtle::parser::gtrig::parse_str(doc).for_each_quad(|q| {
        for t in [Some(q.s()), Some(q.p()), Some(q.o()), q.g()].into_iter().flatten() {
            // NB: in debug builds this accessor is where the panic occurs
            if let Some(iri) = t.iri() {
                iris.push(iri.as_str().to_string());
            }
        }
    });
    if res.is_ok() {
        for iri in iris {
            assert!(
                IriRef::new(iri.as_str()).is_ok(),
                "GTriG parser yielded {iri:?}, which sophia_iri::IriRef::new rejects"
            );
        }
    }
}

#[test]
fn space_in_iri() {
    check("<http://example.org/s> <http://example.org/p> <http://example.org/a b> .\n");
}

#[test]
fn forbidden_ascii_in_iri() {
    check("<http://example.org/s> <http://example.org/p> <http://example.org/{\"^`|}> .\n");
}

#[test]
fn bare_percent_in_iri() {
    check("<http://example.org/s> <http://example.org/p> <http://example.org/100%> .\n");
}

#[test]
fn escaped_control_character_in_iri() {
    check("<http://example.org/s> <http://example.org/p> <http://example.org/\\u0000> .\n");
}

#[test]
fn invalid_namespace_in_prefix_declaration() {
    check("@prefix ex: <not an iri> .\nex:s ex:p ex:o .\n");
}

#[test]
fn control_sanity_same_input_is_rejected_with_a_base() {
    // (passes) shows that the intent is to reject such input
    use sophia_api::parser::QuadParser as _;
    let p = sophia_turtle::parser::gtrig::GTriGParser {
        base: Some(sophia_iri::Iri::new_unchecked("http://example.org/".to_string())),
    };
    let res = p
        .parse_str("<http://example.org/s> <http://example.org/p> <http://example.org/a b> .\n")
        .for_each_quad(|_| ());
    assert!(res.is_err());
}
