//! Hunt C19 / violation 1 -- drop into `resource/tests/hunt_C19_1.rs`, run with
//! `cargo test -p sophia_resource --test hunt_C19_1 --offline`.
//!
//! Property C19: for every IRI, `LocalLoader::get` either reports an error or returns the
//! content of a file located INSIDE the directory mapped to a configured namespace that
//! prefixes the IRI; no IRI -- coming from the caller or from links followed in loaded data --
//! makes it open a path outside those directories.
//!
//! The confinement check of `LocalLoader::get` is purely lexical (it only rejects `..`, a
//! leading `/`, ...). It never looks at what the joined path really designates, so any IRI
//! whose path crosses a symbolic link stored in the directory (a cache populated by `git clone`,
//! `tar x`, `rsync -l` ... can contain some) makes the loader open a file outside the
//! configured directory.
#![cfg(unix)]

use sophia_api::MownStr;
use sophia_api::term::SimpleTerm;
use sophia_iri::Iri;
use sophia_resource::{Loader, LoaderError, LocalLoader, Resource};
use std::fs;
use std::os::unix::fs::symlink;
use std::path::{Path, PathBuf};

type MyGraph = Vec<[SimpleTerm<'static>; 3]>;

const SECRET: &str = "<http://secret/s> <http://secret/p> \"SECRET\".\n";

/// Layout:
///   <tmp>/outside/secret.nt          <- NOT under the configured directory
///   <tmp>/root/index.nt              <- links to http://ex/up/outside/secret.nt
///   <tmp>/root/sub/                  <- a plain sub-directory
///   <tmp>/root/alias.nt  -> ../outside/secret.nt   (symlink to a file outside)
///   <tmp>/root/up        -> ..                      (symlink to a directory outside)
///   <tmp>/root/inner.nt  -> index.nt                (symlink staying inside: must keep working)
/// and the loader maps  http://ex/  ->  <tmp>/root
fn setup(name: &str) -> (PathBuf, LocalLoader) {
    let tmp = std::env::temp_dir().join(format!("hunt_C19_1_{name}_{}", std::process::id()));
    let _ = fs::remove_dir_all(&tmp);
    fs::create_dir_all(tmp.join("root/sub")).unwrap();
    fs::create_dir_all(tmp.join("outside")).unwrap();
    let tmp = tmp.canonicalize().unwrap();
    fs::write(tmp.join("outside/secret.nt"), SECRET).unwrap();
    fs::write(
        tmp.join("root/index.nt"),
        "<http://ex/index.nt> <http://ex/ns#link> <http://ex/up/outside/secret.nt>.\n",
    )
    .unwrap();
    symlink("../outside/secret.nt", tmp.join("root/alias.nt")).unwrap();
    symlink("..", tmp.join("root/up")).unwrap();
    symlink("index.nt", tmp.join("root/inner.nt")).unwrap();
    let ns: Iri<MownStr<'static>> = Iri::new_unchecked("http://ex/".into());
    let ldr = LocalLoader::new(vec![(ns, tmp.join("root"))]).unwrap();
    (tmp, ldr)
}

/// The property, as an oracle: a successful `get` must return the content of a file that is
/// really located under `root`.
fn assert_confined(ldr: &LocalLoader, root: &Path, iri: &str) {
    match ldr.get(Iri::new(iri).unwrap()) {
        Err(_) => {} // reporting an error is always fine
        Ok((data, _ctype)) => {
            let data = String::from_utf8_lossy(&data);
            assert_ne!(
                data, SECRET,
                "LocalLoader mapped to {root:?} returned for <{iri}> the content of a file that is outside that directory"
            );
        }
    }
}

/// Sanity check (passes): a symlink that stays inside the directory is not an escape,
/// and lexical escapes are rejected.
#[test]
fn sanity_inside_and_lexical() {
    let (tmp, ldr) = setup("sanity");
    let root = tmp.join("root");
    let (data, _) = ldr.get(Iri::new("http://ex/inner.nt").unwrap()).unwrap();
    assert_eq!(data, fs::read(root.join("index.nt")).unwrap());
    assert!(matches!(
        ldr.get(Iri::new("http://ex/../outside/secret.nt").unwrap()),
        Err(LoaderError::UnsupportedIri(..))
    ));
    let _ = fs::remove_dir_all(&tmp);
}

/// EXPECTED: an error (the file designated by the IRI is not inside <tmp>/root).
/// OBSERVED: Ok(content of <tmp>/outside/secret.nt).
#[test]
fn symlinked_file_must_not_escape() {
    let (tmp, ldr) = setup("file");
    assert_confined(&ldr, &tmp.join("root"), "http://ex/alias.nt");
    let _ = fs::remove_dir_all(&tmp);
}

/// Same thing through the content-negotiation emulation (no extension in the IRI).
#[test]
fn symlinked_file_must_not_escape_via_conneg() {
    let (tmp, ldr) = setup("conneg");
    assert_confined(&ldr, &tmp.join("root"), "http://ex/alias");
    let _ = fs::remove_dir_all(&tmp);
}

/// EXPECTED: an error: `up` leads out of <tmp>/root, whatever follows it.
/// OBSERVED: Ok(content of <tmp>/outside/secret.nt); with `up -> ..` (or `-> /`) the whole
/// file system is reachable, e.g. <http://ex/up/up/up/etc/hostname>-like IRIs.
#[test]
fn symlinked_directory_must_not_escape() {
    let (tmp, ldr) = setup("dir");
    let root = tmp.join("root");
    assert_confined(&ldr, &root, "http://ex/up/outside/secret.nt");
    assert_confined(&ldr, &root, "http://ex/sub//../up/outside/secret.nt"); // rejected lexically
    assert_confined(&ldr, &root, "http://ex/up/outside/secret"); // conneg
    assert_confined(&ldr, &root, "http://ex/up/outside/secret.nt#frag");
    let _ = fs::remove_dir_all(&tmp);
}

/// The escape is reachable from *data*: index.nt (inside the directory) links to
/// <http://ex/up/outside/secret.nt>; following that link with the Resource API must fail.
/// OBSERVED: the neighbour resource is loaded, its graph is the outside file.
#[test]
fn followed_link_must_not_escape() {
    let (tmp, ldr) = setup("link");
    let ldr = ldr.arced();
    let index: Resource<MyGraph, LocalLoader> = ldr
        .get_resource(Iri::new("http://ex/index.nt").unwrap())
        .unwrap();
    let link = Iri::new("http://ex/ns#link").unwrap();
    match index.get_resource(link) {
        Err(_) => {}
        Ok(neighbour) => {
            let leaked = neighbour.graph().iter().any(|[_, _, o]| {
                use sophia_api::term::Term;
                o.lexical_form().as_deref() == Some("SECRET")
            });
            assert!(
                !leaked,
                "following a link found in loaded data made the loader parse {:?}, which is outside the configured directory {:?}",
                tmp.join("outside/secret.nt"),
                tmp.join("root"),
            );
        }
    }
    let _ = fs::remove_dir_all(&tmp);
}
