//! Hunt C05 / 2 -- drop into `sophia/tests/hunt_C05_2.rs`, run with
//! `cargo test -p sophia --test hunt_C05_2 --offline`
//!
//! Property C05 (second half): the quads returned by `rdfc10::relabel*` are the input with the
//! relabelling map applied, i.e. a dataset isomorphic to the input whose blank nodes are named
//! c14n0..c14n(n-1). The terms of these quads (`C14nTerm`, documented as making up
//! "an impl of Dataset") must therefore be usable through the `Term`/`Dataset` API.
//!
//! `C14nTerm::triple()` and `C14nTerm::to_triple()` are `unimplemented!()` for EVERY term
//! (the `Term` contract says they return `None` for anything that is not a quoted triple),
//! so every generic consumer that calls `triple()`, `atoms()` or `constituents()` panics --
//! in particular `sophia::isomorphism::isomorphic_datasets`, the very function one uses to check
//! that the relabelled dataset is isomorphic to its input.
#![allow(non_snake_case)]

use sophia::api::prelude::*;
use sophia::api::quad::Spog;
use sophia::api::term::{BnodeId, SimpleTerm};
use sophia::c14n::rdfc10::relabel;
use sophia::iri::IriRef;
use sophia::isomorphism::isomorphic_datasets;
use std::collections::HashSet;

fn input() -> HashSet<Spog<SimpleTerm<'static>>> {
    let p: SimpleTerm = IriRef::new_unchecked("http://example.org/p".to_string()).into_term();
    let x: SimpleTerm = BnodeId::new_unchecked("x".to_string()).into_term();
    let y: SimpleTerm = BnodeId::new_unchecked("y".to_string()).into_term();
    let mut d = HashSet::new();
    d.insert(([x.clone(), p.clone(), y.clone()], None));
    d.insert(([y.clone(), p.clone(), "hello".into_term()], Some(x.clone())));
    d
}

/// EXPECTED (C05): the relabelled quads form a dataset isomorphic to the input.
/// OBSERVED: panic "not implemented" in c14n/src/_c14n_term.rs (C14nTerm::triple).
#[test]
fn relabelled_quads_are_isomorphic_to_input() {
    let d = input();
    let (quads, id_map) = relabel(&d).unwrap();
    assert_eq!(id_map.len(), 2);
    assert_eq!(quads.len(), 2);
    assert!(isomorphic_datasets(&d, &quads).unwrap());
}

/// EXPECTED (Term contract): `triple()` is `None` and `atoms()` / `constituents()` yield the term
/// itself for the (atomic) terms of the relabelled quads.
/// OBSERVED: panic "not implemented".
#[test]
fn relabelled_terms_honour_the_term_contract() {
    let d = input();
    let (quads, _) = relabel(&d).unwrap();
    for q in &quads {
        for t in [q.s(), q.p(), q.o()] {
            assert!(t.triple().is_none());
            assert_eq!(t.atoms().count(), 1);
            assert_eq!(t.constituents().count(), 1);
            assert!(t.clone().to_triple().is_none());
        }
    }
}
