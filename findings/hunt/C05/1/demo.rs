//! Hunt C05 / 1 -- drop into `sophia/tests/hunt_C05_1.rs`, run with
//! `cargo test -p sophia --test hunt_C05_1 --offline`
//!
//! Property C05: the canonical N-Quads written by `rdfc10::normalize*` must not depend on
//! blank node labels, insertion order or dataset implementation.
//!
//! When several blank nodes occur in the SAME quads (subject, object and graph name),
//! `hash_related_bnode` only encodes the position of the *related* node, not the position of the
//! reference node, so non-interchangeable nodes get equal first-degree AND equal n-degree hashes.
//! The ties are then broken by BTreeMap order of the ORIGINAL labels (step 5.2 / 5.3) and by the
//! order in which the dataset enumerates its quads (order of the permutations in step 5.4 of
//! hash-n-degree-quads), which makes the result label- and order-dependent.
#![allow(non_snake_case)]

use sophia::api::dataset::{MutableDataset, SetDataset};
use sophia::api::prelude::*;
use sophia::api::quad::Spog;
use sophia::api::term::{BnodeId, SimpleTerm};
use sophia::c14n::hash::{HashFunction, Sha256, Sha384};
use sophia::c14n::rdfc10::{DEFAULT_DEPTH_FACTOR, DEFAULT_PERMUTATION_LIMIT, normalize_with};
use sophia::inmem::dataset::LightDataset;
use sophia::iri::IriRef;
use std::collections::BTreeSet;

type MyQuad = Spog<SimpleTerm<'static>>;

fn b(label: &str) -> SimpleTerm<'static> {
    BnodeId::new_unchecked(label.to_string()).into_term()
}

fn p() -> SimpleTerm<'static> {
    IriRef::new_unchecked("http://example.org/p".to_string()).into_term()
}

/// quads are given as [s, o, g] indexes in `labels`; the predicate is always the same IRI
fn quads(shape: &[[usize; 3]], labels: &[&str]) -> Vec<MyQuad> {
    shape
        .iter()
        .map(|[s, o, g]| ([b(labels[*s]), p(), b(labels[*o])], Some(b(labels[*g]))))
        .collect()
}

fn c14n<H: HashFunction, D: SetDataset>(d: &D) -> String {
    let mut out = Vec::new();
    normalize_with::<H, _, _>(d, &mut out, DEFAULT_DEPTH_FACTOR, DEFAULT_PERMUTATION_LIMIT)
        .expect("canonicalisation must succeed");
    String::from_utf8(out).unwrap()
}

fn all_permutations(n: usize) -> Vec<Vec<usize>> {
    if n == 1 {
        return vec![vec![0]];
    }
    let mut ret = vec![];
    for p in all_permutations(n - 1) {
        for i in 0..n {
            let mut q = p.clone();
            q.insert(i, n - 1);
            ret.push(q);
        }
    }
    ret
}

/// All the datasets obtained from `shape` by a bijective renaming of the blank nodes
/// must have the same canonical form (with hash function H).
fn check_label_independence<H: HashFunction>(shape: &[[usize; 3]], names: &[&str]) {
    let mut outputs = BTreeSet::new();
    for perm in all_permutations(names.len()) {
        let labels: Vec<&str> = perm.iter().map(|i| names[*i]).collect();
        // LightDataset: deterministic enumeration order (depends on insertion order only)
        let mut d = LightDataset::new();
        for q in quads(shape, &labels) {
            d.insert_quad(q).unwrap();
        }
        assert_eq!(d.quads().count(), shape.len());
        outputs.insert(c14n::<H, _>(&d));
    }
    assert!(
        outputs.len() == 1,
        "isomorphic datasets (same shape, different blank node labels) got {} different canonical forms:\n{}",
        outputs.len(),
        outputs.into_iter().collect::<Vec<_>>().join("----\n"),
    );
}

/// The three "rotations" of one quad:
///   _:x <p> _:y _:z .   _:z <p> _:x _:y .   _:y <p> _:z _:x .
const TRIANGLE: [[usize; 3]; 3] = [[0, 1, 2], [2, 0, 1], [1, 2, 0]];

/// _:e0 <p> _:e0 _:e2 .   _:e1 <p> _:e2 _:e3 .   _:e3 <p> _:e4 _:e1 .
/// (_:e1 and _:e3 share two quads, in positions (s, g) and (g, s); they are NOT interchangeable)
const PAIR: [[usize; 3]; 3] = [[0, 0, 2], [1, 2, 3], [3, 4, 1]];

/// EXPECTED (C05): every relabelling of the blank nodes yields byte-identical canonical N-Quads.
#[test]
fn triangle_label_independent_sha256() {
    check_label_independence::<Sha256>(&TRIANGLE, &["a", "b", "c"]);
}

/// EXPECTED (C05): idem with the other hash function.
#[test]
fn triangle_label_independent_sha384() {
    check_label_independence::<Sha384>(&TRIANGLE, &["a", "b", "c"]);
}

/// EXPECTED (C05): every relabelling of the blank nodes yields byte-identical canonical N-Quads.
#[test]
fn pair_label_independent_sha256() {
    check_label_independence::<Sha256>(&PAIR, &["e0", "e1", "e2", "e3", "e4"]);
}

/// EXPECTED (C05): the canonical form of the SAME set of quads (same labels) does not depend on
/// the order in which the quads were inserted in the dataset.
#[test]
fn triangle_insertion_order_independent() {
    let qs = quads(&TRIANGLE, &["a", "b", "c"]);
    let mut outputs = BTreeSet::new();
    for perm in all_permutations(3) {
        let mut d = LightDataset::new();
        for i in perm {
            d.insert_quad(qs[i].clone()).unwrap();
        }
        assert_eq!(d.quads().count(), 3);
        outputs.insert(c14n::<Sha256, _>(&d));
    }
    assert!(
        outputs.len() == 1,
        "the same 3 quads inserted in different orders got {} different canonical forms:\n{}",
        outputs.len(),
        outputs.into_iter().collect::<Vec<_>>().join("----\n"),
    );
}
