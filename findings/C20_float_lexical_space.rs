//! Hunt (second pass) C20 / 2 -- drop into `api/tests/hunt_C20_2.rs`, run with
//! `cargo test -p sophia_api --test hunt_C20_2 --offline`
//!
//! Property C20: converting a literal to a native type never panics and,
//! WHEN IT SUCCEEDS, returns the value that the literal's lexical form denotes
//! (for all literals of the accepted numeric datatypes, including MALFORMED
//! lexical forms).
//!
//! `f64::try_from_term` accepts xsd:double, xsd:float and xsd:decimal and maps the
//! lexical form with `str::parse::<f64>()` / `str::parse::<f32>()`. The grammar of
//! Rust's float parser is a strict superset of the three XSD lexical spaces:
//!  * it accepts "inf", "infinity", "nan" in any letter case and with any sign
//!    ("Infinity", "-inf", "nan", "+NaN", "-NaN"), while the only special
//!    values of xsd:double / xsd:float are spelled "INF", "+INF", "-INF" and "NaN";
//!  * it accepts exponents and special values whatever the datatype, while the
//!    lexical space of xsd:decimal is `(+|-)?([0-9]+(.[0-9]*)?|.[0-9]+)` only, and
//!    its value space contains neither NaN nor the infinities.
//! Literals with such lexical forms are ill-typed: they denote no value
//! (RDF 1.1 Concepts, section 3.3), so the conversion has nothing to return and
//! must fail, exactly as it does for "foo"^^xsd:double. Instead it succeeds; for
//! xsd:decimal it even returns NaN / infinity, which no xsd:decimal can denote.
#![allow(non_snake_case)]

use sophia_api::ns::xsd;
use sophia_api::term::{Term, TermKind, TryFromTerm};

/// control: every shape of the three lexical spaces converts to the denoted value
#[test]
fn control_wellformed_forms_convert() {
    for (lex, val) in [
        ("1", 1.0_f64),
        ("-0", -0.0),
        ("+1.5", 1.5),
        ("5.", 5.0),
        (".5", 0.5),
        ("-.5e1", -5.0),
        ("1E+3", 1000.0),
        ("1e-3", 0.001),
        ("INF", f64::INFINITY),
        ("+INF", f64::INFINITY),
        ("-INF", f64::NEG_INFINITY),
    ] {
        for dt in [xsd::double, xsd::float] {
            let got = f64::try_from_term(lex * dt).unwrap();
            // 0.001 is not a single precision number
            let expected = if dt == xsd::float {
                f64::from(val as f32)
            } else {
                val
            };
            assert_eq!(got.to_bits(), expected.to_bits(), "\"{lex}\"^^{dt}");
        }
    }
    assert!(f64::try_from_term("NaN" * xsd::double).unwrap().is_nan());
    assert!(f64::try_from_term("NaN" * xsd::float).unwrap().is_nan());
    for (lex, val) in [
        ("1", 1.0_f64),
        ("-0", -0.0),
        ("+1.5", 1.5),
        ("5.", 5.0),
        (".5", 0.5),
        ("-00.250", -0.25),
    ] {
        let got = f64::try_from_term(lex * xsd::decimal).unwrap();
        assert_eq!(got.to_bits(), val.to_bits(), "\"{lex}\"^^xsd:decimal");
    }
    // control: other malformed forms are errors
    assert!(f64::try_from_term("foo" * xsd::double).is_err());
    assert!(f64::try_from_term("1e" * xsd::double).is_err());
    assert!(f64::try_from_term("" * xsd::decimal).is_err());
}

/// The value space of xsd:decimal has no NaN and no infinity,
/// and no lexical form of xsd:decimal has an exponent.
#[test]
fn decimal_has_no_special_value_and_no_exponent() {
    for lex in [
        "NaN", "INF", "-INF", "nan", "inf", "infinity", "1e3", "1E-3", "-.5e1",
    ] {
        let lit = lex * xsd::decimal;
        assert_eq!(lit.kind(), TermKind::Literal);
        let r = f64::try_from_term(lit.borrow_term());
        assert!(
            r.is_err(),
            "\"{lex}\"^^xsd:decimal is ill-typed (not in the lexical space of xsd:decimal), but f64::try_from_term returned {r:?}"
        );
    }
}

/// "1" followed by 400 zeros is a (well-typed) xsd:decimal denoting 10^400;
/// infinity is not that value, nor any value an xsd:decimal can denote:
/// the conversion can not succeed
/// (as "4294967296"^^xsd:integer -> i32 does not succeed).
#[test]
fn huge_decimal_is_not_infinity() {
    let lex = format!("1{}", "0".repeat(400));
    let r = f64::try_from_term(&lex[..] * xsd::decimal);
    assert!(
        !matches!(r, Ok(v) if v.is_infinite()),
        "\"1000...(400 zeros)\"^^xsd:decimal is a finite number, but f64::try_from_term returned {r:?}"
    );
}

/// The special values of xsd:double are spelled INF, +INF, -INF and NaN,
/// and nothing else.
#[test]
fn double_special_values_have_one_spelling() {
    for lex in [
        "inf",
        "-inf",
        "+inf",
        "Inf",
        "infinity",
        "Infinity",
        "-INFINITY",
        "nan",
        "NAN",
        "Nan",
        "-NaN",
        "+NaN",
    ] {
        let r = f64::try_from_term(lex * xsd::double);
        assert!(
            r.is_err(),
            "\"{lex}\"^^xsd:double is ill-typed (not in the lexical space of xsd:double), but f64::try_from_term returned {r:?}"
        );
    }
}

/// Same thing for xsd:float.
#[test]
fn float_special_values_have_one_spelling() {
    for lex in ["inf", "-inf", "infinity", "Infinity", "nan", "-NaN"] {
        let r = f64::try_from_term(lex * xsd::float);
        assert!(
            r.is_err(),
            "\"{lex}\"^^xsd:float is ill-typed (not in the lexical space of xsd:float), but f64::try_from_term returned {r:?}"
        );
    }
}
