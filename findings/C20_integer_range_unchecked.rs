//! Hunt (second pass) C20 / 1 -- drop into `api/tests/hunt_C20_1.rs`, run with
//! `cargo test -p sophia_api --test hunt_C20_1 --offline`
//!
//! Property C20: converting a literal to a native type never panics and,
//! WHEN IT SUCCEEDS, returns the value that the literal's lexical form denotes
//! (for all literals of the accepted numeric datatypes, with in-range and
//! OUT-OF-RANGE lexical forms).
//!
//! `i32::try_from_term`, `isize::try_from_term` and `usize::try_from_term`
//! accept a whitelist of twelve XSD integer datatypes, but then map the lexical
//! form with `str::parse::<i32|isize|usize>()` whatever the datatype is.
//! The derived datatypes are *restrictions* of xsd:integer: a digit string
//! outside the range of the datatype is not in its lexical space, the literal is
//! ill-typed and denotes no value at all (RDF 1.1 Concepts, section 3.3).
//! The conversion must therefore fail (as it does for "foo"^^xsd:integer or for
//! "4294967296"^^xsd:integer into i32); instead it succeeds and returns a number
//! that is not even a member of the value space of the datatype of the literal
//! (a negative xsd:unsignedInt, a positive xsd:negativeInteger, ...).
//!
//! The sibling implementation sparql/src/value.rs does check these facets
//! (`try_parse::<u8>` for xsd:unsignedByte, `.check(is_negative)` for
//! xsd:negativeInteger, ...), so the same literal is an error for the SPARQL
//! engine and a number for the native conversion.
#![allow(non_snake_case)]

use sophia_api::ns::xsd;
use sophia_api::term::{Term, TermKind, TryFromTerm};

/// control: in-range lexical forms convert to the value they denote
#[test]
fn control_in_range_forms_convert() {
    assert_eq!(i32::try_from_term("255" * xsd::unsignedByte).unwrap(), 255);
    assert_eq!(i32::try_from_term("-32768" * xsd::short).unwrap(), -32768);
    assert_eq!(i32::try_from_term("-1" * xsd::negativeInteger).unwrap(), -1);
    assert_eq!(
        i32::try_from_term("0" * xsd::nonPositiveInteger).unwrap(),
        0
    );
    assert_eq!(usize::try_from_term("1" * xsd::positiveInteger).unwrap(), 1);
    assert_eq!(
        usize::try_from_term("+0" * xsd::nonNegativeInteger).unwrap(),
        0
    );
    assert_eq!(
        isize::try_from_term("-2147483648" * xsd::int).unwrap(),
        -2147483648
    );
    // control: an out-of-range form for the *Rust* type is already an error
    assert!(i32::try_from_term("4294967296" * xsd::integer).is_err());
}

/// The unsigned datatypes and xsd:nonNegativeInteger have no negative member.
#[test]
fn negative_form_of_an_unsigned_datatype_is_not_a_number() {
    for (lex, dt) in [
        ("-5", xsd::nonNegativeInteger),
        ("-1", xsd::unsignedLong),
        ("-1", xsd::unsignedInt),
        ("-1", xsd::unsignedShort),
        ("-1", xsd::unsignedByte),
        ("-7", xsd::positiveInteger),
    ] {
        let lit = lex * dt;
        assert_eq!(lit.kind(), TermKind::Literal);
        let r = i32::try_from_term(lit.borrow_term());
        assert!(
            r.is_err(),
            "\"{lex}\"^^{dt} is ill-typed (no negative value in this datatype), but i32::try_from_term returned {r:?}"
        );
        let r = isize::try_from_term(lit.borrow_term());
        assert!(
            r.is_err(),
            "\"{lex}\"^^{dt} is ill-typed (no negative value in this datatype), but isize::try_from_term returned {r:?}"
        );
    }
}

/// xsd:negativeInteger / xsd:nonPositiveInteger have no positive member,
/// xsd:negativeInteger and xsd:positiveInteger do not contain zero.
#[test]
fn sign_restricted_datatypes() {
    let r = i32::try_from_term("5" * xsd::negativeInteger);
    assert!(
        r.is_err(),
        "\"5\"^^xsd:negativeInteger is ill-typed, but i32::try_from_term returned {r:?}"
    );
    let r = isize::try_from_term("5" * xsd::nonPositiveInteger);
    assert!(
        r.is_err(),
        "\"5\"^^xsd:nonPositiveInteger is ill-typed, but isize::try_from_term returned {r:?}"
    );
    let r = i32::try_from_term("0" * xsd::negativeInteger);
    assert!(
        r.is_err(),
        "\"0\"^^xsd:negativeInteger is ill-typed, but i32::try_from_term returned {r:?}"
    );
    let r = usize::try_from_term("0" * xsd::positiveInteger);
    assert!(
        r.is_err(),
        "\"0\"^^xsd:positiveInteger is ill-typed, but usize::try_from_term returned {r:?}"
    );
}

/// The bounded datatypes (long, int, short, unsignedInt, unsignedShort,
/// unsignedByte) have a maximum / minimum.
#[test]
fn form_beyond_the_bounds_of_the_datatype_is_not_a_number() {
    let r = i32::try_from_term("70000" * xsd::short);
    assert!(
        r.is_err(),
        "\"70000\"^^xsd:short is ill-typed (max 32767), but i32::try_from_term returned {r:?}"
    );
    let r = i32::try_from_term("-70000" * xsd::short);
    assert!(
        r.is_err(),
        "\"-70000\"^^xsd:short is ill-typed (min -32768), but i32::try_from_term returned {r:?}"
    );
    let r = usize::try_from_term("256" * xsd::unsignedByte);
    assert!(
        r.is_err(),
        "\"256\"^^xsd:unsignedByte is ill-typed (max 255), but usize::try_from_term returned {r:?}"
    );
    let r = i32::try_from_term("65536" * xsd::unsignedShort);
    assert!(
        r.is_err(),
        "\"65536\"^^xsd:unsignedShort is ill-typed (max 65535), but i32::try_from_term returned {r:?}"
    );
    #[cfg(target_pointer_width = "64")]
    {
        let r = isize::try_from_term("2147483648" * xsd::int);
        assert!(
            r.is_err(),
            "\"2147483648\"^^xsd:int is ill-typed (max 2147483647), but isize::try_from_term returned {r:?}"
        );
        let r = usize::try_from_term("4294967296" * xsd::unsignedInt);
        assert!(
            r.is_err(),
            "\"4294967296\"^^xsd:unsignedInt is ill-typed (max 4294967295), but usize::try_from_term returned {r:?}"
        );
        let r = usize::try_from_term("9223372036854775808" * xsd::long);
        assert!(
            r.is_err(),
            "\"9223372036854775808\"^^xsd:long is ill-typed (max 9223372036854775807), but usize::try_from_term returned {r:?}"
        );
    }
}
