use sophia_api::prelude::*;
use sophia_api::sparql::{SparqlDataset, SparqlResult};
use sophia_inmem::dataset::LightDataset;
use sophia_sparql::SparqlWrapper;

fn ds() -> LightDataset {
    let mut d = LightDataset::new();
    let s = Iri::new_unchecked("tag:s");
    let p = Iri::new_unchecked("tag:p");
    d.insert(s, p, 1, None as Option<Iri<&str>>).unwrap();
    d.insert(s, p, 2, None as Option<Iri<&str>>).unwrap();
    d
}

fn count(q: &str) -> Result<usize, String> {
    let d = ds();
    let w = SparqlWrapper(&d);
    match w.query(q) {
        Ok(SparqlResult::Bindings(b)) => {
            let mut n = 0;
            for r in b {
                r.map_err(|e| e.to_string())?;
                n += 1;
            }
            Ok(n)
        }
        Ok(SparqlResult::Boolean(b)) => Ok(b as usize),
        Ok(_) => Err("other".into()),
        Err(e) => Err(e.to_string()),
    }
}

#[test]
fn or_with_error_on_the_left() {
    // SPARQL 17.2: error || true = true  => both rows are kept
    assert_eq!(count("SELECT ?o { <tag:s> <tag:p> ?o FILTER(?unbound || true) }"), Ok(2));
}
#[test]
fn or_with_error_on_the_right() {
    assert_eq!(count("SELECT ?o { <tag:s> <tag:p> ?o FILTER(true || ?unbound) }"), Ok(2));
}
#[test]
fn and_with_error() {
    // error && false = false => !(..) is true => rows kept
    assert_eq!(count("SELECT ?o { <tag:s> <tag:p> ?o FILTER(!(?unbound && false)) }"), Ok(2));
}
#[test]
fn exists_with_unsupported_pattern_is_an_error() {
    let r = count("ASK { <tag:s> <tag:p> ?o FILTER NOT EXISTS { <tag:s> <tag:p> ?o OPTIONAL { ?o <tag:q> ?x } } }");
    assert!(r.is_err(), "got {:?}", r);
}
#[test]
fn if_with_ebv_error_is_an_error() {
    // IF(<iri>, 1, 2): EBV of an IRI is a type error => IF raises an error => ?v unbound
    assert_eq!(count("SELECT ?o { <tag:s> <tag:p> ?o BIND(IF(<tag:x>, 1, 2) AS ?v) FILTER(BOUND(?v)) }"), Ok(0));
}
