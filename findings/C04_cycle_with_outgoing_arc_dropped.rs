//! C04 hunt, violation 1 -- drop into `turtle/tests/hunt_C04_1.rs`, run with
//! `cargo test -p sophia_turtle --test hunt_C04_1 --offline`
//!
//! A blank node cycle from which an arc *leaves* towards another blank node
//! (the simplest case: `_:b :p _:b, _:a.`) is not detected by `build_labelled`:
//! the walk that starts at the outside node `_:a` enters the cycle, marks all its
//! nodes `visited` and stops without labelling any of them, and later walks skip
//! visited nodes. Every node of the component is then a `SubTree`, there is no
//! `Root` to start from, and the pretty serializer silently writes NOTHING for them.
//!
//! Expected (property C04): the pretty Turtle/TriG output parses back to a dataset
//! isomorphic to the input, whatever the shape of the blank node graph.

use sophia_api::prelude::*;
use sophia_api::quad::Spog;
use sophia_api::term::SimpleTerm;
use sophia_isomorphism::{isomorphic_datasets, isomorphic_graphs};
use sophia_turtle::parser::{trig, turtle};
use sophia_turtle::serializer::trig::{TrigConfig, TrigSerializer};
use sophia_turtle::serializer::turtle::{TurtleConfig, TurtleSerializer};

type MyGraph = Vec<[SimpleTerm<'static>; 3]>;
type MyDataset = Vec<Spog<SimpleTerm<'static>>>;

/// Serialize `src` (Turtle) in pretty Turtle, parse it back, and check the property.
fn check_turtle(src: &str) {
    let g1: MyGraph = turtle::parse_str(src).collect_triples().unwrap();
    let config = TurtleConfig::new().with_pretty(true);
    let out = TurtleSerializer::new_stringifier_with_config(config)
        .serialize_triples(g1.triples())
        .unwrap()
        .to_string();
    println!("---- input\n{src}\n---- pretty output\n{out}\n----");
    let g2: MyGraph = turtle::parse_str(&out)
        .collect_triples()
        .expect("pretty output must be valid Turtle");
    assert_eq!(
        g1.len(),
        g2.len(),
        "pretty Turtle must contain every triple exactly once"
    );
    assert!(
        isomorphic_graphs(&g1, &g2).unwrap(),
        "pretty Turtle must parse back to an isomorphic graph"
    );
}

/// The smallest trigger: a self-loop plus one arc to another blank node.
/// Expected: 2 triples out. Observed: 0 triples out (only the PREFIX lines are written).
#[test]
fn self_loop_with_outgoing_arc() {
    check_turtle("_:b <http://example.org/ns/p> _:b, _:a.");
}

/// A two-node cycle with a "tail" leaving it, the tail node having properties of its own.
/// (`_:a` sorts before the cycle nodes, so its walk is the first to enter the cycle.)
/// Expected: 4 triples out. Observed: 0.
#[test]
fn two_cycle_with_tail() {
    check_turtle(
        r#"PREFIX : <http://example.org/ns/>
           _:b :p _:c.
           _:c :p _:b.
           _:b :q _:a.
           _:a :name "tail".
        "#,
    );
}

/// The same with the rest of the graph being fine: only the component of the cycle is lost,
/// which makes the loss easy to miss.
/// Expected: 5 triples out. Observed: 1 (`:alice :name "Alice"`).
#[test]
fn only_the_component_is_lost() {
    check_turtle(
        r#"PREFIX : <http://example.org/ns/>
           :alice :name "Alice".
           _:x :knows _:y, _:friend.
           _:y :knows _:x.
           _:friend :name "f".
        "#,
    );
}

/// A cyclic rdf:first/rdf:rest structure (no rdf:nil) whose items are blank nodes:
/// the arcs leaving the cycle are the rdf:first ones.
/// Expected: 4 triples out. Observed: 0.
#[test]
fn cyclic_list_with_blank_items() {
    check_turtle(
        r#"PREFIX rdf: <http://www.w3.org/1999/02/22-rdf-syntax-ns#>
           _:l1 rdf:first _:a; rdf:rest _:l2.
           _:l2 rdf:first 1;   rdf:rest _:l1.
        "#,
    );
}

/// Same defect through the TriG serializer, inside a named graph:
/// Expected: `GRAPH <tag:g> { ... 3 quads ... }`. Observed: `GRAPH <tag:g> {}`.
#[test]
fn trig_named_graph() {
    let src = r#"PREFIX : <http://example.org/ns/>
        GRAPH <tag:g> { _:b :p _:c. _:c :p _:b. _:b :q _:a. }
    "#;
    let d1: MyDataset = trig::parse_str(src).collect_quads().unwrap();
    let config = TrigConfig::new().with_pretty(true);
    let out = TrigSerializer::new_stringifier_with_config(config)
        .serialize_quads(d1.quads())
        .unwrap()
        .to_string();
    println!("---- pretty output\n{out}\n----");
    let d2: MyDataset = trig::parse_str(&out)
        .collect_quads()
        .expect("pretty output must be valid TriG");
    assert_eq!(d1.len(), d2.len(), "every quad must be written exactly once");
    assert!(isomorphic_datasets(&d1, &d2).unwrap());
}

/// Control: the non-pretty (streaming) mode is not affected.
#[test]
fn control_streaming_mode_is_fine() {
    let src = "_:b <http://example.org/ns/p> _:b, _:a.";
    let g1: MyGraph = turtle::parse_str(src).collect_triples().unwrap();
    let out = TurtleSerializer::new_stringifier()
        .serialize_triples(g1.triples())
        .unwrap()
        .to_string();
    let g2: MyGraph = turtle::parse_str(&out).collect_triples().unwrap();
    assert!(isomorphic_graphs(&g1, &g2).unwrap());
}
