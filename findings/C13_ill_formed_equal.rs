//! Property C13 - "filters that raise type errors", "nothing spurious".
//!
//! Drop this file in `sparql/tests/hunt_C13_8.rs` and run
//! `cargo test -p sophia_sparql --test hunt_C13_8 --offline`.
//!
//! `SparqlValue::sparql_eq` (sparql/src/value.rs) compares the *parsed values* of two literals.
//! An ill-formed xsd:boolean / xsd:dateTime literal is represented by `Boolean(None)` / `DateTime(None)`,
//! and the arms
//!     (Boolean(b1), Boolean(b2))   => Some(b1 == b2)
//!     (DateTime(d1), DateTime(d2)) => d1.partial_cmp(d2).map(|o| o == Ordering::Equal)
//! compare the `Option`s: None == None, and None < Some(_). So
//!  * two *different* ill-formed literals of the same datatype are `=` (spurious solutions);
//!  * an ill-formed literal is `!=` to every well-formed one (instead of a type error).
//! SPARQL 17.4.1.7 (RDFterm-equal): two literals that are not the same RDF term and that can not be
//! compared by value raise a type error, and FILTER drops the solution.
use sophia_api::prelude::*;
use sophia_api::sparql::{Query, SparqlDataset, SparqlResult};
use sophia_inmem::dataset::LightDataset;
use sophia_sparql::{SparqlQuery, SparqlWrapper};

const PROLOGUE: &str = "PREFIX : <tag:> PREFIX xsd: <http://www.w3.org/2001/XMLSchema#> ";

#[allow(dead_code)]
fn dataset(trig: &str) -> LightDataset {
    sophia_turtle::parser::trig::parse_str(&format!("{PROLOGUE}{trig}"))
        .collect_quads()
        .expect("test data must parse")
}

/// Run a SELECT query; every row is rendered as "var=term var=term ..." (UNDEF for unbound),
/// and the rows are sorted, so that the result can be compared as a multiset.
#[allow(dead_code)]
fn select<D: Dataset>(d: &D, query: &str) -> Result<Vec<String>, String> {
    let query = SparqlQuery::parse(&format!("{PROLOGUE}{query}")).map_err(|e| e.to_string())?;
    let res = SparqlWrapper(d).query(&query).map_err(|e| e.to_string())?;
    let SparqlResult::Bindings(bindings) = res else {
        return Err("not a SELECT query".into());
    };
    let vars: Vec<String> = bindings.variables().iter().map(|v| (*v).to_string()).collect();
    let mut rows = vec![];
    for row in bindings {
        let row = row.map_err(|e| e.to_string())?;
        let cells: Vec<String> = vars
            .iter()
            .zip(row.iter())
            .map(|(v, t)| match t {
                Some(t) => format!("{v}={t}"),
                None => format!("{v}=UNDEF"),
            })
            .collect();
        rows.push(cells.join(" "));
    }
    rows.sort();
    Ok(rows)
}

/// Run an ASK query.
#[allow(dead_code)]
fn ask<D: Dataset>(d: &D, query: &str) -> Result<bool, String> {
    let query = SparqlQuery::parse(&format!("{PROLOGUE}{query}")).map_err(|e| e.to_string())?;
    match SparqlWrapper(d).query(&query).map_err(|e| e.to_string())? {
        SparqlResult::Boolean(b) => Ok(b),
        _ => Err("not an ASK query".into()),
    }
}

/// Expected: type error => the filter fails => false. Observed: true.
#[test]
fn different_ill_formed_booleans_are_not_equal() {
    let d = dataset("");
    assert_eq!(
        ask(&d, r#"ASK { FILTER("foo"^^xsd:boolean = "bar"^^xsd:boolean) }"#),
        Ok(false)
    );
}

/// Expected: false. Observed: true.
#[test]
fn different_ill_formed_date_times_are_not_equal() {
    let d = dataset("");
    assert_eq!(
        ask(&d, r#"ASK { FILTER("yesterday"^^xsd:dateTime = "tomorrow"^^xsd:dateTime) }"#),
        Ok(false)
    );
}

/// Expected: the same term is equal to itself, even if it is ill-formed (RDFterm-equal). (This holds.)
#[test]
fn same_ill_formed_term_is_equal_to_itself() {
    let d = dataset("");
    assert_eq!(
        ask(&d, r#"ASK { FILTER("foo"^^xsd:boolean = "foo"^^xsd:boolean) }"#),
        Ok(true)
    );
}

/// Expected: comparing an ill-formed literal with a well-formed one is a type error for `=` AND for
/// `!=` (both filters fail). Observed: `!=` is true.
#[test]
fn ill_formed_vs_well_formed_is_an_error_not_a_difference() {
    let d = dataset("");
    assert_eq!(
        ask(&d, r#"ASK { FILTER("foo"^^xsd:boolean = false) }"#),
        Ok(false)
    );
    assert_eq!(
        ask(&d, r#"ASK { FILTER("foo"^^xsd:boolean != false) }"#),
        Ok(false)
    );
    assert_eq!(
        ask(
            &d,
            r#"ASK { FILTER("n/a"^^xsd:dateTime != "2000-01-01T00:00:00Z"^^xsd:dateTime) }"#
        ),
        Ok(false)
    );
}

/// Expected: a self-join on equal dates of birth finds the real pair (:c, :d) only.
/// Observed: :a ("unknown") and :b ("n/a") are reported as born at the same time.
#[test]
fn join_on_equal_values_over_data() {
    let d = dataset(
        r#"
        :a :born "unknown"^^xsd:dateTime .
        :b :born "n/a"^^xsd:dateTime .
        :c :born "2000-01-01T12:00:00Z"^^xsd:dateTime .
        :d :born "2000-01-01T13:00:00+01:00"^^xsd:dateTime .
        "#,
    );
    assert_eq!(
        select(
            &d,
            "SELECT ?x ?y { ?x :born ?d1 . ?y :born ?d2 FILTER(?d1 = ?d2 && STR(?x) < STR(?y)) }"
        ),
        Ok(vec!["x=<tag:c> y=<tag:d>".to_string()])
    );
}
