//! Hunt C14 / violation 3 -- drop into `sparql/tests/hunt_C14_3.rs`, run with
//! `cargo test -p sophia_sparql --test hunt_C14_3 --offline`
//!
//! Property C14: "... any two values that SPARQL's '<' can compare (numerics of any type, ...)
//! appear in that order (reversed for DESC) ... The order used is a genuine total preorder,
//! so results are reproducible ..."
//!
//! NB: this is NOT the known defect about the fallback to `Term::cmp`: every pair of values
//! below is compared by value (`SparqlNumber::partial_cmp` answers `Some(_)` for all of them).
//!
//! `SparqlNumber::coercing_operator` promotes an integer or a decimal to f32 (resp. f64)
//! as soon as the other operand is an xsd:float (resp. xsd:double). This promotion is lossy:
//! all the integers 16777216 and 16777217 become the float 16777216.0. As a comparator for
//! sorting, this gives  16777216 == "1.6777216E7"^^xsd:float == 16777217  but
//! 16777216 < 16777217 : "equal" is not transitive, this is not a preorder, and the sort
//! leaves two *integers* (which '<' orders without any ambiguity) in the wrong order
//! whenever a float sits between them in the input.

use sophia_api::prelude::*;
use sophia_api::quad::Spog;
use sophia_api::sparql::Query;
use sophia_api::term::{IriRef, SimpleTerm};
use sophia_sparql::*;

const XSD: &str = "http://www.w3.org/2001/XMLSchema#";

fn lit(lex: &'static str, dt: &str) -> SimpleTerm<'static> {
    SimpleTerm::LiteralDatatype(lex.into(), IriRef::new_unchecked(format!("{XSD}{dt}").into()))
}

fn iri(i: String) -> SimpleTerm<'static> {
    SimpleTerm::Iri(IriRef::new_unchecked(i.into()))
}

/// Store the given values (one solution each, enumerated in the given order:
/// a `Vec` dataset enumerates its quads in insertion order),
/// and return `SELECT ?x { ?s <tag:v> ?x } ORDER BY <order>`.
fn order_by(values: &[SimpleTerm<'static>], order: &str) -> Vec<String> {
    let dataset: Vec<Spog<SimpleTerm<'static>>> = values
        .iter()
        .enumerate()
        .map(|(i, v)| ([iri(format!("tag:s{i}")), iri("tag:v".into()), v.clone()], None))
        .collect();
    let wrapper = SparqlWrapper(&dataset);
    let query = SparqlQuery::parse(&format!("SELECT ?x {{ ?s <tag:v> ?x }} ORDER BY {order}")).unwrap();
    wrapper
        .query(&query)
        .unwrap()
        .into_bindings()
        .into_iter()
        .map(|row| row.unwrap()[0].as_ref().unwrap().lexical_form().unwrap().to_string())
        .collect()
}

fn position(got: &[String], lex: &str) -> usize {
    got.iter().position(|l| l == lex).unwrap_or_else(|| panic!("{lex} missing in {got:?}"))
}

fn permutations<T: Clone>(items: &[T]) -> Vec<Vec<T>> {
    if items.len() <= 1 {
        return vec![items.to_vec()];
    }
    let mut res = vec![];
    for i in 0..items.len() {
        let mut rest = items.to_vec();
        let first = rest.remove(i);
        for mut p in permutations(&rest) {
            p.insert(0, first.clone());
            res.push(p);
        }
    }
    res
}

/// Check that, whatever the order in which the store enumerates `values`,
/// `small` comes before `big` with ORDER BY ?x, and after it with ORDER BY DESC(?x).
fn check_all_enumeration_orders(values: &[SimpleTerm<'static>], small: &str, big: &str) {
    let mut failures = vec![];
    for perm in permutations(values) {
        let got = order_by(&perm, "?x");
        if position(&got, small) > position(&got, big) {
            failures.push(format!("ORDER BY ?x       => {got:?}"));
        }
        let got = order_by(&perm, "DESC(?x)");
        if position(&got, small) < position(&got, big) {
            failures.push(format!("ORDER BY DESC(?x) => {got:?}"));
        }
    }
    assert!(
        failures.is_empty(),
        "{small} < {big}, but they are returned in the wrong order:\n{}",
        failures.join("\n")
    );
}

/// Expected: 16777216 < 16777217 (op:numeric-less-than on two xsd:integer),
/// so 16777216 is returned before 16777217, wherever the float is.
/// Observed: e.g. ["16777217", "1.6777216E7", "16777216"].
#[test]
fn float_between_two_integers() {
    check_all_enumeration_orders(
        &[lit("16777216", "integer"), lit("16777217", "integer"), lit("1.6777216E7", "float")],
        "16777216",
        "16777217",
    );
}

/// Expected: 9007199254740992 < 9007199254740993 (two xsd:integer).
/// Observed: e.g. ["9007199254740993", "9.007199254740992E15", "9007199254740992"].
#[test]
fn double_between_two_integers() {
    check_all_enumeration_orders(
        &[
            lit("9007199254740992", "integer"),
            lit("9007199254740993", "integer"),
            lit("9.007199254740992E15", "double"),
        ],
        "9007199254740992",
        "9007199254740993",
    );
}

/// Expected: 0.1 < 0.100000001 (two xsd:decimal).
/// Observed: e.g. ["0.100000001", "0.1", "0.1"] with the xsd:float "0.1" in the middle and the decimal 0.1 last.
#[test]
fn float_between_two_decimals() {
    check_all_enumeration_orders(
        &[lit("0.10", "decimal"), lit("0.100000001", "decimal"), lit("0.1", "float")],
        "0.10",
        "0.100000001",
    );
}

/// Expected: 10^39 < 2*10^39 (two xsd:decimal); both are promoted to +INF when compared to a float.
/// Observed: e.g. [2*10^39, "INF", 10^39].
#[test]
fn float_infinity_between_two_huge_decimals() {
    check_all_enumeration_orders(
        &[
            lit("1000000000000000000000000000000000000000.0", "decimal"),
            lit("2000000000000000000000000000000000000000.0", "decimal"),
            lit("INF", "float"),
        ],
        "1000000000000000000000000000000000000000.0",
        "2000000000000000000000000000000000000000.0",
    );
}

/// Expected: the integers of a larger result come out in ascending order.
/// Observed: they do not (the xsd:float values interleaved with them "glue" them together).
#[test]
fn twenty_integers_and_ten_floats() {
    let ints: Vec<String> = (0..20).map(|i| (16777216 + i).to_string()).collect();
    let mut values = vec![];
    // a fixed, scrambled enumeration order
    for k in 0..20 {
        let i = (k * 7 + 3) % 20;
        values.push(SimpleTerm::LiteralDatatype(
            ints[i].clone().into(),
            IriRef::new_unchecked(format!("{XSD}integer").into()),
        ));
        if k % 2 == 0 {
            values.push(SimpleTerm::LiteralDatatype(
                format!("{}.0", 16777216 + 2 * ((k * 3) % 10)).into(),
                IriRef::new_unchecked(format!("{XSD}float").into()),
            ));
        }
    }
    let got = order_by(&values, "?x");
    assert_eq!(got.len(), 30);
    let got_ints: Vec<String> = got.into_iter().filter(|l| !l.ends_with(".0")).collect();
    assert_eq!(got_ints, ints);
}

/// Control (passes): without any float or double, the integers are sorted properly.
#[test]
fn control_integers_only() {
    check_all_enumeration_orders(
        &[lit("16777216", "integer"), lit("16777217", "integer"), lit("16777218", "integer")],
        "16777216",
        "16777217",
    );
}
