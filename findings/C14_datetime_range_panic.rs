//! Hunt C14 / violation 1 -- drop into `sparql/tests/hunt_C14_1.rs`, run with
//! `cargo test -p sophia_sparql --test hunt_C14_1 --offline`
//!
//! Property C14: "... The order used is a genuine total preorder, so results are
//! reproducible and sorting NEVER PANICS."
//!
//! `XsdDateTime::partial_cmp` compares a timezoned dateTime with a timezone-less one
//! by attaching the offsets +14:00 / -14:00 to the timezone-less value
//! (`naive_to_fixed` in sparql/src/value/_xsd_date_time.rs). Near the ends of the range
//! that chrono can represent (years -262143 and 262142, both accepted by the parser of
//! this very module), shifting by 14 hours leaves the representable range,
//! `NaiveDateTime::and_local_timezone` answers `LocalResult::None`,
//! and the code runs into `unreachable!()`: ORDER BY panics.

use sophia_api::prelude::*;
use sophia_api::quad::Spog;
use sophia_api::sparql::Query;
use sophia_api::term::{IriRef, SimpleTerm};
use sophia_sparql::*;

const XSD: &str = "http://www.w3.org/2001/XMLSchema#";

fn lit(lex: &'static str, dt: &str) -> SimpleTerm<'static> {
    SimpleTerm::LiteralDatatype(lex.into(), IriRef::new_unchecked(format!("{XSD}{dt}").into()))
}

fn iri(i: String) -> SimpleTerm<'static> {
    SimpleTerm::Iri(IriRef::new_unchecked(i.into()))
}

/// Store the given values (one solution each, enumerated in the given order:
/// a `Vec` dataset enumerates its quads in insertion order),
/// and return `SELECT ?x { ?s <tag:v> ?x } ORDER BY <order>`.
fn order_by(values: &[SimpleTerm<'static>], order: &str) -> Vec<String> {
    let dataset: Vec<Spog<SimpleTerm<'static>>> = values
        .iter()
        .enumerate()
        .map(|(i, v)| ([iri(format!("tag:s{i}")), iri("tag:v".into()), v.clone()], None))
        .collect();
    let wrapper = SparqlWrapper(&dataset);
    let query = SparqlQuery::parse(&format!("SELECT ?x {{ ?s <tag:v> ?x }} ORDER BY {order}")).unwrap();
    wrapper
        .query(&query)
        .unwrap()
        .into_bindings()
        .into_iter()
        .map(|row| row.unwrap()[0].as_ref().unwrap().lexical_form().unwrap().to_string())
        .collect()
}

/// Expected: both are well-formed xsd:dateTime, and the first one is earlier than the
/// second one whatever its timezone is (XSD 3.2.7.4), so ORDER BY ?x must return them in this order
/// (and DESC in the opposite one). Observed: panic 'internal error: entered unreachable code'.
#[test]
fn earliest_year_without_timezone_vs_timezoned() {
    let early = lit("-262143-01-01T05:00:00", "dateTime");
    let now = lit("2024-01-01T00:00:00Z", "dateTime");
    let exp = vec!["-262143-01-01T05:00:00", "2024-01-01T00:00:00Z"];
    assert_eq!(order_by(&[now.clone(), early.clone()], "?x"), exp);
    assert_eq!(order_by(&[early.clone(), now.clone()], "?x"), exp);
    let exp_desc: Vec<_> = exp.iter().rev().copied().collect();
    assert_eq!(order_by(&[early, now], "DESC(?x)"), exp_desc);
}

/// Expected: these two values are less than 14 hours apart, so XSD can not order them,
/// and the implementation may put them in any order -- but it must return both of them.
/// Observed: panic 'internal error: entered unreachable code'.
#[test]
fn latest_year_without_timezone_vs_timezoned() {
    let a = lit("262142-12-31T20:00:00", "dateTime");
    let b = lit("262142-12-31T23:30:00Z", "dateTime");
    let mut got = order_by(&[a, b], "?x");
    got.sort();
    assert_eq!(got, vec!["262142-12-31T20:00:00", "262142-12-31T23:30:00Z"]);
}

/// Control (passes): away from the limits, the same comparison works.
#[test]
fn control_ordinary_years() {
    let early = lit("-2000-01-01T05:00:00", "dateTime");
    let now = lit("2024-01-01T00:00:00Z", "dateTime");
    assert_eq!(
        order_by(&[now, early], "?x"),
        vec!["-2000-01-01T05:00:00", "2024-01-01T00:00:00Z"]
    );
}
