//! C12 / finding 2 -- drop into `sophia/tests/hunt_C12_2.rs`, run with
//! `cargo test -p sophia --features jsonld --test hunt_C12_2 --offline`
//!
//! With `rdf_direction = compound-literal`, `is_compound_literal` (jsonld/src/serializer/engine.rs)
//! accepts a blank node as a compound literal as soon as rdf:value, rdf:direction (and
//! rdf:language) each have exactly one value that is *any* literal. The node is then replaced by
//! `{"@value": <lexical form of rdf:value>, "@direction": <lexical form of rdf:direction>,
//! "@language": <lexical form of rdf:language>}`: datatypes and language tags of the three
//! members are thrown away, and a direction other than "ltr"/"rtl" produces a document that no
//! JSON-LD processor accepts (so that *every* quad of the dataset is lost, not just these three).
//!
//! Expected (property C12): the serialised dataset parses back to a dataset isomorphic to the
//! input (same options on both sides); a node that can not be expressed as a value object with
//! `@direction` must stay an ordinary node object.
//!
//! NB: these tests do not depend on the JSON-LD *parser* understanding `@direction`
//! (see finding 4): after the suggested fix no `@direction` is emitted for these inputs.
#![cfg(feature = "jsonld")]

use sophia::api::prelude::*;
use sophia::api::quad::Spog;
use sophia::api::serializer::Stringifier;
use sophia::api::term::SimpleTerm;
use sophia::isomorphism::isomorphic_datasets;
use sophia::jsonld::options::RdfDirection;
use sophia::jsonld::{JsonLdOptions, JsonLdParser, JsonLdSerializer};
use sophia::turtle::parser::nq;
use std::collections::HashSet;

type Ds = HashSet<Spog<SimpleTerm<'static>>>;

fn opts() -> JsonLdOptions<sophia::jsonld::loader_factory::DefaultLoaderFactory<sophia::jsonld::loader::NoLoader>> {
    JsonLdOptions::new().with_rdf_direction(RdfDirection::CompoundLiteral)
}

/// serialise with compound-literal, parse back with compound-literal, compare
fn assert_round_trip(src: &str) {
    let input: Ds = nq::parse_str(src).collect_quads().unwrap();
    let mut ser = JsonLdSerializer::new_with_options(Vec::<u8>::new(), opts());
    ser.serialize_dataset(&input).unwrap();
    let json = ser.as_str().to_string();
    let output: Ds = JsonLdParser::new_with_options(opts())
        .parse_str(&json)
        .collect_quads()
        .unwrap_or_else(|e| panic!("the output is not valid JSON-LD: {e}\nJSON-LD: {json}"));
    assert!(
        isomorphic_datasets(&input, &output).unwrap(),
        "not isomorphic: {} quads in, {} quads out\nJSON-LD: {json}\nparsed back: {output:#?}",
        input.len(),
        output.len(),
    );
}

const VALUE: &str = "<http://www.w3.org/1999/02/22-rdf-syntax-ns#value>";
const DIRECTION: &str = "<http://www.w3.org/1999/02/22-rdf-syntax-ns#direction>";
const LANGUAGE: &str = "<http://www.w3.org/1999/02/22-rdf-syntax-ns#language>";

/// rdf:direction "up" is not a base direction: _:c is not a compound literal.
/// Observed: `{"@value":"v","@direction":"up"}`, which the parser rejects
/// ("Invalid base `@direction`"): the unrelated quad <tag:other> <tag:q> "kept" is lost too.
#[test]
fn invalid_direction_is_not_a_compound_literal() {
    assert_round_trip(&format!(
        r#"
        <tag:other> <tag:q> "kept" .
        <tag:s> <tag:p> _:c .
        _:c {VALUE} "v" .
        _:c {DIRECTION} "up" .
        "#
    ));
}

/// rdf:value is an xsd:integer: `{"@value":"1","@direction":"ltr"}` denotes the *string* "1".
#[test]
fn typed_value_is_not_a_compound_literal() {
    assert_round_trip(&format!(
        r#"
        <tag:s> <tag:p> _:c .
        _:c {VALUE} "1"^^<http://www.w3.org/2001/XMLSchema#integer> .
        _:c {DIRECTION} "ltr" .
        "#
    ));
}

/// rdf:value is itself language-tagged, rdf:direction is language-tagged.
#[test]
fn language_tagged_members_are_not_a_compound_literal() {
    assert_round_trip(&format!(
        r#"
        <tag:s> <tag:p> _:c .
        _:c {VALUE} "v"@fr .
        _:c {DIRECTION} "ltr"@en .
        "#
    ));
}

/// rdf:language is not a well-formed language tag.
#[test]
fn invalid_language_is_not_a_compound_literal() {
    assert_round_trip(&format!(
        r#"
        <tag:s> <tag:p> _:c .
        _:c {VALUE} "v" .
        _:c {DIRECTION} "rtl" .
        _:c {LANGUAGE} "not a language tag" .
        "#
    ));
}
