//! C12 / finding 4 (root cause in the json-ld dependency) -- drop into
//! `sophia/tests/hunt_C12_4.rs`, run with
//! `cargo test -p sophia --features jsonld --test hunt_C12_4 --offline`
//!
//! `rdf_direction = compound-literal` never round-trips, even for the textbook shape:
//! the serializer correctly folds the compound literal into
//! `{"@value":"v","@language":"en","@direction":"ltr"}`, but `JsonLdParser` (json-ld-core 0.15.1,
//! src/rdf.rs, `Value::rdf_value_with`, arm `Some(RdfDirection::CompoundLiteral)`) only
//! generates a fresh blank node for the value object and sets `triples: None`: the
//! rdf:value / rdf:language / rdf:direction triples that describe that blank node are never
//! produced. Text, language and direction are silently lost.
//!
//! Expected (property C12, "matching rdf_direction settings on both sides"): the serialised
//! dataset parses back to a dataset isomorphic to the input.
#![cfg(feature = "jsonld")]

use sophia::api::prelude::*;
use sophia::api::quad::Spog;
use sophia::api::serializer::Stringifier;
use sophia::api::term::SimpleTerm;
use sophia::isomorphism::isomorphic_datasets;
use sophia::jsonld::options::RdfDirection;
use sophia::jsonld::{JsonLdOptions, JsonLdParser, JsonLdSerializer};
use sophia::turtle::parser::nq;
use std::collections::HashSet;

type Ds = HashSet<Spog<SimpleTerm<'static>>>;
type Opts = JsonLdOptions<sophia::jsonld::loader_factory::DefaultLoaderFactory<sophia::jsonld::loader::NoLoader>>;

/// serialise with `opts()`, parse back with `opts()`, compare
fn assert_round_trip(src: &str, opts: fn() -> Opts) {
    let input: Ds = nq::parse_str(src).collect_quads().unwrap();
    let mut ser = JsonLdSerializer::new_with_options(Vec::<u8>::new(), opts());
    ser.serialize_dataset(&input).unwrap();
    let json = ser.as_str().to_string();
    let output: Ds = JsonLdParser::new_with_options(opts())
        .parse_str(&json)
        .collect_quads()
        .unwrap_or_else(|e| panic!("the output is not valid JSON-LD: {e}\nJSON-LD: {json}"));
    assert!(
        isomorphic_datasets(&input, &output).unwrap(),
        "not isomorphic: {} quads in, {} quads out\nJSON-LD: {json}\nparsed back: {output:#?}",
        input.len(),
        output.len(),
    );
}

fn compound() -> Opts {
    JsonLdOptions::new().with_rdf_direction(RdfDirection::CompoundLiteral)
}

/// Observed: 4 quads in, 1 quad out (`<tag:s> <tag:p> _:0 .`, and nothing about _:0).
#[test]
fn compound_literal_round_trips() {
    assert_round_trip(
        r#"
        <tag:s> <tag:p> _:c .
        _:c <http://www.w3.org/1999/02/22-rdf-syntax-ns#value> "v" .
        _:c <http://www.w3.org/1999/02/22-rdf-syntax-ns#language> "en" .
        _:c <http://www.w3.org/1999/02/22-rdf-syntax-ns#direction> "ltr" .
        "#,
        compound,
    );
}

/// The parser alone: JSON-LD 1.1 API, Object to RDF Conversion, step 13.3 (compound-literal):
/// a value object with @direction becomes a blank node with rdf:value, rdf:direction and
/// (if @language is present) rdf:language.
#[test]
fn parser_emits_the_compound_literal_triples() {
    let json = r#"[{"@id":"tag:s","tag:p":[{"@value":"v","@language":"en","@direction":"ltr"}]}]"#;
    let output: Ds = JsonLdParser::new_with_options(compound())
        .parse_str(json)
        .collect_quads()
        .unwrap();
    let expected: Ds = nq::parse_str(
        r#"
        <tag:s> <tag:p> _:c .
        _:c <http://www.w3.org/1999/02/22-rdf-syntax-ns#value> "v" .
        _:c <http://www.w3.org/1999/02/22-rdf-syntax-ns#language> "en" .
        _:c <http://www.w3.org/1999/02/22-rdf-syntax-ns#direction> "ltr" .
        "#,
    )
    .collect_quads()
    .unwrap();
    assert!(
        isomorphic_datasets(&expected, &output).unwrap(),
        "expected 4 quads, got {}: {output:#?}",
        output.len()
    );
}
