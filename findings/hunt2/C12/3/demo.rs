//! C12 / finding 3 -- drop into `sophia/tests/hunt_C12_3.rs`, run with
//! `cargo test -p sophia --features jsonld --test hunt_C12_3 --offline`
//!
//! With `rdf_direction = i18n-datatype`, `Engine::convert_rdf_object` treats EVERY datatype IRI
//! that starts with `https://www.w3.org/ns/i18n#` as "language_direction": it splits the rest at
//! the first '_' and emits `@language` / `@direction` from the two halves, whatever they are,
//! and never emits `@type`. Only IRIs of the form `i18n#[tag]_ltr` / `i18n#[tag]_rtl` come back
//! from such a value object; for every other IRI in that namespace the literal comes back with
//! another datatype, or the whole document is rejected by the parser.
//!
//! Expected (property C12): the serialised dataset parses back to a dataset isomorphic to the
//! input (i18n-datatype on both sides). A literal whose datatype does not encode a direction is
//! an ordinary typed literal and must be written as `{"@value": .., "@type": <the datatype>}`.
#![cfg(feature = "jsonld")]

use sophia::api::prelude::*;
use sophia::api::quad::Spog;
use sophia::api::serializer::Stringifier;
use sophia::api::term::SimpleTerm;
use sophia::isomorphism::isomorphic_datasets;
use sophia::jsonld::options::RdfDirection;
use sophia::jsonld::{JsonLdOptions, JsonLdParser, JsonLdSerializer};
use sophia::turtle::parser::nq;
use std::collections::HashSet;

type Ds = HashSet<Spog<SimpleTerm<'static>>>;

fn opts() -> JsonLdOptions<sophia::jsonld::loader_factory::DefaultLoaderFactory<sophia::jsonld::loader::NoLoader>> {
    JsonLdOptions::new().with_rdf_direction(RdfDirection::I18nDatatype)
}

/// serialise with i18n-datatype, parse back with i18n-datatype, compare
fn assert_round_trip(src: &str) {
    let input: Ds = nq::parse_str(src).collect_quads().unwrap();
    let mut ser = JsonLdSerializer::new_with_options(Vec::<u8>::new(), opts());
    ser.serialize_dataset(&input).unwrap();
    let json = ser.as_str().to_string();
    let output: Ds = JsonLdParser::new_with_options(opts())
        .parse_str(&json)
        .collect_quads()
        .unwrap_or_else(|e| panic!("the output is not valid JSON-LD: {e}\nJSON-LD: {json}"));
    assert!(
        isomorphic_datasets(&input, &output).unwrap(),
        "not isomorphic: {} quads in, {} quads out\nJSON-LD: {json}\nparsed back: {output:#?}",
        input.len(),
        output.len(),
    );
}


/// Observed: `{"@value":"x","@language":"en","@direction":"up"}`; the parser rejects the
/// document ("Invalid base `@direction`"), the unrelated quad is lost as well.
#[test]
fn direction_that_is_not_ltr_or_rtl() {
    assert_round_trip(
        r#"
        <tag:other> <tag:q> "kept" .
        <tag:s> <tag:p> "x"^^<https://www.w3.org/ns/i18n#en_up> .
        "#,
    );
}

/// The tag itself contains '_' (en_US instead of en-US): split at the FIRST '_' gives
/// `@language: "en"`, `@direction: "US_ltr"` -> document rejected.
#[test]
fn underscore_in_language_part() {
    assert_round_trip(r#"<tag:s> <tag:p> "x"^^<https://www.w3.org/ns/i18n#en_US_ltr> ."#);
}

/// No direction at all. Observed: `{"@value":"x","@language":"en"}` -> comes back as "x"@en
/// (an rdf:langString), not as "x"^^<https://www.w3.org/ns/i18n#en>.
#[test]
fn language_without_direction() {
    assert_round_trip(r#"<tag:s> <tag:p> "x"^^<https://www.w3.org/ns/i18n#en> ."#);
}

/// Empty direction. Observed: same as above, "x"@en.
#[test]
fn language_with_empty_direction() {
    assert_round_trip(r#"<tag:s> <tag:p> "x"^^<https://www.w3.org/ns/i18n#en_> ."#);
}

/// The bare namespace IRI (and `i18n#_`). Observed: `{"@value":"x"}` -> comes back as an
/// xsd:string.
#[test]
fn bare_namespace() {
    assert_round_trip(
        r#"
        <tag:s> <tag:p> "x"^^<https://www.w3.org/ns/i18n#> .
        <tag:s> <tag:p> "y"^^<https://www.w3.org/ns/i18n#_> .
        "#,
    );
}
