//! C12 / finding 1 -- drop into `sophia/tests/hunt_C12_1.rs`, run with
//! `cargo test -p sophia --features jsonld --test hunt_C12_1 --offline`
//!
//! With `rdf_direction = compound-literal`, the serializer folds EVERY blank node that looks like
//! a compound literal (rdf:value + rdf:direction [+ rdf:language]) into a value object at the
//! place(s) where it is referenced, and never emits it as a node object -- without checking that
//! it is referenced exactly once, from its own graph (the W3C algorithm says "referenced once").
//! A compound-literal-shaped node that nothing refers to (or that is only referred to from another
//! graph) therefore disappears from the output; one that is referred to twice is duplicated.
//!
//! Expected (property C12): the serialised dataset parses back to a dataset isomorphic to the
//! input (same options on both sides). A node that can not be folded must stay a node object.
//!
//! NB: none of these tests depends on the JSON-LD *parser* understanding `@direction`
//! (see finding 4): after the suggested fix no `@direction` is emitted for these inputs.
#![cfg(feature = "jsonld")]

use sophia::api::prelude::*;
use sophia::api::quad::Spog;
use sophia::api::serializer::Stringifier;
use sophia::api::term::SimpleTerm;
use sophia::isomorphism::isomorphic_datasets;
use sophia::jsonld::options::RdfDirection;
use sophia::jsonld::{JsonLdOptions, JsonLdParser, JsonLdSerializer};
use sophia::turtle::parser::nq;
use std::collections::HashSet;

type Ds = HashSet<Spog<SimpleTerm<'static>>>;

fn opts() -> JsonLdOptions<sophia::jsonld::loader_factory::DefaultLoaderFactory<sophia::jsonld::loader::NoLoader>> {
    JsonLdOptions::new().with_rdf_direction(RdfDirection::CompoundLiteral)
}

/// serialise with compound-literal, parse back with compound-literal, compare
fn assert_round_trip(src: &str) {
    let input: Ds = nq::parse_str(src).collect_quads().unwrap();
    let mut ser = JsonLdSerializer::new_with_options(Vec::<u8>::new(), opts());
    ser.serialize_dataset(&input).unwrap();
    let json = ser.as_str().to_string();
    let output: Ds = JsonLdParser::new_with_options(opts())
        .parse_str(&json)
        .collect_quads()
        .unwrap_or_else(|e| panic!("output does not parse: {e}\n{json}"));
    assert!(
        isomorphic_datasets(&input, &output).unwrap(),
        "not isomorphic: {} quads in, {} quads out\nJSON-LD: {json}\nparsed back: {output:#?}",
        input.len(),
        output.len(),
    );
}

const VALUE: &str = "<http://www.w3.org/1999/02/22-rdf-syntax-ns#value>";
const DIRECTION: &str = "<http://www.w3.org/1999/02/22-rdf-syntax-ns#direction>";
const LANGUAGE: &str = "<http://www.w3.org/1999/02/22-rdf-syntax-ns#language>";

/// Nothing refers to _:c : it can not be folded anywhere, so it must be kept as a node.
/// Observed: the output is `[]` (3 quads in, 0 out).
#[test]
fn unreferenced_compound_literal_is_kept() {
    assert_round_trip(&format!(
        r#"
        _:c {VALUE} "v" .
        _:c {DIRECTION} "ltr" .
        _:c {LANGUAGE} "en" .
        "#
    ));
}

/// _:c is described in the default graph and only referred to from graph <tag:g>.
/// Observed: `[{"@id":"tag:g","@graph":[{"@id":"tag:s","tag:p":[{"@id":"_:c"}]}]}]`:
/// the reference is kept as a node reference, the description is dropped (3 quads in, 1 out).
#[test]
fn compound_literal_referenced_from_another_graph_is_kept() {
    assert_round_trip(&format!(
        r#"
        <tag:s> <tag:p> _:c <tag:g> .
        _:c {VALUE} "v" .
        _:c {DIRECTION} "ltr" .
        "#
    ));
}

/// _:c is shared by two subjects: folding it at both places turns one blank node into two
/// (and, with the current parser, loses its description altogether: 4 quads in, 2 out).
#[test]
fn shared_compound_literal_is_kept() {
    assert_round_trip(&format!(
        r#"
        <tag:s1> <tag:p> _:c .
        <tag:s2> <tag:p> _:c .
        _:c {VALUE} "v" .
        _:c {DIRECTION} "ltr" .
        "#
    ));
}

/// _:c is referred to once in <tag:g1>, where it looks like a compound literal, but it is also
/// a subject in <tag:g2>: it must keep its label (same rule as for list nodes).
#[test]
fn compound_literal_described_in_two_graphs_is_kept() {
    assert_round_trip(&format!(
        r#"
        <tag:s> <tag:p> _:c <tag:g1> .
        _:c {VALUE} "v" <tag:g1> .
        _:c {DIRECTION} "ltr" <tag:g1> .
        _:c <tag:q> "x" <tag:g2> .
        "#
    ));
}
