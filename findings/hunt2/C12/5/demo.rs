//! C12 / finding 5 (root cause in the json-ld dependency) -- drop into
//! `sophia/tests/hunt_C12_5.rs`, run with
//! `cargo test -p sophia --features jsonld --test hunt_C12_5 --offline`
//!
//! `rdf_direction = i18n-datatype`, string with a base direction but NO language:
//! the datatype is `https://www.w3.org/ns/i18n#_ltr` (JSON-LD 1.1 API, Object to RDF Conversion,
//! step 13.2: language (here empty), then "_", then the direction). The serializer writes the
//! right value object, `{"@value":"x","@direction":"ltr"}`, but `JsonLdParser`
//! (json-ld-core 0.15.1, src/rdf.rs, `fn i18n`) builds `https://www.w3.org/ns/i18n#ltr`
//! -- without the underscore -- when there is no language. That IRI means "language ltr, no
//! direction" to every other processor (and to sophia's own serializer: a second round trip
//! turns it into "x"@ltr).
//!
//! Expected (property C12): the serialised dataset parses back to a dataset isomorphic to the
//! input (i18n-datatype on both sides).
#![cfg(feature = "jsonld")]

use sophia::api::prelude::*;
use sophia::api::quad::Spog;
use sophia::api::serializer::Stringifier;
use sophia::api::term::SimpleTerm;
use sophia::isomorphism::isomorphic_datasets;
use sophia::jsonld::options::RdfDirection;
use sophia::jsonld::{JsonLdOptions, JsonLdParser, JsonLdSerializer};
use sophia::turtle::parser::nq;
use std::collections::HashSet;

type Ds = HashSet<Spog<SimpleTerm<'static>>>;
type Opts = JsonLdOptions<sophia::jsonld::loader_factory::DefaultLoaderFactory<sophia::jsonld::loader::NoLoader>>;

/// serialise with `opts()`, parse back with `opts()`, compare
fn assert_round_trip(src: &str, opts: fn() -> Opts) {
    let input: Ds = nq::parse_str(src).collect_quads().unwrap();
    let mut ser = JsonLdSerializer::new_with_options(Vec::<u8>::new(), opts());
    ser.serialize_dataset(&input).unwrap();
    let json = ser.as_str().to_string();
    let output: Ds = JsonLdParser::new_with_options(opts())
        .parse_str(&json)
        .collect_quads()
        .unwrap_or_else(|e| panic!("the output is not valid JSON-LD: {e}\nJSON-LD: {json}"));
    assert!(
        isomorphic_datasets(&input, &output).unwrap(),
        "not isomorphic: {} quads in, {} quads out\nJSON-LD: {json}\nparsed back: {output:#?}",
        input.len(),
        output.len(),
    );
}

fn i18n() -> Opts {
    JsonLdOptions::new().with_rdf_direction(RdfDirection::I18nDatatype)
}

/// Observed: comes back as "x"^^<https://www.w3.org/ns/i18n#ltr>.
#[test]
fn direction_without_language_round_trips() {
    assert_round_trip(
        r#"<tag:s> <tag:p> "x"^^<https://www.w3.org/ns/i18n#_ltr> ."#,
        i18n,
    );
}

/// Same thing inside a list and in a named graph, with rtl.
#[test]
fn direction_without_language_in_list_round_trips() {
    assert_round_trip(
        r#"
        <tag:s> <tag:p> _:l <tag:g> .
        _:l <http://www.w3.org/1999/02/22-rdf-syntax-ns#first> "x"^^<https://www.w3.org/ns/i18n#_rtl> <tag:g> .
        _:l <http://www.w3.org/1999/02/22-rdf-syntax-ns#rest> <http://www.w3.org/1999/02/22-rdf-syntax-ns#nil> <tag:g> .
        "#,
        i18n,
    );
}

/// The parser alone, against the specification.
#[test]
fn parser_builds_the_datatype_with_an_underscore() {
    let json = r#"[{"@id":"tag:s","tag:p":[{"@value":"x","@direction":"ltr"}]}]"#;
    let output: Ds = JsonLdParser::new_with_options(i18n())
        .parse_str(json)
        .collect_quads()
        .unwrap();
    let expected: Ds = nq::parse_str(r#"<tag:s> <tag:p> "x"^^<https://www.w3.org/ns/i18n#_ltr> ."#)
        .collect_quads()
        .unwrap();
    assert_eq!(expected, output);
}
