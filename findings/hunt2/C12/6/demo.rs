//! C12 / finding 6 -- drop into `sophia/tests/hunt_C12_6.rs`, run with
//! `cargo test -p sophia --features jsonld --test hunt_C12_6 --offline`
//!
//! The four `JsonLdOptions` builders that change the document loader
//! (`with_document_loader_factory`, `with_document_loader_closure`,
//! `with_default_document_loader`, `with_document_loader`; jsonld/src/options.rs) rebuild the
//! struct with `use_rdf_type: self.use_native_types`: the `use_rdf_type` flag chosen by the
//! caller is discarded and replaced by the value of the (lossy) `use_native_types` flag.
//!
//! Consequence for property C12 ("with every lossless option setting ... use_rdf_type"):
//! a caller who asks for `use_rdf_type = true` and then sets a loader serialises with
//! `use_rdf_type = false`. Known defect findings/C12_typed_list_node.rs (a list node carrying
//! rdf:type rdf:List loses that triple) is documented as "with use_rdf_type the same dataset
//! round-trips" -- with these options it does not, although use_rdf_type was requested.
//!
//! Expected: the loader builders leave every other option untouched; the round trip with
//! use_rdf_type = true (requested before choosing the loader) is lossless.
#![cfg(feature = "jsonld")]

use sophia::api::prelude::*;
use sophia::api::quad::Spog;
use sophia::api::serializer::Stringifier;
use sophia::api::term::SimpleTerm;
use sophia::isomorphism::isomorphic_datasets;
use sophia::jsonld::{JsonLdOptions, JsonLdParser, JsonLdSerializer};
use sophia::turtle::parser::nq;
use std::collections::HashSet;

type Ds = HashSet<Spog<SimpleTerm<'static>>>;
type Opts = JsonLdOptions<sophia::jsonld::loader_factory::DefaultLoaderFactory<sophia::jsonld::loader::NoLoader>>;

/// serialise with `opts()`, parse back with `opts()`, compare
fn assert_round_trip(src: &str, opts: fn() -> Opts) {
    let input: Ds = nq::parse_str(src).collect_quads().unwrap();
    let mut ser = JsonLdSerializer::new_with_options(Vec::<u8>::new(), opts());
    ser.serialize_dataset(&input).unwrap();
    let json = ser.as_str().to_string();
    let output: Ds = JsonLdParser::new_with_options(opts())
        .parse_str(&json)
        .collect_quads()
        .unwrap_or_else(|e| panic!("the output is not valid JSON-LD: {e}\nJSON-LD: {json}"));
    assert!(
        isomorphic_datasets(&input, &output).unwrap(),
        "not isomorphic: {} quads in, {} quads out\nJSON-LD: {json}\nparsed back: {output:#?}",
        input.len(),
        output.len(),
    );
}

use sophia::jsonld::loader::NoLoader;

#[test]
fn loader_builders_keep_use_rdf_type() {
    let o = JsonLdOptions::new().with_use_rdf_type(true);
    assert!(o.use_rdf_type());
    let o = o.with_default_document_loader::<NoLoader>();
    assert!(
        o.use_rdf_type(),
        "with_default_document_loader reset use_rdf_type to false"
    );
}

#[test]
fn loader_builders_do_not_copy_use_native_types_into_use_rdf_type() {
    let o = JsonLdOptions::new()
        .with_use_native_types(true)
        .with_document_loader_closure(NoLoader::default);
    assert!(o.use_native_types());
    assert!(
        !o.use_rdf_type(),
        "with_document_loader_closure set use_rdf_type (never requested) to true"
    );
}

fn rdf_type_then_loader() -> Opts {
    JsonLdOptions::new()
        .with_use_rdf_type(true)
        .with_default_document_loader::<NoLoader>()
}

/// Observed: 4 quads in, 3 out (`_:l rdf:type rdf:List` is dropped), because the options
/// silently went back to use_rdf_type = false. With `JsonLdOptions::new().with_use_rdf_type(true)`
/// alone, or with the loader chosen *before* use_rdf_type, this dataset round-trips.
#[test]
fn use_rdf_type_requested_before_the_loader_is_honoured() {
    assert_round_trip(
        r#"
        <tag:s> <tag:p> _:l .
        _:l <http://www.w3.org/1999/02/22-rdf-syntax-ns#type> <http://www.w3.org/1999/02/22-rdf-syntax-ns#List> .
        _:l <http://www.w3.org/1999/02/22-rdf-syntax-ns#first> "a" .
        _:l <http://www.w3.org/1999/02/22-rdf-syntax-ns#rest> <http://www.w3.org/1999/02/22-rdf-syntax-ns#nil> .
        "#,
        rdf_type_then_loader,
    );
}
