//! Property C05: canonical N-Quads is a complete isomorphism invariant of the dataset.
//!
//! Drop this file in `c14n/tests/hunt_C05_1.rs` and run
//! `cargo test -p sophia_c14n --test hunt_C05_1 --offline`.
//!
//! None of the datasets below has a blank node as graph name (that case is already known).
//! All graph names are IRIs (or the default graph). The blank nodes are linked by quads that
//! have the same predicate but sit in different graphs. Hash Related Blank Node
//! (`C14nState::hash_related_bnode`) only hashes the position and the predicate of the quad
//! that links two blank nodes, not its graph name, so blank nodes / permutations that are NOT
//! interchangeable get equal n-degree hashes and equal paths; the tie is then resolved
//! by the original labels (step 5.3, `sort_unstable_by_key` over a list built in label order)
//! and by the order in which the dataset enumerates its quads (step 5.4.6, first of several
//! equal paths wins).

use sophia_api::dataset::{DResult, Dataset, SetDataset};
use sophia_api::quad::Spog;
use sophia_api::term::{BnodeId, IriRef, SimpleTerm};
use std::collections::BTreeSet;

use sophia_c14n::hash::{HashFunction, Sha256, Sha384};
use sophia_c14n::rdfc10::{DEFAULT_DEPTH_FACTOR, DEFAULT_PERMUTATION_LIMIT, normalize_with};

/// A set dataset that enumerates its quads in insertion order
/// (the caller guarantees that there is no duplicate).
struct Ordered<'a>(Vec<Spog<SimpleTerm<'a>>>);

impl<'a> Dataset for Ordered<'a> {
    type Quad<'x>
        = Spog<&'x SimpleTerm<'a>>
    where
        Self: 'x;
    type Error = std::convert::Infallible;

    fn quads(&self) -> impl Iterator<Item = DResult<Self, Self::Quad<'_>>> + '_ {
        self.0
            .iter()
            .map(|(spo, g)| Ok(([&spo[0], &spo[1], &spo[2]], g.as_ref())))
    }
}

impl SetDataset for Ordered<'_> {}

fn term(txt: &str) -> SimpleTerm<'_> {
    if let Some(label) = txt.strip_prefix("_:") {
        SimpleTerm::BlankNode(BnodeId::new_unchecked(label.into()))
    } else {
        let iri = txt.strip_prefix('<').unwrap().strip_suffix('>').unwrap();
        SimpleTerm::Iri(IriRef::new_unchecked(iri.into()))
    }
}

/// Parse lines of the form `s p o` or `s p o g` (terms separated by one space, no final dot).
fn dataset<'a>(lines: &[&'a str]) -> Ordered<'a> {
    Ordered(
        lines
            .iter()
            .map(|line| {
                let tk: Vec<&str> = line.split(' ').collect();
                assert!(tk.len() == 3 || tk.len() == 4);
                (
                    [term(tk[0]), term(tk[1]), term(tk[2])],
                    tk.get(3).map(|g| term(g)),
                )
            })
            .collect(),
    )
}

fn normalize<H: HashFunction, D: SetDataset>(d: &D) -> String {
    let mut out = Vec::new();
    normalize_with::<H, _, _>(d, &mut out, DEFAULT_DEPTH_FACTOR, DEFAULT_PERMUTATION_LIMIT)
        .expect("canonicalisation succeeds");
    String::from_utf8(out).unwrap()
}

/// Canonical N-Quads of the given quads, enumerated in the given order.
fn c14n_ordered<H: HashFunction>(lines: &[&str]) -> String {
    normalize::<H, _>(&dataset(lines))
}

/// Canonical N-Quads of the given quads, stored in a `BTreeSet`
/// (a `SetDataset` provided by sophia_api, which enumerates the quads in the order of their terms,
/// hence of the blank node labels).
fn c14n<H: HashFunction>(lines: &[&str]) -> String {
    let d: BTreeSet<Spog<SimpleTerm>> = dataset(lines).0.into_iter().collect();
    normalize::<H, _>(&d)
}

// ---------------------------------------------------------------------------------------------
// 1. K(2,2): n1,n2 -> m1,m2 ; the four quads are spread over two IRI-named graphs
// ---------------------------------------------------------------------------------------------

const K22: [&str; 4] = [
    "_:n1 <tag:p> _:m1 <tag:g1>",
    "_:n1 <tag:p> _:m2 <tag:g2>",
    "_:n2 <tag:p> _:m1 <tag:g2>",
    "_:n2 <tag:p> _:m2 <tag:g1>",
];

/// The same dataset where the labels m1 and m2 have been exchanged
/// (a label bijection, hence an isomorphic dataset).
const K22_RELABELLED: [&str; 4] = [
    "_:n1 <tag:p> _:m2 <tag:g1>",
    "_:n1 <tag:p> _:m1 <tag:g2>",
    "_:n2 <tag:p> _:m2 <tag:g2>",
    "_:n2 <tag:p> _:m1 <tag:g1>",
];

/// EXPECTED: two datasets that only differ by a bijection of their blank node labels
/// get byte-identical canonical N-Quads (SHA-256).
#[test]
fn k22_two_named_graphs_label_independent_sha256() {
    let a = c14n::<Sha256>(&K22);
    let b = c14n::<Sha256>(&K22_RELABELLED);
    assert_eq!(a, b, "canonical form depends on the blank node labels");
}

/// EXPECTED: same thing with SHA-384.
#[test]
fn k22_two_named_graphs_label_independent_sha384() {
    let a = c14n::<Sha384>(&K22);
    let b = c14n::<Sha384>(&K22_RELABELLED);
    assert_eq!(a, b, "canonical form depends on the blank node labels");
}

/// EXPECTED: the canonical form of a dataset does not depend on the order
/// in which the dataset enumerates its quads (same labels, same quads, reverse order).
#[test]
fn k22_two_named_graphs_order_independent() {
    let mut reversed = K22;
    reversed.reverse();
    let a = c14n_ordered::<Sha256>(&K22);
    let b = c14n_ordered::<Sha256>(&reversed);
    assert_eq!(a, b, "canonical form depends on the enumeration order of the quads");
}

/// EXPECTED: the canonical form does not depend on the dataset implementation, nor on the
/// (random) iteration order of a `HashSet`: 64 `HashSet`s holding the same four quads
/// (each with its own `RandomState`) all get the canonical form of the `BTreeSet`.
#[test]
fn k22_two_named_graphs_hashset_deterministic() {
    let reference = c14n::<Sha256>(&K22);
    for _ in 0..64 {
        let d: std::collections::HashSet<Spog<SimpleTerm>> =
            dataset(&K22).0.into_iter().collect();
        assert_eq!(
            normalize::<Sha256, _>(&d),
            reference,
            "canonical form depends on the iteration order of the HashSet"
        );
    }
}

// ---------------------------------------------------------------------------------------------
// 2. three blank nodes: a directed triangle in the default graph,
//    and the reverse triangle in ONE named graph
// ---------------------------------------------------------------------------------------------

const TRIANGLE: [&str; 6] = [
    "_:x <tag:p> _:y",
    "_:y <tag:p> _:z",
    "_:z <tag:p> _:x",
    "_:y <tag:p> _:x <tag:g>",
    "_:z <tag:p> _:y <tag:g>",
    "_:x <tag:p> _:z <tag:g>",
];

/// labels x and y exchanged
const TRIANGLE_RELABELLED: [&str; 6] = [
    "_:y <tag:p> _:x",
    "_:x <tag:p> _:z",
    "_:z <tag:p> _:y",
    "_:x <tag:p> _:y <tag:g>",
    "_:z <tag:p> _:x <tag:g>",
    "_:y <tag:p> _:z <tag:g>",
];

/// EXPECTED: label independence, for a dataset that uses only the default graph and one named graph.
#[test]
fn triangle_default_and_named_graph_label_independent() {
    let a = c14n::<Sha256>(&TRIANGLE);
    let b = c14n::<Sha256>(&TRIANGLE_RELABELLED);
    assert_eq!(a, b, "canonical form depends on the blank node labels");
}

/// EXPECTED: order independence for the same dataset.
#[test]
fn triangle_default_and_named_graph_order_independent() {
    let mut reversed = TRIANGLE;
    reversed.reverse();
    let a = c14n_ordered::<Sha256>(&TRIANGLE);
    let b = c14n_ordered::<Sha256>(&reversed);
    assert_eq!(a, b, "canonical form depends on the enumeration order of the quads");
}

// ---------------------------------------------------------------------------------------------
// 3. two components that are NOT isomorphic to each other, but that only differ by the graph
//    in which their quads sit: all eight nodes get the same n-degree hash,
//    and step 5.3 orders them by their original labels
// ---------------------------------------------------------------------------------------------

/// Component `x`, four nodes x0..x3:
///  * if `swapped` is false: default graph x_i -> x_(i+1), graph <tag:g> x_i -> x_(i+2)
///  * if `swapped` is true:  default graph x_i -> x_(i+2), graph <tag:g> x_i -> x_(i+1)
///
/// (in the first one, the default graph holds a cycle of length 4,
/// in the second one it holds two cycles of length 2)
fn component(x: &str, swapped: bool) -> Vec<String> {
    let mut lines = vec![];
    for i in 0..4 {
        let (d, g) = if swapped { (2, 1) } else { (1, 2) };
        lines.push(format!("_:{x}{i} <tag:p> _:{x}{}", (i + d) % 4));
        lines.push(format!("_:{x}{i} <tag:p> _:{x}{} <tag:g>", (i + g) % 4));
    }
    lines
}

/// EXPECTED: exchanging the labels of the two components (a_i <-> b_i) does not change
/// the canonical form.
#[test]
fn two_components_label_independent() {
    let mut d1 = component("a", false);
    d1.extend(component("b", true));
    let mut d2 = component("b", false);
    d2.extend(component("a", true));
    let d1: Vec<&str> = d1.iter().map(String::as_str).collect();
    let d2: Vec<&str> = d2.iter().map(String::as_str).collect();
    let a = c14n::<Sha256>(&d1);
    let b = c14n::<Sha256>(&d2);
    assert_eq!(a, b, "canonical form depends on the blank node labels");
}
