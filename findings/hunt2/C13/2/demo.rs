//! C13 / hunt2 / 2 -- the comparison operators <, >, <=, >= raise an error
//! when a numeric operand is NaN, instead of returning false.
//!
//! Drop into `sparql/tests/hunt_C13_2.rs`, run with
//! `cargo test -p sophia_sparql --test hunt_C13_2 --offline`.
//!
//! SPARQL 17.3 maps `A < B` on numerics to op:numeric-less-than, `A > B` to
//! op:numeric-greater-than, `A <= B` to
//! logical-or(op:numeric-less-than(A, B), op:numeric-equal(A, B)), etc.
//! XPath F&O (https://www.w3.org/TR/xpath-functions/#func-numeric-less-than):
//! "If $arg1 or $arg2 is NaN, the function returns false"; same for numeric-equal
//! and numeric-greater-than. None of them raises an error.
//! `EvalResult::sparql_cmp` returns `partial_cmp`, i.e. `None` (= expression error)
//! as soon as an operand is NaN; `=` and `!=` are right (false / true).
//! Consequences: `FILTER(!(?v < 1))` drops the NaN rows it must keep,
//! `BIND(?v < 1 AS ?x)` leaves ?x unbound instead of false,
//! `ASK { ... FILTER(!(?v >= 0)) }` answers false instead of true.

use sophia_api::prelude::*;
use sophia_api::sparql::Query;
use sophia_inmem::dataset::LightDataset;
use sophia_sparql::*;

const DATA: &str = r#"
    PREFIX : <tag:>
    PREFIX xsd: <http://www.w3.org/2001/XMLSchema#>
    :m1 :value "NaN"^^xsd:double .
    :m2 :value 0.5e0 .
    :m3 :value 2 .
"#;

fn dataset() -> LightDataset {
    sophia_turtle::parser::trig::parse_str(DATA)
        .collect_quads()
        .unwrap()
}

fn select(q: &str) -> Vec<Vec<Option<String>>> {
    let dataset = dataset();
    let dataset = SparqlWrapper(&dataset);
    let query = SparqlQuery::parse(&format!(
        "PREFIX : <tag:> PREFIX xsd: <http://www.w3.org/2001/XMLSchema#> {q}"
    ))
    .unwrap();
    let mut rows: Vec<Vec<Option<String>>> = dataset
        .query(&query)
        .unwrap()
        .into_bindings()
        .into_iter()
        .map(|row| {
            row.unwrap()
                .into_iter()
                .map(|t| t.map(|t| t.to_string()))
                .collect()
        })
        .collect();
    rows.sort();
    rows
}

fn ask(q: &str) -> bool {
    let dataset = dataset();
    let dataset = SparqlWrapper(&dataset);
    let query = SparqlQuery::parse(&format!(
        "PREFIX : <tag:> PREFIX xsd: <http://www.w3.org/2001/XMLSchema#> {q}"
    ))
    .unwrap();
    dataset.query(&query).unwrap().into_boolean()
}

const FALSE: &str = "\"false\"^^<http://www.w3.org/2001/XMLSchema#boolean>";

#[test]
fn nan_less_than_is_false() {
    // expected: op:numeric-less-than(NaN, 1) = false, so ?x is bound to false
    let rows = select("SELECT ?x { BIND(\"NaN\"^^xsd:double < 1 AS ?x) }");
    assert_eq!(rows, vec![vec![Some(FALSE.to_string())]]);
}

#[test]
fn nan_all_four_operators_are_false() {
    // expected: every ordering comparison involving NaN is false (not an error), in both positions
    for expr in [
        "\"NaN\"^^xsd:double > 1",
        "\"NaN\"^^xsd:double <= 1",
        "\"NaN\"^^xsd:double >= 1",
        "1 < \"NaN\"^^xsd:double",
        "1.5 >= \"NaN\"^^xsd:float",
        "\"NaN\"^^xsd:float <= \"NaN\"^^xsd:float",
    ] {
        let rows = select(&format!("SELECT ?x {{ BIND({expr} AS ?x) }}"));
        assert_eq!(rows, vec![vec![Some(FALSE.to_string())]], "{expr}");
    }
}

#[test]
fn negated_comparison_keeps_nan_rows() {
    // expected: !(NaN < 1) = !false = true, so :m1 is kept along with :m3 (2 < 1 is false)
    let rows = select("SELECT ?s { ?s :value ?v FILTER(!(?v < 1)) }");
    assert_eq!(
        rows,
        vec![
            vec![Some("<tag:m1>".to_string())],
            vec![Some("<tag:m3>".to_string())]
        ]
    );
}

#[test]
fn ask_for_values_not_in_range() {
    // expected: :m1's value is neither >= 0 nor < 0, so the answer is true
    assert!(ask("ASK { ?s :value ?v FILTER(!(?v >= 0) && !(?v < 0)) }"));
}
