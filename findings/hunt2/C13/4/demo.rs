//! C13 / hunt2 / 4 -- inside `GRAPH ?g { P }`, the FILTER and BIND expressions of P
//! see ?g as already bound (and BIND(.. AS ?g) is rejected with an "Override" error),
//! whereas the SPARQL algebra evaluates P *without* ?g and joins afterwards.
//!
//! Drop into `sparql/tests/hunt_C13_4.rs`, run with
//! `cargo test -p sophia_sparql --test hunt_C13_4 --offline`.
//!
//! SPARQL 1.1, 18.5 (https://www.w3.org/TR/sparql11-query/#sparqlAlgebraEval):
//!   eval(D(G), Graph(var, P)) =
//!     Union over the named graphs IRIi of  Join( eval(D(D[IRIi]), P) , Ω(?var -> IRIi) )
//! so the solutions of P are computed first, with ?var out of scope in the expressions of P
//! (it is *not* a substitution as in EXISTS); ?var only gets its value through the Join.
//! `ExecState::graph_rec` (sparql/src/exec.rs) inserts ?g -> name in the incoming binding
//! *before* evaluating P, and `filter` / `extend` evaluate their expression on that binding.
//!
//! NB: this is not the recorded sub-select defect (a projection that does not hide its
//! local variables): there is no sub-select here, and re-joining projections with the incoming
//! binding does not change any of the results below.
//! NB: some engines (e.g. Jena ARQ) share this deviation for FILTER; the strict algebra,
//! which is what the property states, gives the results expected below.

use sophia_api::prelude::*;
use sophia_api::sparql::{Query, SparqlResult};
use sophia_inmem::dataset::LightDataset;
use sophia_sparql::*;

const DATA: &str = r#"
    PREFIX : <tag:>
    GRAPH :g1 { :a :p :b }
    GRAPH :g2 { :c :p :d }
"#;

fn rows(q: &str) -> Vec<String> {
    let dataset: LightDataset = sophia_turtle::parser::trig::parse_str(DATA)
        .collect_quads()
        .unwrap();
    let dataset = SparqlWrapper(&dataset);
    let query = SparqlQuery::parse(&format!("PREFIX : <tag:> {q}")).unwrap();
    let res = dataset
        .query(&query)
        .unwrap_or_else(|e| panic!("the query is legal and uses supported operators only, got: {e}"));
    let SparqlResult::Bindings(b) = res else {
        unreachable!()
    };
    let mut rows: Vec<String> = b
        .into_iter()
        .map(|r| {
            r.unwrap()
                .into_iter()
                .map(|t| t.map(|t| t.to_string()).unwrap_or("UNDEF".into()))
                .collect::<Vec<_>>()
                .join(" ")
        })
        .collect();
    rows.sort();
    rows
}

#[test]
fn filter_does_not_see_the_graph_variable() {
    // expected: in each graph, P = Filter(!bound(?g), BGP) keeps its solution (?g is not bound
    // in the solutions of the BGP), which is then joined with ?g -> name: 2 solutions
    let got = rows("SELECT ?g ?s { GRAPH ?g { ?s :p ?o FILTER(!bound(?g)) } }");
    assert_eq!(got, vec!["<tag:g1> <tag:a>", "<tag:g2> <tag:c>"]);
}

#[test]
fn filter_on_the_graph_variable_is_an_error() {
    // expected: ?g = :g1 is an error (unbound variable) for every solution of the BGP: no solution
    let got = rows("SELECT ?g ?s { GRAPH ?g { ?s :p ?o FILTER(?g = :g1) } }");
    assert_eq!(got, Vec::<String>::new());
}

#[test]
fn bind_does_not_see_the_graph_variable() {
    // expected: BIND(?g AS ?h) is evaluated on the solutions of the BGP, where ?g is unbound:
    // ?h stays unbound
    let got = rows("SELECT ?g ?s ?h { GRAPH ?g { ?s :p ?o BIND(?g AS ?h) } }");
    assert_eq!(got, vec!["<tag:g1> <tag:a> UNDEF", "<tag:g2> <tag:c> UNDEF"]);
}

#[test]
fn bind_to_the_graph_variable_is_legal() {
    // expected: P binds ?g to :g2 in every solution; the join with ?g -> name keeps the
    // compatible ones only, i.e. the solution found in :g2 (in any case: no error,
    // the parser accepts the query since ?g is not in scope at the BIND)
    let got = rows("SELECT ?g ?s { GRAPH ?g { ?s :p ?o BIND(:g2 AS ?g) } }");
    assert_eq!(got, vec!["<tag:g2> <tag:c>"]);
}
