//! Property C06 - hunt, second pass, finding 1.
//! Drop into `c14n/tests/hunt_C06_1.rs`, run with
//!   cargo test -p sophia_c14n --test hunt_C06_1 --offline
//!
//! `rdfc10::normalize*` take the writer BY VALUE, write the canonical document into it
//! and return `Ok(())` without ever flushing it.  With a buffering writer (the crate's own
//! example `sophia/examples/canonicalize.rs` passes `BufWriter::new(stdout())`) the bytes are
//! still in the buffer when `Ok(())` is returned; the buffer is only flushed by `Drop`, which
//! swallows the error.  So canonicalisation "succeeds" although the canonical document never
//! reached the sink (e.g. `canonicalize < in.nq > /dev/full` exits with status 0 and no output),
//! and the caller has no way to find out, because the writer was moved into the function.
//!
//! Expected according to the property: canonicalisation either delivers exactly the canonical
//! N-Quads document, or fails with an explicit error (here `C14nError::Io`).

use std::collections::HashSet;
use std::io::{self, BufWriter, Write};
use std::sync::atomic::{AtomicUsize, Ordering};
use std::sync::Arc;

use sophia_api::quad::Spog;
use sophia_api::term::{BnodeId, IriRef, SimpleTerm};
use sophia_c14n::hash::Sha384;
use sophia_c14n::rdfc10;
use sophia_c14n::C14nError;

type MyDataset = HashSet<Spog<SimpleTerm<'static>>>;

fn dataset() -> MyDataset {
    let p = SimpleTerm::Iri(IriRef::new_unchecked("http://example.org/p".into()));
    let a = SimpleTerm::BlankNode(BnodeId::new_unchecked("a".into()));
    let b = SimpleTerm::BlankNode(BnodeId::new_unchecked("b".into()));
    let x = SimpleTerm::LiteralDatatype(
        "x".into(),
        IriRef::new_unchecked("http://www.w3.org/2001/XMLSchema#string".into()),
    );
    [
        ([a.clone(), p.clone(), b.clone()], None),
        ([b.clone(), p.clone(), x.clone()], None),
    ]
    .into_iter()
    .collect()
}

/// The RDFC-1.0 canonical document of `dataset()` (SHA-256); it is what `normalize` writes
/// into an unbuffered sink (checked below).
const EXPECTED: &str = "_:c14n0 <http://example.org/p> \"x\" .\n_:c14n1 <http://example.org/p> _:c14n0 .\n";

/// A sink on which every write fails (a full disk, a closed pipe, /dev/full ...).
/// It counts the attempts, so that the test can show that the failure happens.
struct FullDisk(Arc<AtomicUsize>);

impl Write for FullDisk {
    fn write(&mut self, _buf: &[u8]) -> io::Result<usize> {
        self.0.fetch_add(1, Ordering::SeqCst);
        Err(io::Error::new(io::ErrorKind::Other, "No space left on device"))
    }
    fn flush(&mut self) -> io::Result<()> {
        Ok(())
    }
}

/// Sanity check: an unbuffered failing sink is reported (this test passes).
#[test]
fn unbuffered_failing_sink_is_reported() {
    let attempts = Arc::new(AtomicUsize::new(0));
    let res = rdfc10::normalize(&dataset(), FullDisk(attempts.clone()));
    assert!(matches!(res, Err(C14nError::Io(_))));
}

/// Expected: Err(C14nError::Io(_)), because not a single byte of the canonical document
/// could be delivered.  Observed: Ok(()).
#[test]
fn buffered_failing_sink_must_be_reported_sha256() {
    let attempts = Arc::new(AtomicUsize::new(0));
    let w = BufWriter::new(FullDisk(attempts.clone()));
    let res = rdfc10::normalize(&dataset(), w);
    // the writer has been consumed and dropped by normalize: its Drop tried to write, and failed
    assert!(
        attempts.load(Ordering::SeqCst) > 0,
        "the sink was not even written to"
    );
    assert!(
        matches!(res, Err(C14nError::Io(_))),
        "normalize returned {res:?} although the sink rejected the whole canonical document"
    );
}

/// Same thing for the other entry points (SHA-384, explicit limits).
#[test]
fn buffered_failing_sink_must_be_reported_sha384_and_with() {
    let attempts = Arc::new(AtomicUsize::new(0));
    let res = rdfc10::normalize_sha384(&dataset(), BufWriter::new(FullDisk(attempts.clone())));
    assert!(
        matches!(res, Err(C14nError::Io(_))),
        "normalize_sha384 returned {res:?}"
    );
    let res = rdfc10::normalize_with::<Sha384, _, _>(
        &dataset(),
        BufWriter::new(FullDisk(attempts.clone())),
        2.0,
        3,
    );
    assert!(
        matches!(res, Err(C14nError::Io(_))),
        "normalize_with returned {res:?}"
    );
}

/// The positive side of the same contract: when normalize returns Ok(()), the document must
/// have reached the sink.  `Staging` is a writer that only hands its bytes over when it is
/// flushed (like a transactional / network writer), and has no flush-on-drop.
struct Staging {
    pending: Vec<u8>,
    delivered: Arc<std::sync::Mutex<Vec<u8>>>,
}

impl Write for Staging {
    fn write(&mut self, buf: &[u8]) -> io::Result<usize> {
        self.pending.extend_from_slice(buf);
        Ok(buf.len())
    }
    fn flush(&mut self) -> io::Result<()> {
        self.delivered.lock().unwrap().append(&mut self.pending);
        Ok(())
    }
}

/// Expected: after Ok(()), the sink holds exactly the canonical document.
/// Observed: Ok(()), and the sink holds nothing.
#[test]
fn ok_means_the_document_was_delivered() {
    let delivered = Arc::new(std::sync::Mutex::new(Vec::new()));
    let w = Staging {
        pending: vec![],
        delivered: delivered.clone(),
    };
    rdfc10::normalize(&dataset(), w).unwrap();
    // (what an unbuffered sink receives)
    let mut direct = Vec::<u8>::new();
    rdfc10::normalize(&dataset(), &mut direct).unwrap();
    assert_eq!(String::from_utf8(direct).unwrap(), EXPECTED);
    let got = String::from_utf8(delivered.lock().unwrap().clone()).unwrap();
    assert_eq!(got, EXPECTED);
}
