//! scratch differential test: reference RDFC-1.0 vs sophia_c14n
#![allow(dead_code)]
use sha2::Digest;
use sophia_api::quad::Spog;
use sophia_api::term::{BnodeId, IriRef, SimpleTerm};
use sophia_c14n::hash::{HashFunction, Sha256, Sha384};
use sophia_c14n::rdfc10;
use std::collections::{BTreeMap, BTreeSet, HashSet};

#[derive(Clone, Debug, PartialEq, Eq, Hash, PartialOrd, Ord)]
pub enum T {
    I(String),
    B(String),
    L(String), // plain literal, no special chars
}
pub type Q = (T, T, T, Option<T>);

fn ser(t: &T, f: &dyn Fn(&str) -> String) -> String {
    match t {
        T::I(i) => format!("<{i}>"),
        T::B(b) => format!("_:{}", f(b)),
        T::L(l) => format!("\"{l}\""),
    }
}
fn line(q: &Q, f: &dyn Fn(&str) -> String) -> String {
    let mut s = format!("{} {} {} ", ser(&q.0, f), ser(&q.1, f), ser(&q.2, f));
    if let Some(g) = &q.3 {
        s.push_str(&ser(g, f));
        s.push(' ');
    }
    s.push_str(".\n");
    s
}

fn hexhash(alg: u32, data: &str) -> String {
    let bytes: Vec<u8> = if alg == 256 {
        sha2::Sha256::digest(data.as_bytes()).to_vec()
    } else {
        sha2::Sha384::digest(data.as_bytes()).to_vec()
    };
    bytes.iter().map(|b| format!("{b:02x}")).collect()
}

#[derive(Clone, Debug, PartialEq, Eq)]
struct Issuer {
    prefix: String,
    map: BTreeMap<String, String>,
    order: Vec<String>,
}
impl Issuer {
    fn new(p: &str) -> Self {
        Issuer {
            prefix: p.into(),
            map: BTreeMap::new(),
            order: vec![],
        }
    }
    fn issue(&mut self, id: &str) -> String {
        if let Some(x) = self.map.get(id) {
            return x.clone();
        }
        let n = format!("{}{}", self.prefix, self.order.len());
        self.map.insert(id.into(), n.clone());
        self.order.push(id.into());
        n
    }
}

pub struct Ref<'a> {
    alg: u32,
    quads: &'a [Q],
    b2q: BTreeMap<String, Vec<usize>>,
    canonical: Issuer,
    pub ambiguous: bool,
    pub max_perm: usize,
    pub max_perm_distinct: usize,
    pub max_depth: usize,
}

fn bnodes_of(q: &Q) -> Vec<(&str, &'static str)> {
    let mut v = vec![];
    if let T::B(b) = &q.0 {
        v.push((b.as_str(), "s"));
    }
    if let T::B(b) = &q.2 {
        v.push((b.as_str(), "o"));
    }
    if let Some(T::B(b)) = &q.3 {
        v.push((b.as_str(), "g"));
    }
    v
}

impl<'a> Ref<'a> {
    pub fn run(alg: u32, quads: &'a [Q]) -> (String, BTreeMap<String, String>, Ref<'a>) {
        let mut st = Ref {
            alg,
            quads,
            b2q: BTreeMap::new(),
            canonical: Issuer::new("c14n"),
            ambiguous: false,
            max_perm: 0,
            max_perm_distinct: 0,
            max_depth: 0,
        };
        for (i, q) in quads.iter().enumerate() {
            let set: BTreeSet<&str> = bnodes_of(q).into_iter().map(|x| x.0).collect();
            for b in set {
                st.b2q.entry(b.to_string()).or_default().push(i);
            }
        }
        let mut h2b: BTreeMap<String, Vec<String>> = BTreeMap::new();
        let ids: Vec<String> = st.b2q.keys().cloned().collect();
        for n in &ids {
            let h = st.h1d(n);
            h2b.entry(h).or_default().push(n.clone());
        }
        let mut rest = BTreeMap::new();
        for (h, l) in h2b {
            if l.len() == 1 {
                st.canonical.issue(&l[0]);
            } else {
                rest.insert(h, l);
            }
        }
        for (_h, l) in rest {
            let mut hpl: Vec<(String, Issuer)> = vec![];
            for n in &l {
                if st.canonical.map.contains_key(n) {
                    continue;
                }
                let mut ti = Issuer::new("b");
                ti.issue(n);
                let r = st.hnd(n, ti, 0);
                hpl.push(r);
            }
            hpl.sort_by(|a, b| a.0.cmp(&b.0));
            for w in hpl.windows(2) {
                if w[0].0 == w[1].0 {
                    st.ambiguous = true;
                }
            }
            for (_, iss) in hpl {
                for id in &iss.order {
                    st.canonical.issue(id);
                }
            }
        }
        let map = st.canonical.map.clone();
        let f = |b: &str| map[b].clone();
        let mut lines: Vec<String> = quads.iter().map(|q| line(q, &f)).collect();
        lines.sort();
        lines.dedup();
        (lines.concat(), map, st)
    }

    fn h1d(&self, n: &str) -> String {
        let f = |b: &str| if b == n { "a".to_string() } else { "z".to_string() };
        let mut lines: Vec<String> = self.b2q[n].iter().map(|i| line(&self.quads[*i], &f)).collect();
        lines.sort();
        hexhash(self.alg, &lines.concat())
    }

    fn hrb(&self, related: &str, q: &Q, issuer: &Issuer, pos: &str) -> String {
        let mut input = String::from(pos);
        if pos != "g" {
            input.push_str(&ser(&q.1, &|_| unreachable!()));
        }
        if let Some(c) = self.canonical.map.get(related) {
            input.push_str("_:");
            input.push_str(c);
        } else if let Some(c) = issuer.map.get(related) {
            input.push_str("_:");
            input.push_str(c);
        } else {
            input.push_str(&self.h1d(related));
        }
        hexhash(self.alg, &input)
    }

    fn hnd(&mut self, id: &str, issuer: Issuer, depth: usize) -> (String, Issuer) {
        self.max_depth = self.max_depth.max(depth);
        let mut issuer = issuer;
        let mut hn: BTreeMap<String, Vec<String>> = BTreeMap::new();
        for qi in self.b2q[id].clone() {
            let q = &self.quads[qi];
            for (b, pos) in bnodes_of(q) {
                if b == id {
                    continue;
                }
                let h = self.hrb(b, q, &issuer, pos);
                hn.entry(h).or_default().push(b.to_string());
            }
        }
        let mut data = String::new();
        for (rh, list) in hn {
            data.push_str(&rh);
            let mut chosen_path = String::new();
            let mut chosen_issuer: Option<Issuer> = None;
            self.max_perm = self.max_perm.max(list.len());
            let distinct: BTreeSet<_> = list.iter().collect();
            self.max_perm_distinct = self.max_perm_distinct.max(distinct.len());
            // all permutations by index (lexicographic), no pruning at all
            let mut idx: Vec<usize> = (0..list.len()).collect();
            loop {
                let p: Vec<&String> = idx.iter().map(|i| &list[*i]).collect();
                let mut ic = issuer.clone();
                let mut path = String::new();
                let mut rl = vec![];
                for related in &p {
                    if let Some(c) = self.canonical.map.get(*related) {
                        path.push_str("_:");
                        path.push_str(c);
                    } else {
                        if !ic.map.contains_key(*related) {
                            rl.push((*related).clone());
                        }
                        path.push_str("_:");
                        path.push_str(&ic.issue(related));
                    }
                }
                for related in rl {
                    let r = self.hnd(&related, ic.clone(), depth + 1);
                    path.push_str("_:");
                    path.push_str(&ic.issue(&related));
                    path.push('<');
                    path.push_str(&r.0);
                    path.push('>');
                    ic = r.1;
                }
                if chosen_path.is_empty() || path < chosen_path {
                    chosen_path = path;
                    chosen_issuer = Some(ic);
                } else if path == chosen_path && chosen_issuer.as_ref() != Some(&ic) {
                    self.ambiguous = true;
                }
                if !next_perm(&mut idx) {
                    break;
                }
            }
            data.push_str(&chosen_path);
            issuer = chosen_issuer.unwrap();
        }
        (hexhash(self.alg, &data), issuer)
    }
}

fn next_perm(a: &mut [usize]) -> bool {
    if a.len() < 2 {
        return false;
    }
    let mut i = a.len() - 1;
    while i > 0 && a[i - 1] >= a[i] {
        i -= 1;
    }
    if i == 0 {
        return false;
    }
    let mut j = a.len() - 1;
    while a[j] <= a[i - 1] {
        j -= 1;
    }
    a.swap(i - 1, j);
    a[i..].reverse();
    true
}

fn to_simple(t: &T) -> SimpleTerm<'static> {
    match t {
        T::I(i) => SimpleTerm::Iri(IriRef::new_unchecked(i.clone().into())),
        T::B(b) => SimpleTerm::BlankNode(BnodeId::new_unchecked(b.clone().into())),
        T::L(l) => SimpleTerm::LiteralDatatype(
            l.clone().into(),
            IriRef::new_unchecked("http://www.w3.org/2001/XMLSchema#string".into()),
        ),
    }
}

pub fn to_dataset(quads: &[Q]) -> HashSet<Spog<SimpleTerm<'static>>> {
    quads
        .iter()
        .map(|q| {
            (
                [to_simple(&q.0), to_simple(&q.1), to_simple(&q.2)],
                q.3.as_ref().map(to_simple),
            )
        })
        .collect()
}

pub enum Out {
    Ok(String, BTreeMap<String, String>),
    Toxic(String),
    Other(String),
}

pub fn sophia<H: HashFunction>(quads: &[Q], df: f32, pl: usize) -> Out {
    let d = to_dataset(quads);
    let mut out = Vec::new();
    match rdfc10::normalize_with::<H, _, _>(&d, &mut out, df, pl) {
        Ok(()) => {
            let (_, map) = rdfc10::relabel_with::<H, _>(&d, df, pl).unwrap();
            let map = map
                .iter()
                .map(|(k, v)| (k.to_string(), v.as_str().to_string()))
                .collect();
            Out::Ok(String::from_utf8(out).unwrap(), map)
        }
        Err(sophia_c14n::C14nError::ToxicGraph(m)) => Out::Toxic(m),
        Err(e) => Out::Other(format!("{e}")),
    }
}

fn check(quads: &[Q], stats: &mut (usize, usize, usize, usize)) {
    let mut qs: Vec<Q> = quads.to_vec();
    qs.sort();
    qs.dedup();
    for alg in [256u32, 384] {
        let (exp, expmap, st) = Ref::run(alg, &qs);
        stats.0 += 1;
        let amb = st.ambiguous;
        if amb {
            stats.1 += 1;
        }
        let got = if alg == 256 {
            sophia::<Sha256>(&qs, 1.0, 6)
        } else {
            sophia::<Sha384>(&qs, 1.0, 6)
        };
        match got {
            Out::Ok(s, m) => {
                if amb && s != exp {
                    stats.3 += 1000000;
                    println!("AMBIGUOUS-MISMATCH alg={alg} quads={qs:?}");
                } else if !amb && (s != exp || m != expmap) {
                    stats.2 += 1;
                    println!("MISMATCH alg={alg} quads={qs:?}\nexp:\n{exp}got:\n{s}\nexpmap={expmap:?}\ngotmap={m:?}");
                }
            }
            Out::Toxic(m) => {
                if st.max_perm_distinct <= 6 {
                    stats.3 += 1;
                    if stats.3 < 20 {
                        println!("TOXIC alg={alg} {m} max_perm={} distinct={} depth={} quads={qs:?}", st.max_perm, st.max_perm_distinct, st.max_depth);
                    }
                }
            }
            Out::Other(m) => {
                stats.2 += 1;
                println!("ERROR {m} quads={qs:?}");
            }
        }
    }
}

struct Rng(u64);
impl Rng {
    fn next(&mut self) -> u64 {
        self.0 ^= self.0 << 13;
        self.0 ^= self.0 >> 7;
        self.0 ^= self.0 << 17;
        self.0
    }
    fn below(&mut self, n: usize) -> usize {
        (self.next() % n as u64) as usize
    }
}

fn b(i: usize) -> T {
    T::B(format!("n{i}"))
}
fn iri(s: &str) -> T {
    T::I(format!("http://ex/{s}"))
}

#[test]
fn exhaustive_small() {
    // all graphs over 3 bnodes + 1 iri as s/o, 1 predicate, up to all edge subsets
    let mut stats = (0, 0, 0, 0);
    let nodes: Vec<T> = vec![b(0), b(1), b(2), iri("a")];
    let mut edges = vec![];
    for s in &nodes {
        for o in &nodes {
            if matches!(s, T::B(_)) || matches!(o, T::B(_)) {
                edges.push((s.clone(), iri("p"), o.clone(), None));
            }
        }
    }
    let n = edges.len();
    println!("{n} edges");
    for mask in 0u32..(1 << n) {
        let qs: Vec<Q> = (0..n).filter(|i| mask >> i & 1 == 1).map(|i| edges[i].clone()).collect();
        check(&qs, &mut stats);
    }
    println!("stats {stats:?}");
    assert_eq!(stats.2, 0);
}

#[test]
fn random_medium() {
    let mut stats = (0, 0, 0, 0);
    let mut rng = Rng(0x1234_5678_9abc_def1);
    for it in 0..6000 {
        let nb = 2 + rng.below(11);
        let np = 1 + rng.below(2);
        let nq = 1 + rng.below(nb * 2);
        let use_g = rng.below(3) == 0;
        let mut qs = vec![];
        for _ in 0..nq {
            let s = if rng.below(8) == 0 { iri("a") } else { b(rng.below(nb)) };
            let o = match rng.below(10) {
                0 => iri("a"),
                1 => T::L("x".into()),
                _ => b(rng.below(nb)),
            };
            let p = iri(&format!("p{}", rng.below(np)));
            let g = if use_g {
                match rng.below(4) {
                    0 => None,
                    1 => Some(iri("g")),
                    _ => Some(b(rng.below(nb))),
                }
            } else {
                None
            };
            qs.push((s, p, o, g));
        }
        let _ = it;
        check(&qs, &mut stats);
    }
    println!("stats {stats:?}");
    assert_eq!(stats.2, 0);
}

fn und(qs: &mut Vec<Q>, a: usize, c: usize, p: &str) {
    qs.push((b(a), iri(p), b(c), None));
    qs.push((b(c), iri(p), b(a), None));
}

#[test]
fn structured() {
    let mut stats = (0, 0, 0, 0);
    // directed cycles of length n, 2..=14, alone and in pairs
    for n in 2..=14 {
        let mut qs = vec![];
        for i in 0..n {
            qs.push((b(i), iri("p"), b((i + 1) % n), None));
        }
        check(&qs, &mut stats);
        for m in 2..=6 {
            let mut q2 = qs.clone();
            for i in 0..m {
                q2.push((b(100 + i), iri("p"), b(100 + (i + 1) % m), None));
            }
            check(&q2, &mut stats);
        }
        // cycle with a tail / marker
        let mut q3 = qs.clone();
        q3.push((b(0), iri("q"), iri("a"), None));
        check(&q3, &mut stats);
        // undirected cycle
        let mut q4 = vec![];
        for i in 0..n {
            und(&mut q4, i, (i + 1) % n, "p");
        }
        check(&q4, &mut stats);
        q4.push((b(0), iri("q"), iri("a"), None));
        check(&q4, &mut stats);
    }
    // undirected: cube, prism, K33, petersen, 3x4 grid, star with long arms
    let cube: Vec<(usize, usize)> = vec![(0,1),(1,2),(2,3),(3,0),(4,5),(5,6),(6,7),(7,4),(0,4),(1,5),(2,6),(3,7)];
    let prism: Vec<(usize, usize)> = vec![(0,1),(1,2),(2,0),(3,4),(4,5),(5,3),(0,3),(1,4),(2,5)];
    let k33: Vec<(usize, usize)> = vec![(0,3),(0,4),(0,5),(1,3),(1,4),(1,5),(2,3),(2,4),(2,5)];
    let petersen: Vec<(usize, usize)> = vec![(0,1),(1,2),(2,3),(3,4),(4,0),(0,5),(1,6),(2,7),(3,8),(4,9),(5,7),(7,9),(9,6),(6,8),(8,5)];
    let mut grid = vec![];
    for r in 0..3 { for c in 0..4 { if c<3 {grid.push((r*4+c, r*4+c+1));} if r<2 {grid.push((r*4+c,(r+1)*4+c));} } }
    for (name, g) in [("cube", cube), ("prism", prism), ("k33", k33), ("petersen", petersen), ("grid", grid)] {
        println!("{name}");
        let mut qs = vec![];
        for (a, c) in &g { und(&mut qs, *a, *c, "p"); }
        check(&qs, &mut stats);
        // directed only
        let qd: Vec<Q> = g.iter().map(|(a, c)| (b(*a), iri("p"), b(*c), None)).collect();
        check(&qd, &mut stats);
        // with marker
        let mut qm = qs.clone();
        qm.push((b(0), iri("q"), iri("a"), None));
        check(&qm, &mut stats);
        // two copies
        let mut q2 = qs.clone();
        for (a, c) in &g { und(&mut q2, 50 + *a, 50 + *c, "p"); }
        check(&q2, &mut stats);
    }
    // star with k arms of length l
    for k in 2..=5 {
        for l in 1..=5 {
            let mut qs = vec![];
            for a in 0..k {
                let mut prev = 0;
                for j in 0..l {
                    let id = 1 + a * l + j;
                    qs.push((b(prev), iri("p"), b(id), None));
                    prev = id;
                }
            }
            check(&qs, &mut stats);
        }
    }
    // binary trees depth d
    for d in 1..=4 {
        let mut qs = vec![];
        let n = (1 << (d + 1)) - 1;
        for i in 1..n {
            qs.push((b((i - 1) / 2), iri("p"), b(i), None));
        }
        check(&qs, &mut stats);
    }
    println!("stats {stats:?}");
    assert_eq!(stats.2, 0);
}

#[test]
fn random_config() {
    let mut rng = Rng(0xdead_beef_1234_5679);
    let mut n_toxic = 0;
    let mut n_ok = 0;
    let mut bad = 0;
    for _ in 0..4000 {
        let nb = 2 + rng.below(9);
        let nq = 1 + rng.below(nb * 2);
        let use_g = rng.below(3) == 0;
        let mut qs = vec![];
        for _ in 0..nq {
            let s = if rng.below(8) == 0 { iri("a") } else { b(rng.below(nb)) };
            let o = match rng.below(10) {
                0 => iri("a"),
                _ => b(rng.below(nb)),
            };
            let p = iri(&format!("p{}", rng.below(2)));
            let g = if use_g {
                match rng.below(4) {
                    0 => None,
                    1 => Some(iri("g")),
                    _ => Some(b(rng.below(nb))),
                }
            } else {
                None
            };
            qs.push((s, p, o, g));
        }
        qs.sort();
        qs.dedup();
        let (exp, _expmap, st) = Ref::run(256, &qs);
        if st.max_perm > 7 { continue; }
        let n = {
            let mut s = BTreeSet::new();
            for q in &qs { for (x, _) in bnodes_of(q) { s.insert(x.to_string()); } }
            s.len()
        };
        for df in [0.0f32, 0.1, 0.25, 0.5, 0.75, 1.0, 2.0, f32::INFINITY] {
            for pl in [0usize, 1, 2, 3, 6, 100] {
                let exp_toxic = st.max_perm > pl || (st.max_depth as f32) > df * n as f32;
                match sophia::<Sha256>(&qs, df, pl) {
                    Out::Ok(s, _) => {
                        n_ok += 1;
                        if exp_toxic || s != exp {
                            bad += 1;
                            println!("BAD ok df={df} pl={pl} exp_toxic={exp_toxic} amb={} same={} maxperm={} maxdepth={} n={n} {qs:?}", st.ambiguous, s == exp, st.max_perm, st.max_depth);
                        }
                    }
                    Out::Toxic(m) => {
                        n_toxic += 1;
                        if !exp_toxic {
                            bad += 1;
                            println!("BAD toxic {m} df={df} pl={pl} maxperm={} maxdepth={} n={n} {qs:?}", st.max_perm, st.max_depth);
                        }
                    }
                    Out::Other(m) => {
                        bad += 1;
                        println!("BAD other {m}");
                    }
                }
            }
        }
    }
    println!("ok={n_ok} toxic={n_toxic} bad={bad}");
    assert_eq!(bad, 0);
}

#[test]
fn random_fans() {
    let mut stats = (0, 0, 0, 0);
    let mut rng = Rng(0x0123_4567_89ab_cdef);
    let mut by_perm = [0usize; 10];
    for _ in 0..1500 {
        // a center with k leaves; each leaf has a random small subtree / cross links
        let k = 3 + rng.below(4); // 3..6
        let mut qs: Vec<Q> = vec![];
        let mut next = 1 + k;
        for i in 0..k {
            qs.push((b(0), iri("p"), b(1 + i), None));
            // chain below leaf of random length 0..3, ending possibly in link to another leaf
            let mut prev = 1 + i;
            for _ in 0..rng.below(3) {
                qs.push((b(prev), iri("p"), b(next), None));
                prev = next;
                next += 1;
            }
            match rng.below(4) {
                0 => qs.push((b(prev), iri("p"), b(1 + rng.below(k)), None)),
                1 => qs.push((b(prev), iri("q"), b(1 + rng.below(k)), None)),
                _ => {}
            }
        }
        let mut q2 = qs.clone();
        q2.sort(); q2.dedup();
        let (_, _, st) = Ref::run(256, &q2);
        by_perm[st.max_perm.min(9)] += 1;
        check(&qs, &mut stats);
    }
    println!("stats {stats:?} by_perm {by_perm:?}");
    assert_eq!(stats.2, 0);
}

#[test]
fn random_graphnames() {
    let mut stats = (0, 0, 0, 0);
    let mut rng = Rng(0x0f0f_4567_89ab_cd11);
    for _ in 0..30000 {
        let nb = 2 + rng.below(3);
        let nq = 1 + rng.below(6);
        let mut qs = vec![];
        for _ in 0..nq {
            let s = if rng.below(5) == 0 { iri("a") } else { b(rng.below(nb)) };
            let o = if rng.below(5) == 0 { iri("a") } else { b(rng.below(nb)) };
            let g = match rng.below(3) { 0 => None, _ => Some(b(rng.below(nb))) };
            qs.push((s, iri("p"), o, g));
        }
        check(&qs, &mut stats);
    }
    println!("stats {stats:?}");
    assert_eq!(stats.2, 0);
}

#[test]
fn random_twofans() {
    let mut stats = (0, 0, 0, 0);
    let mut rng = Rng(0x0123_4567_89ab_cdef);
    let mut by_perm = [0usize; 10];
    for _ in 0..600 {
        let k = 3 + rng.below(4); // 3..6
        let mut qs: Vec<Q> = vec![];
        let mut next = 0;
        let mut fresh = || { next += 1; next - 1 };
        for _c in 0..2 {
            let c = fresh();
            for _ in 0..k {
                let l = fresh();
                qs.push((b(c), iri("p"), b(l), None));
                let m = fresh();
                qs.push((b(l), iri("p"), b(m), None));
                for _ in 0..(1 + rng.below(2)) {
                    let e = fresh();
                    let p = if rng.below(2) == 0 { "p" } else { "q" };
                    qs.push((b(m), iri(p), b(e), None));
                }
            }
        }
        let mut q2 = qs.clone();
        q2.sort(); q2.dedup();
        let (_, _, st) = Ref::run(256, &q2);
        by_perm[st.max_perm.min(9)] += 1;
        check(&qs, &mut stats);
    }
    println!("stats {stats:?} by_perm {by_perm:?}");
    assert_eq!(stats.2, 0);
}
