//! Property C06 - hunt, second pass, finding 2.
//! Drop into `c14n/tests/hunt_C06_2.rs`, run with
//!   cargo test -p sophia_c14n --test hunt_C06_2 --offline
//!
//! RDFC-1.0 is defined on RDF datasets only.  Sophia's datasets are generalised, and
//! `relabel_with` (step 2) rejects the generalised quads it knows about - blank node or literal
//! as predicate, quoted triple, variable - with `C14nError::Unsupported`.  It forgot the two
//! remaining ones: a LITERAL as SUBJECT and a LITERAL as GRAPH NAME.  For those,
//! canonicalisation "succeeds" and
//!   * the output is not an N-Quads document (no RDFC-1.0 implementation can consume or
//!     reproduce it, Sophia's own N-Quads parser rejects it), and
//!   * with a literal graph name the output is not even in code point order, contrary to the
//!     documentation of `normalize` ("quads are sorted in codepoint order"): `normalize_with`
//!     sorts term by term, with the absent graph name as the empty string, which is only
//!     equivalent to sorting the lines as long as no graph name starts with a character below
//!     '.' - a literal starts with '"' (U+0022 < U+002E).
//!
//! Expected according to the property: `Err(C14nError::Unsupported(_))`, as for the other
//! generalised quads; in no case `Ok` with a document that RDFC-1.0 does not define.

use std::collections::HashSet;

use sophia_api::quad::Spog;
use sophia_api::term::{BnodeId, IriRef, SimpleTerm};
use sophia_c14n::hash::Sha384;
use sophia_c14n::rdfc10;
use sophia_c14n::C14nError;

type MyDataset = HashSet<Spog<SimpleTerm<'static>>>;

fn iri(s: &'static str) -> SimpleTerm<'static> {
    SimpleTerm::Iri(IriRef::new_unchecked(s.into()))
}
fn bn(s: &'static str) -> SimpleTerm<'static> {
    SimpleTerm::BlankNode(BnodeId::new_unchecked(s.into()))
}
fn lit(s: &'static str) -> SimpleTerm<'static> {
    SimpleTerm::LiteralDatatype(
        s.into(),
        IriRef::new_unchecked("http://www.w3.org/2001/XMLSchema#string".into()),
    )
}

fn normalize(d: &MyDataset) -> Result<String, C14nError<std::convert::Infallible>> {
    let mut out = Vec::<u8>::new();
    rdfc10::normalize(d, &mut out)?;
    Ok(String::from_utf8(out).unwrap())
}

/// Reference points (these pass): the generalised quads that step 2 does know about.
#[test]
fn known_generalised_quads_are_unsupported() {
    let d: MyDataset = [([iri("tag:s"), bn("p"), iri("tag:o")], None)].into_iter().collect();
    assert!(matches!(normalize(&d), Err(C14nError::Unsupported(_))));
    let d: MyDataset = [([iri("tag:s"), lit("p"), iri("tag:o")], None)].into_iter().collect();
    assert!(matches!(normalize(&d), Err(C14nError::Unsupported(_))));
}

/// Expected: Err(Unsupported).  Observed: Ok("\"s\" <tag:p> _:c14n0 .\n"), not N-Quads.
#[test]
fn literal_subject_is_unsupported() {
    let d: MyDataset = [([lit("s"), iri("tag:p"), bn("o")], None)].into_iter().collect();
    let res = normalize(&d);
    assert!(
        matches!(res, Err(C14nError::Unsupported(_))),
        "literal subject accepted: {res:?}"
    );
    let res = rdfc10::relabel_sha384(&d).map(|(_, map)| map);
    assert!(
        matches!(res, Err(C14nError::Unsupported(_))),
        "literal subject accepted by relabel_sha384: {res:?}"
    );
}

/// Expected: Err(Unsupported).  Observed: Ok("_:c14n0 <tag:p> <tag:o> \"g\" .\n"), not N-Quads.
#[test]
fn literal_graph_name_is_unsupported() {
    let d: MyDataset = [([bn("s"), iri("tag:p"), iri("tag:o")], Some(lit("g")))]
        .into_iter()
        .collect();
    let res = normalize(&d);
    assert!(
        matches!(res, Err(C14nError::Unsupported(_))),
        "literal graph name accepted: {res:?}"
    );
    let mut out = Vec::<u8>::new();
    let res = rdfc10::normalize_with::<Sha384, _, _>(&d, &mut out, 1.0, 6);
    assert!(
        matches!(res, Err(C14nError::Unsupported(_))),
        "literal graph name accepted by normalize_with::<Sha384>: {res:?}"
    );
}

/// Whatever `normalize` accepts, it documents its output as "sorted in codepoint order"
/// (RDFC-1.0 section 5: the lines of the canonical document are sorted in code point order).
/// Expected: Err(Unsupported), or at the very least sorted lines.
/// Observed: Ok, with the line of the default graph BEFORE the line with the literal graph
/// name, although `<tag:s> <tag:p> <tag:o> "g" .` < `<tag:s> <tag:p> <tag:o> .`
#[test]
fn accepted_output_is_not_even_sorted() {
    let d: MyDataset = [
        ([iri("tag:s"), iri("tag:p"), iri("tag:o")], None),
        ([iri("tag:s"), iri("tag:p"), iri("tag:o")], Some(lit("g"))),
        ([iri("tag:s"), iri("tag:p"), iri("tag:o")], Some(iri("tag:g"))),
    ]
    .into_iter()
    .collect();
    match normalize(&d) {
        Err(C14nError::Unsupported(_)) => (), // fine
        Err(other) => panic!("unexpected error {other:?}"),
        Ok(doc) => {
            let lines: Vec<&str> = doc.lines().collect();
            let mut sorted = lines.clone();
            sorted.sort_unstable(); // byte order of UTF-8 == code point order
            assert_eq!(lines, sorted, "the 'canonical' document is not in code point order");
        }
    }
}
