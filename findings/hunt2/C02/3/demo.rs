//! Drop into `api/tests/hunt_C02_3.rs` and run with
//!   cargo test -p sophia_api --test hunt_C02_3 --offline
//!
//! Property C02: term equality is an equivalence relation that depends only on the term,
//! and hand-written `eq` overrides must agree with the default implementation.
//!
//! The guard that the project gives to implementors (and uses itself, in the unit tests of every
//! `Term` implementation of the workspace) is `sophia_api::term::assert_consistent_term_impl`:
//! "Test that the given term is consistent in its implementation of the Term trait".
//! Its last statement is meant to check the (possibly overridden) `Term::eq`:
//!
//!     t.eq(t.borrow_term());
//!
//! but the boolean is discarded (there is no `assert!`), so the check is vacuous:
//! an implementation whose `eq` override is not even reflexive passes the consistency test.
//! (All the other uses of `eq` in the helper go through `BorrowTerm`, i.e. possibly through a
//! different type, and are skipped for quoted triples.)

use sophia_api::MownStr;
use sophia_api::term::{BnodeId, Term, TermKind, assert_consistent_term_impl};

/// A quoted triple `<< _:b _:b _:b >>` / blank node `_:b`, in the style of the
/// `check_implementability` tests of sophia_api, with a broken hand-written `eq`.
#[derive(Clone, Copy, Debug)]
struct BrokenEq {
    nested: bool,
}

const BN: BrokenEq = BrokenEq { nested: false };

impl Term for BrokenEq {
    type BorrowTerm<'x> = Self;

    fn kind(&self) -> TermKind {
        if self.nested {
            TermKind::Triple
        } else {
            TermKind::BlankNode
        }
    }
    fn bnode_id(&self) -> Option<BnodeId<MownStr<'_>>> {
        (!self.nested).then(|| BnodeId::new_unchecked("b".into()))
    }
    fn triple(&self) -> Option<[Self; 3]> {
        self.nested.then_some([BN, BN, BN])
    }
    fn to_triple(self) -> Option<[Self; 3]> {
        self.nested.then_some([BN, BN, BN])
    }
    fn borrow_term(&self) -> Self {
        *self
    }
    /// hand-written override, wrong: a quoted triple is never equal to anything, not even itself
    fn eq<T: Term>(&self, other: T) -> bool {
        !self.nested && other.bnode_id().is_some_and(|id| id.as_str() == "b")
    }
}

/// sanity: the term really is inconsistent (its `eq` is not reflexive,
/// and disagrees with the accessor-based equality of `SimpleTerm`)
#[test]
fn the_implementation_is_indeed_broken() {
    let t = BrokenEq { nested: true };
    assert!(!Term::eq(&t, t));
    assert!(Term::eq(&t.as_simple(), t));
}

/// Expected: the consistency helper rejects (panics on) a term that is not equal to itself.
/// Observed: it returns normally, so this test fails with
/// "test did not panic as expected".
#[test]
#[should_panic]
fn the_consistency_helper_detects_a_non_reflexive_eq() {
    let t = BrokenEq { nested: true };
    assert_consistent_term_impl(&t);
}
