//! Drop into `term/tests/hunt_C02_2.rs` and run with
//!   cargo test -p sophia_term --test hunt_C02_2 --offline
//!
//! Property C02 (conversion part): converting a term into any other provided term type rebuilds
//! the term *from the accessor methods* of the safe trait `Term`, and yields an equal term.
//!
//! `Term` is a safe trait: nothing but documentation forces `kind()` and the accessors
//! (`iri()`, `bnode_id()`, `lexical_form()`, `datatype()`, `triple()`, `variable()`) to agree.
//! `SimpleTerm::from_term` copes with a disagreement the safe way (`Option::unwrap` -> clean panic).
//! Its siblings `ArcTerm::from_term`, `RcTerm::from_term` and `GenericLiteral::try_from_term`
//! use `Option::unwrap_unchecked()` instead ("the following is safe because we checked term.kind()"),
//! i.e. they stake memory safety on the contract of a safe trait:
//! 100% safe client code reaches undefined behaviour through `into_term()` / `try_into_term()`.
//!
//! With debug assertions (cargo test), the standard library detects the UB and aborts the process
//! ("unsafe precondition(s) violated: hint::unreachable_unchecked must never be reached"),
//! so this test binary dies with SIGABRT instead of reporting a caught panic.
//! In release builds nothing is detected: the `None` is read as if it were `Some(..)`.
//!
//! Expected (as `SimpleTerm::from_term` does): a regular, catchable panic -- or any safe outcome.

use sophia_api::MownStr;
use sophia_api::term::{IriRef, SimpleTerm, Term, TermKind};
use sophia_term::{ArcTerm, GenericLiteral, RcTerm};

/// A (buggy but entirely safe) implementation of `Term`:
/// `kind()` announces an IRI but `iri()` was "overridden" to return `None`.
#[derive(Clone, Copy, Debug)]
struct NotReallyAnIri;

impl Term for NotReallyAnIri {
    type BorrowTerm<'x> = Self;

    fn kind(&self) -> TermKind {
        TermKind::Iri
    }
    fn iri(&self) -> Option<IriRef<MownStr<'_>>> {
        None
    }
    fn borrow_term(&self) -> Self {
        *self
    }
}

/// Same thing for a literal: `kind()` announces a literal, the accessors return `None`.
#[derive(Clone, Copy, Debug)]
struct NotReallyALiteral;

impl Term for NotReallyALiteral {
    type BorrowTerm<'x> = Self;

    fn kind(&self) -> TermKind {
        TermKind::Literal
    }
    fn lexical_form(&self) -> Option<MownStr<'_>> {
        None
    }
    fn datatype(&self) -> Option<IriRef<MownStr<'_>>> {
        None
    }
    fn language_tag(&self) -> Option<sophia_api::term::LanguageTag<MownStr<'_>>> {
        None
    }
    fn borrow_term(&self) -> Self {
        *self
    }
}

/// Reference behaviour: the conversion to `SimpleTerm` panics cleanly (this test passes).
#[test]
fn a_simple_term_conversion_panics_cleanly() {
    let res = std::panic::catch_unwind(|| {
        let _t: SimpleTerm = NotReallyAnIri.into_term();
    });
    assert!(res.is_err(), "SimpleTerm::from_term unwraps the accessor");
}

/// Expected: like SimpleTerm::from_term, a catchable panic (or any other safe behaviour).
/// Observed: undefined behaviour (process abort in debug builds).
#[test]
fn b_arc_term_conversion_must_not_be_undefined_behaviour() {
    let res = std::panic::catch_unwind(|| {
        let t: ArcTerm = NotReallyAnIri.into_term();
        format!("{t:?}")
    });
    assert!(
        res.is_err(),
        "ArcTerm::from_term fabricated {res:?} out of a None"
    );
}

#[test]
fn c_rc_term_conversion_must_not_be_undefined_behaviour() {
    let res = std::panic::catch_unwind(|| {
        let t: RcTerm = NotReallyAnIri.into_term();
        format!("{t:?}")
    });
    assert!(
        res.is_err(),
        "RcTerm::from_term fabricated {res:?} out of a None"
    );
}

#[test]
fn d_generic_literal_conversion_must_not_be_undefined_behaviour() {
    let res = std::panic::catch_unwind(|| {
        let l = NotReallyALiteral.try_into_term::<GenericLiteral<String>>();
        format!("{l:?}")
    });
    assert!(
        res.is_err(),
        "GenericLiteral::try_from_term fabricated {res:?} out of a None"
    );
}
