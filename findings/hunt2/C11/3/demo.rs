//! C11 / violation 3 -- drop this file as `api/tests/hunt_C11_3.rs` and run
//!     cargo test -p sophia_api --test hunt_C11_3 --offline
//!
//! Property C11 must hold "for all graph names and graph-name matchers":
//! viewing a dataset as the union of the graphs selected by a matcher shows exactly
//! the triples of the quads whose graph name is matched.
//!
//! On the current code `Dataset::partial_union_graph` (and `PartialUnionGraph::new`, and
//! `impl Graph for PartialUnionGraph`) demand `M: GraphNameMatcher + Copy`, so the view
//! can not even be built with perfectly legal graph-name matchers that are not `Copy`:
//!   * `Not(...)`, the only way to say "all graphs but ..." / "all named graphs"
//!     (`Not` does not derive `Copy`, whatever it wraps),
//!   * an array of *owned* graph names (`[Some(SimpleTerm), None]`),
//!   * a closure owning the data it tests against (e.g. a set of graph names).
//! `Dataset::quads_matching` accepts every one of them.
//!
//! Expected: this file compiles and every test passes.
//! Observed: it does not compile (E0277 `...: Copy` is not satisfied, and E0599
//! "method `triples` exists for struct `PartialUnionGraph<..>` but its trait bounds were
//! not satisfied").

use sophia_api::dataset::Dataset;
use sophia_api::graph::Graph;
use sophia_api::quad::Spog;
use sophia_api::term::matcher::{Any, Not};
use sophia_api::term::{GraphName, IriRef, SimpleTerm, Term};
use sophia_api::triple::Triple;
use std::collections::BTreeSet;

type T = SimpleTerm<'static>;

fn iri(s: &'static str) -> T {
    IriRef::new_unchecked(s).into_term()
}

/// (s p o1) in the default graph, (s p o2) in g1, (s p o3) in g2, (s p o1) also in g2
fn dataset() -> Vec<Spog<T>> {
    let [s, p, o1, o2, o3, g1, g2] =
        ["x:s", "x:p", "x:o1", "x:o2", "x:o3", "x:g1", "x:g2"].map(iri);
    vec![
        ([s.clone(), p.clone(), o1.clone()], None),
        ([s.clone(), p.clone(), o2.clone()], Some(g1.clone())),
        ([s.clone(), p.clone(), o3.clone()], Some(g2.clone())),
        ([s.clone(), p.clone(), o1.clone()], Some(g2.clone())),
    ]
}

fn objects_of<G: Graph>(g: &G) -> BTreeSet<String> {
    g.triples()
        .map(|t| t.unwrap().o().iri().unwrap().as_str().to_string())
        .collect()
}

fn set(v: &[&str]) -> BTreeSet<String> {
    v.iter().map(|s| s.to_string()).collect()
}

/// Expected: the union of all *named* graphs shows o1 (from g2), o2 and o3.
#[test]
fn not_default_graph() {
    let ds = dataset();
    let view = ds.partial_union_graph(Not([None::<T>]));
    assert_eq!(objects_of(&view), set(&["x:o1", "x:o2", "x:o3"]));
    // pattern queries through the view == filtering the store
    let direct = ds.quads_matching(Any, Any, [iri("x:o1")], Not([None::<T>])).count();
    assert_eq!(view.triples_matching(Any, Any, [iri("x:o1")]).count(), direct);
}

/// Expected: "all graphs but g2" shows o1 (default graph) and o2 (g1).
#[test]
fn not_one_named_graph() {
    let ds = dataset();
    let g2 = iri("x:g2");
    let view = ds.partial_union_graph(Not([Some(&g2)]));
    assert_eq!(objects_of(&view), set(&["x:o1", "x:o2"]));
}

/// Expected: an array of owned graph names selects the default graph and g1.
#[test]
fn array_of_owned_graph_names() {
    let ds = dataset();
    let selector: [GraphName<T>; 2] = [None, Some(iri("x:g1"))];
    let view = ds.partial_union_graph(selector);
    assert_eq!(objects_of(&view), set(&["x:o1", "x:o2"]));
}

/// Expected: a closure owning a set of graph names selects g1 and g2.
#[test]
fn closure_owning_its_data() {
    let ds = dataset();
    let wanted: BTreeSet<String> = set(&["x:g1", "x:g2"]);
    let selector = move |g: GraphName<SimpleTerm>| match g {
        None => false,
        Some(t) => t.iri().is_some_and(|i| wanted.contains(i.as_str())),
    };
    let view = ds.partial_union_graph(selector);
    assert_eq!(objects_of(&view), set(&["x:o1", "x:o2", "x:o3"]));
}
