//! C11 / violation 2 -- drop this file as `inmem/tests/hunt_C11_2.rs` and run
//!     cargo test -p sophia_inmem --test hunt_C11_2 --offline
//!
//! Property C11: viewing a dataset as one of its graphs shows exactly the triples of the
//! corresponding quads, and inserting / removing through the mutable view returns *the same
//! flag as the direct operation*. In sophia that flag (and the count returned by
//! `insert_all` / `remove_all` / `remove_matching`) is only *significant* if the type
//! implements the marker `SetGraph` / `SetDataset` ("The bool value returned in case of
//! success is not significant unless this graph also implements SetGraph").
//!
//! `api/src/graph/adapter.rs` does contain
//!     impl<D: SetDataset, G: Term> SetGraph for DatasetGraph<D, G> {}
//! but the views handed out by `Dataset::graph` and `Dataset::graph_mut` are
//! `DatasetGraph<&D, G>` and `DatasetGraph<&mut D, G>`, and `SetDataset` is implemented
//! neither for `&D` nor for `&mut D`.
//! So, for every store type, the view of one graph of a set-dataset is *never* a
//! `SetGraph`: generic code relying on the flag (`G: MutableGraph + SetGraph`) or on the
//! absence of duplicates (`G: SetGraph`) accepts the store but rejects its views, even
//! though the views behave as sets at run time (checked below).
//!
//! Expected: this file compiles and the tests pass.
//! Observed: it does not compile:
//!   E0277 the trait bound `&GenericFastDataset<..>: SetDataset` is not satisfied
//!         (required for `DatasetGraph<&GenericFastDataset<..>, SimpleTerm>` to implement `SetGraph`)
//!   E0277 the trait bound `&mut GenericFastDataset<..>: SetDataset` is not satisfied
//!   E0277 the trait bound `&BTreeSet<..>: SetDataset` is not satisfied ...

use sophia_api::dataset::{Dataset, MutableDataset, SetDataset};
use sophia_api::graph::{MutableGraph, SetGraph};
use sophia_api::quad::Spog;
use sophia_api::term::{IriRef, SimpleTerm, Term};
use sophia_inmem::dataset::{FastDataset, LightDataset};
use std::collections::BTreeSet;

type T = SimpleTerm<'static>;

fn iri(s: &'static str) -> T {
    IriRef::new_unchecked(s).into_term()
}

/// Generic code that relies on the significance of the returned flags:
/// it counts how many triples of `triples` were really added.
fn add_and_count<G: MutableGraph + SetGraph>(g: &mut G, triples: &[[T; 3]]) -> usize {
    let mut n = 0;
    for [s, p, o] in triples {
        if g.insert(s, p, o).unwrap() {
            n += 1;
        }
    }
    n
}

/// Generic code that relies on the absence of duplicates
fn size<G: SetGraph>(g: &G) -> usize {
    g.triples().count()
}

fn data() -> Vec<[T; 3]> {
    let [s, p, o1, o2] = ["x:s", "x:p", "x:o1", "x:o2"].map(iri);
    vec![
        [s.clone(), p.clone(), o1.clone()],
        [s.clone(), p.clone(), o2.clone()],
        [s.clone(), p.clone(), o1.clone()], // duplicate of the first
    ]
}

macro_rules! check {
    ($name:ident, $ds:expr) => {
        #[test]
        fn $name() {
            let mut ds = $ds;
            let g1 = iri("x:g1");
            // the triple (s p o1) is already present in graph g1, through the store
            let [s, p, o1] = data().remove(0);
            assert!(MutableDataset::insert(&mut ds, &s, &p, &o1, Some(&g1)).unwrap());

            // Expected: the mutable view of g1 is a SetGraph, and reports 1 new triple out of 3
            let mut view = ds.graph_mut(Some(g1.clone()));
            assert_eq!(add_and_count(&mut view, &data()), 1);
            // ... while the mutable view of the default graph reports 2 new triples out of 3
            let mut view = ds.graph_mut(None::<T>);
            assert_eq!(add_and_count(&mut view, &data()), 2);

            // Expected: the immutable views are SetGraphs with 2 triples each
            assert_eq!(size(&ds.graph(Some(g1.clone()))), 2);
            assert_eq!(size(&ds.graph(None::<T>)), 2);
            assert_eq!(size(&ds.graph(Some(iri("x:absent")))), 0);
            assert_eq!(ds.quads().count(), 4);
            // the stores themselves are accepted where a set is required
            is_set_dataset(&ds);
        }
    };
}

fn is_set_dataset<D: SetDataset>(_: &D) {}

check!(fast_dataset, FastDataset::new());
check!(light_dataset, LightDataset::new());
check!(btreeset_dataset, BTreeSet::<Spog<T>>::new());
