//! C11 / violation 1 -- drop this file as `c14n/tests/hunt_C11_1.rs` and run
//!     cargo test -p sophia_c14n --test hunt_C11_1 --offline
//!
//! Property C11: viewing a graph as a dataset (`Graph::as_dataset`, `as_dataset_mut`,
//! `into_dataset`) shows exactly its triples in the default graph, and mutations through
//! the view return the same flag as the direct operation.
//! When the wrapped graph is a `SetGraph` (no duplicate triples, significant flags), that
//! dataset has no duplicate quads and significant flags either, i.e. it is a `SetDataset`.
//! The sibling adapter says so in the other direction
//!     impl<D: SetDataset, G: Term> SetGraph for DatasetGraph<D, G> {}      (graph/adapter.rs)
//! but `GraphAsDataset` has no such impl: the dataset view of a set-graph is *never* a
//! `SetDataset`, for any graph type. (For the borrowing views `as_dataset` / `as_dataset_mut`,
//! i.e. `GraphAsDataset<&G>` / `GraphAsDataset<&mut G>`, it is also necessary that `&G` and
//! `&mut G` be `SetGraph`s when `G` is, which is not the case either.)
//!
//! The most visible consequence: sophia_c14n ("This crate provides function to
//! canonicalize graphs and datasets") only accepts `D: SetDataset`, and the graph-as-dataset
//! view is the only way to hand it a graph -- so no graph at all can be canonicalized.
//!
//! Expected: this file compiles, and the canonical form of the graph equals the canonical
//! form of the dataset holding the same triples in its default graph.
//! Observed: it does not compile:
//!   E0277 the trait bound `GraphAsDataset<&BTreeSet<[SimpleTerm<'_>; 3]>>: SetDataset` is not satisfied
//!   E0277 the trait bound `GraphAsDataset<&mut BTreeSet<..>>: SetDataset` is not satisfied
//!   E0277 the trait bound `GraphAsDataset<HashSet<..>>: SetDataset` is not satisfied

use sophia_api::dataset::{MutableDataset, SetDataset};
use sophia_api::graph::{Graph, MutableGraph, SetGraph};
use sophia_api::quad::Spog;
use sophia_api::term::{BnodeId, IriRef, SimpleTerm, Term};
use sophia_c14n::rdfc10;
use std::collections::{BTreeSet, HashSet};

type T = SimpleTerm<'static>;

fn iri(s: &'static str) -> T {
    IriRef::new_unchecked(s).into_term()
}
fn bn(s: &'static str) -> T {
    BnodeId::new_unchecked(s).into_term()
}

fn triples() -> Vec<[T; 3]> {
    vec![
        [bn("x"), iri("x:p"), bn("y")],
        [bn("y"), iri("x:p"), iri("x:o")],
        [iri("x:s"), iri("x:q"), "lit".into_term()],
    ]
}

fn is_set_graph<G: SetGraph>(_: &G) {}

/// Generic code relying on the significance of the flags returned by a set-dataset
fn add_and_count<D: MutableDataset + SetDataset>(d: &mut D, triples: &[[T; 3]]) -> usize {
    let mut n = 0;
    for [s, p, o] in triples {
        if d.insert(s, p, o, None::<&T>).unwrap() {
            n += 1;
        }
    }
    n
}

/// Expected: a (set) graph can be canonicalized through its dataset view, and gives
/// the same result as the dataset with the same triples in the default graph.
#[test]
fn canonicalize_a_graph() {
    let g: BTreeSet<[T; 3]> = triples().into_iter().collect();
    is_set_graph(&g);
    let d: BTreeSet<Spog<T>> = triples().into_iter().map(|t| (t, None)).collect();

    let mut expected = Vec::<u8>::new();
    rdfc10::normalize(&d, &mut expected).unwrap();

    let mut got = Vec::<u8>::new();
    rdfc10::normalize(&g.as_dataset(), &mut got).unwrap();
    assert_eq!(
        String::from_utf8(got).unwrap(),
        String::from_utf8(expected.clone()).unwrap()
    );

    let g: HashSet<[T; 3]> = triples().into_iter().collect();
    let mut got = Vec::<u8>::new();
    rdfc10::normalize(&g.into_dataset(), &mut got).unwrap();
    assert_eq!(
        String::from_utf8(got).unwrap(),
        String::from_utf8(expected).unwrap()
    );
}

/// Expected: the flags returned through the mutable view are those of the graph,
/// hence significant: 2 triples out of 3 are new.
#[test]
fn flags_through_the_mutable_view() {
    let mut g: BTreeSet<[T; 3]> = BTreeSet::new();
    let [s, p, o] = triples().remove(0);
    assert!(MutableGraph::insert(&mut g, &s, &p, &o).unwrap());
    assert_eq!(add_and_count(&mut g.as_dataset_mut(), &triples()), 2);
    assert_eq!(g.len(), 3);
}
