//! Hunt (second pass) C20 / 3 -- drop into `sparql/tests/hunt_C20_3.rs`, run with
//! `cargo test -p sophia_sparql --test hunt_C20_3 --offline`
//!
//! Property C20: converting a literal to a native value never panics and,
//! WHEN IT SUCCEEDS, returns the value that the literal's lexical form denotes
//! (for all literals of the accepted numeric datatypes, including MALFORMED
//! lexical forms).
//!
//! The SPARQL engine has its own literal -> native number conversion
//! (`SparqlValue::try_from_literal`, sparql/src/value.rs), which relies on the
//! `FromStr` implementations of `isize`, `num_bigint::BigInt`,
//! `bigdecimal::BigDecimal`, `f32` and `f64`. Three of them accept more than the
//! lexical space of the XSD datatype:
//!  * `BigInt::from_str` ignores underscores ("1_000", "1_"), and it is the
//!    fallback of `try_parse_integer` when `isize` refuses the string: so
//!    "1_000"^^xsd:integer (also nonNegativeInteger, positiveInteger, ...) is
//!    the number 1000 for the engine;
//!  * `BigDecimal::from_str` accepts underscores and exponents:
//!    "1_0.5"^^xsd:decimal is 10.5, "1e3"^^xsd:decimal is 1000;
//!  * `f64::from_str` / `f32::from_str` accept "inf", "infinity", "nan" in any
//!    letter case and with any sign: "infinity"^^xsd:double, "nan"^^xsd:float, ...
//! All these literals are ill-typed; they denote no value. For SPARQL they are
//! not numeric: isNumeric must answer false (SPARQL 1.1, 17.4.2.4, which gives
//! the example isNumeric("1200"^^xsd:byte) = false) and arithmetic on them is a
//! type error (the variable stays unbound), exactly as the engine already does
//! for "foo"^^xsd:integer or "300"^^xsd:unsignedByte.
#![allow(non_snake_case)]

use sophia_api::prelude::*;
use sophia_api::sparql::*;
use sophia_sparql::*;

/// evaluates `SELECT (<expr> AS ?x) {}` and returns the lexical form of ?x, if bound
fn eval(expr: &str) -> Option<String> {
    let dataset: Vec<[i32; 4]> = vec![];
    let dataset = SparqlWrapper(&dataset);
    let query = SparqlQuery::parse(&format!(
        "PREFIX xsd: <http://www.w3.org/2001/XMLSchema#> SELECT ({expr} AS ?x) {{}}"
    ))
    .unwrap();
    let bindings = dataset.query(&query).unwrap().into_bindings();
    let b = bindings.into_iter().next().expect("one solution").unwrap();
    b[0].as_ref().map(|x| x.lexical_form().unwrap().to_string())
}

fn assert_not_numeric(lit: &str) {
    assert_eq!(
        eval(&format!("isNumeric({lit})")).as_deref(),
        Some("false"),
        "isNumeric({lit}): the literal is ill-typed, it is not a numeric value"
    );
    assert_eq!(
        eval(&format!("{lit} + 0")),
        None,
        "{lit} + 0: the literal is ill-typed, the addition is a type error (unbound)"
    );
}

/// control: well-formed literals are numeric, ill-typed ones already detected are not
#[test]
fn control() {
    assert_eq!(
        eval("isNumeric(\"1000\"^^xsd:integer)").as_deref(),
        Some("true")
    );
    assert_eq!(eval("\"+1000\"^^xsd:integer + 0").as_deref(), Some("1000"));
    assert_eq!(
        eval("\"99999999999999999999\"^^xsd:integer + 0").as_deref(),
        Some("99999999999999999999")
    );
    assert_eq!(eval("\"10.5\"^^xsd:decimal + 0").as_deref(), Some("10.5"));
    assert_eq!(eval("\"5.\"^^xsd:decimal + 0").as_deref(), Some("5.0"));
    assert_eq!(eval("\".5\"^^xsd:decimal + 0").as_deref(), Some("0.5"));
    assert_eq!(eval("\"1e3\"^^xsd:double + 0").as_deref(), Some("1e3"));
    assert_eq!(
        eval("isNumeric(\"NaN\"^^xsd:double)").as_deref(),
        Some("true")
    );
    assert_eq!(
        eval("isNumeric(\"-INF\"^^xsd:float)").as_deref(),
        Some("true")
    );
    assert_eq!(
        eval("isNumeric(\"foo\"^^xsd:integer)").as_deref(),
        Some("false")
    );
    assert_eq!(
        eval("isNumeric(\"300\"^^xsd:unsignedByte)").as_deref(),
        Some("false")
    );
    assert_eq!(
        eval("isNumeric(\"1_000\"^^xsd:long)").as_deref(),
        Some("false")
    );
    assert_eq!(eval("\"foo\"^^xsd:integer + 0"), None);
}

/// no underscore in the lexical space of xsd:integer and the types derived from it
#[test]
fn integer_with_underscores_is_not_numeric() {
    assert_not_numeric("\"1_000\"^^xsd:integer");
    assert_not_numeric("\"1_\"^^xsd:integer");
    assert_not_numeric("\"1_000\"^^xsd:nonNegativeInteger");
    assert_not_numeric("\"-1_000\"^^xsd:negativeInteger");
}

/// neither underscore nor exponent in the lexical space of xsd:decimal
#[test]
fn decimal_with_underscores_or_exponent_is_not_numeric() {
    assert_not_numeric("\"1_0.5\"^^xsd:decimal");
    assert_not_numeric("\"1e3\"^^xsd:decimal");
    assert_not_numeric("\"1.5E-3\"^^xsd:decimal");
}

/// the special values of xsd:double / xsd:float are INF, +INF, -INF and NaN only
#[test]
fn double_special_values_have_one_spelling() {
    assert_not_numeric("\"inf\"^^xsd:double");
    assert_not_numeric("\"-Infinity\"^^xsd:double");
    assert_not_numeric("\"nan\"^^xsd:double");
    assert_not_numeric("\"infinity\"^^xsd:float");
    assert_not_numeric("\"-NaN\"^^xsd:float");
}
