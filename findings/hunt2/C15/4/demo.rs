//! Drop into `api/tests/hunt_C15_4.rs`, run with
//! `cargo test -p sophia_api --test hunt_C15_4 --offline`.
//!
//! Property C15: through any chain of adapters the consumer sees each item exactly once;
//! consumers are entitled to rely on the `Iterator` contract of the adapters, in particular
//! `size_hint`: "the upper bound is the maximum number of items still to come".
//!
//! `try_for_some_item` may deliver SEVERAL items per call (that is what the parsers do: one
//! call = one statement, e.g. `:s :p :a, :b, :c.` = 3 triples). `MapSourceIterator` keeps the
//! surplus in a buffer, but its `size_hint` forwards the hint of the source only and forgets
//! the buffered items: right after `next()` returned the first item of a step, it announces
//! fewer items than it is going to yield (down to `(0, Some(0))` = "exhausted" while items
//! are still coming). The sibling `FilterMapSourceIterator::size_hint` does add
//! `self.buffer.len()` (it was repaired); this one was forgotten.

use sophia_api::source::{Source, StreamError, StreamResult};
use std::convert::Infallible;
use std::error::Error;

/// A source that delivers its items `per_step` at a time (like a parser: one statement per
/// call) and knows exactly how many items are left.
struct Chunked {
    next: usize,
    end: usize,
    per_step: usize,
}

impl Source for Chunked {
    type Item<'x> = usize;
    type Error = Infallible;

    fn try_for_some_item<E, F>(&mut self, mut f: F) -> StreamResult<bool, Infallible, E>
    where
        E: Error + Send + Sync + 'static,
        F: FnMut(usize) -> Result<(), E>,
    {
        if self.next >= self.end {
            return Ok(false);
        }
        for _ in 0..self.per_step.min(self.end - self.next) {
            let i = self.next;
            self.next += 1;
            f(i).map_err(StreamError::SinkError)?;
        }
        Ok(true)
    }

    fn size_hint_items(&self) -> (usize, Option<usize>) {
        let left = self.end - self.next;
        (left, Some(left))
    }
}

/// Expected: at every moment, lower <= number of items still to come <= upper.
/// Observed: after the first `next()`, size_hint() == (0, Some(0)) although 2 items follow.
#[test]
fn map_iterator_size_hint_counts_the_buffered_items() {
    let mut it = Chunked { next: 0, end: 3, per_step: 3 }.map_items(|i| i * 10).into_iter();
    assert_eq!(it.size_hint(), (3, Some(3)));
    for remaining in (0..3).rev() {
        assert!(it.next().is_some());
        let (lower, upper) = it.size_hint();
        assert!(
            lower <= remaining && upper.map_or(true, |u| remaining <= u),
            "size_hint() = ({lower}, {upper:?}) but {remaining} items are still to come",
        );
    }
    assert!(it.next().is_none());
}

/// The same over all positions of a longer stream (7 items, 3 per step).
#[test]
fn map_iterator_size_hint_at_every_position() {
    let mut it = Chunked { next: 0, end: 7, per_step: 3 }.map_items(|i| i).into_iter();
    let mut remaining = 7;
    loop {
        let (lower, upper) = it.size_hint();
        assert!(
            lower <= remaining && upper.map_or(true, |u| remaining <= u),
            "size_hint() = ({lower}, {upper:?}) but {remaining} items are still to come",
        );
        if it.next().is_none() {
            break;
        }
        remaining -= 1;
    }
    assert_eq!(remaining, 0);
}

/// Control (passes): the sibling iterator counts its buffer.
#[test]
fn control_filter_map_iterator() {
    let mut it = Chunked { next: 0, end: 3, per_step: 3 }.filter_map_items(Some).into_iter();
    for remaining in (0..3).rev() {
        assert!(it.next().is_some());
        let (lower, upper) = it.size_hint();
        assert!(lower <= remaining && upper.map_or(true, |u| remaining <= u));
    }
}
