//! Drop into `turtle/tests/hunt_C15_1.rs`, run with
//! `cargo test -p sophia_turtle --test hunt_C15_1 --offline`.
//!
//! Property C15: if the source fails at item k, processing stops there: exactly the items
//! before k are consumed, NONE AFTER, and the failure is reported (once) as a source error.
//!
//! `MapSource::into_iter()` and `FilterMapSource::into_iter()` (the iterators behind
//! `map_triples(..).into_iter()`, used e.g. by sophia_sparql_client to hand CONSTRUCT results
//! to the caller) are not fused on error: after they have yielded the `Err` of the source they
//! go on calling `try_for_some_item` on a source that has already failed.
//!  * with the Turtle / TriG parsers (no error recovery: the parser stays on the offending
//!    byte) the iterator never ends: it yields the same `Err` for ever, so `count()`,
//!    `last()`, `filter_map(Result::ok).collect()`, `for r in it { if let Ok(t) = r {..} }`
//!    never return;
//!  * when the fault is in the middle of a statement the parser is re-entered with a
//!    half-built triple: debug builds panic inside rio_turtle
//!    (`assertion failed: dummy(self.current().subject)`), release builds loop as above;
//!  * with the N-Triples / N-Quads parsers the items AFTER the fault are delivered.
//! The whole-stream drivers (`for_each_triple`, `try_for_each_triple`, the collectors) all
//! stop at the first error, as the property demands.

use sophia_api::source::{Source, TripleSource};
use sophia_api::term::Term;
use sophia_api::triple::Triple;
use sophia_turtle::parser::{nt, turtle};

/// 2 good statements around a bad one (statement #1)
const TTL: &str = "<http://e/s> <http://e/p> <http://e/o0> .\n~\n<http://e/s> <http://e/p> <http://e/o2> .\n";
/// the fault is inside statement #0, after two triples of its object list
const TTL_MID: &str = "<http://e/s> <http://e/p> <http://e/o0> , <http://e/o1> , ~ .\n<http://e/s> <http://e/p> <http://e/o2> .\n";

/// what a caller sees if it drains the iterator (bounded by `cap`, because it may never end)
fn drain<I: Iterator<Item = Result<String, E>>, E: std::fmt::Display>(it: I, cap: usize) -> Vec<String> {
    it.take(cap)
        .map(|r| match r {
            Ok(o) => o,
            Err(e) => format!("ERR {e}"),
        })
        .collect()
}

/// Expected: Ok(o0), Err(syntax error), then `None` for ever.
#[test]
fn map_iterator_over_turtle_ends_after_the_source_error() {
    let it = turtle::parse_str(TTL).map_triples(|t| t.o().iri().unwrap().as_str().to_string()).into_iter();
    let seen = drain(it, 1000);
    assert_eq!(seen.len(), 2, "the iterator did not stop after the error: {} items, starting with {:?}", seen.len(), &seen[..4.min(seen.len())]);
    assert_eq!(seen[0], "http://e/o0");
    assert!(seen[1].starts_with("ERR "));
}

/// Expected: Ok(o0), Err(syntax error), then `None` for ever.
#[test]
fn filter_map_iterator_over_turtle_ends_after_the_source_error() {
    let it = turtle::parse_str(TTL).filter_map_triples(|t| Some(t.o().iri().unwrap().as_str().to_string())).into_iter();
    let seen = drain(it, 1000);
    assert_eq!(seen.len(), 2, "the iterator did not stop after the error: {} items, starting with {:?}", seen.len(), &seen[..4.min(seen.len())]);
}

/// Expected: Ok(o0), Ok(o1), Err(syntax error), then `None`; no panic.
/// (debug build: panic in rio_turtle when the failed parser is polled again;
///  release build: endless stream of the same Err)
#[test]
fn map_iterator_fault_in_the_middle_of_a_statement() {
    let it = turtle::parse_str(TTL_MID).map_triples(|t| t.o().iri().unwrap().as_str().to_string()).into_iter();
    let seen = drain(it, 1000);
    assert_eq!(seen.len(), 3, "{} items, starting with {:?}", seen.len(), &seen[..5.min(seen.len())]);
    assert_eq!(&seen[..2], ["http://e/o0", "http://e/o1"]);
    assert!(seen[2].starts_with("ERR "));
}

/// The usual "skip what can not be read" idiom must terminate and must not see items after the fault.
/// Expected: [o0].
#[test]
fn skipping_errors_terminates() {
    let it = turtle::parse_str(TTL).map_triples(|t| t.o().iri().unwrap().as_str().to_string()).into_iter();
    // `.take(1000)` only protects the test suite against the endless loop
    let oks: Vec<String> = it.take(1000).filter_map(Result::ok).collect();
    let polled = turtle::parse_str(TTL).map_triples(|t| t.o().iri().unwrap().as_str().to_string()).into_iter().take(1000).count();
    assert_eq!(oks, ["http://e/o0"]);
    assert!(polled < 1000, "the iterator was still yielding after 1000 calls to next()");
}

/// Expected (property: none after k): Ok(o0), Err(syntax error on line 2), then `None`.
/// Observed: Ok(o0), Err, Ok(o2) - item #2, which follows the fault, is delivered.
#[test]
fn map_iterator_over_ntriples_delivers_nothing_after_the_fault() {
    let it = nt::parse_str(TTL).map_triples(|t| t.o().iri().unwrap().as_str().to_string()).into_iter();
    let seen = drain(it, 1000);
    assert_eq!(seen.len(), 2, "items were delivered after the fault: {seen:?}");
}

/// Control: the whole-stream drivers stop at the first error (this test passes).
#[test]
fn control_for_each_item_stops_at_the_fault() {
    let mut seen = vec![];
    let res = turtle::parse_str(TTL)
        .map_triples(|t| t.o().iri().unwrap().as_str().to_string())
        .for_each_item(|o| seen.push(o));
    assert!(res.is_err());
    assert_eq!(seen, ["http://e/o0"]);
    let mut seen = vec![];
    let res = nt::parse_str(TTL)
        .map_triples(|t| t.o().iri().unwrap().as_str().to_string())
        .for_each_item(|o| seen.push(o));
    assert!(res.is_err());
    assert_eq!(seen, ["http://e/o0"]);
}
