//! Drop into `turtle/tests/hunt_C15_3.rs`, run with
//! `cargo test -p sophia_turtle --test hunt_C15_3 --offline`.
//!
//! Property C15: the consumer sees each item of the source exactly once and in source order;
//! a syntax error at statement k is reported as a source error.
//!
//! N-Triples and N-Quads define `EOL ::= [#xD#xA]+` : a lone CARRIAGE RETURN is a line end
//! (RDF 1.1 N-Triples, grammar rules [1] and [7]; same in N-Quads).
//! The N-Triples / N-Quads / generalized N-Quads sources only look for LINE FEED when they
//! finish a line (rio_turtle `skip_until_eol`, `consume_line_end`): after the `.` of a triple
//! (or after a `#`), everything up to the next LF - or up to the end of the document - is
//! thrown away. With CR line ends the source delivers the first statement only and then
//! reports a normal end of stream: all other items are lost silently, and a syntax error in
//! one of them is not reported either.
//! The Turtle source reads the same documents completely.

use sophia_api::source::{QuadSource, TripleSource};
use sophia_api::term::Term;
use sophia_api::triple::Triple;
use sophia_api::quad::Quad;
use sophia_turtle::parser::{gnq, nq, nt, turtle};

fn doc(eol: &str) -> String {
    (0..3)
        .map(|i| format!("<http://e/s> <http://e/p> <http://e/o{i}> .{eol}"))
        .collect()
}

const ALL: [&str; 3] = ["http://e/o0", "http://e/o1", "http://e/o2"];

fn objects<S: TripleSource>(mut s: S) -> Result<Vec<String>, S::Error> {
    let mut v = vec![];
    s.for_each_triple(|t| v.push(t.o().iri().unwrap().as_str().to_string()))?;
    Ok(v)
}

fn qobjects<S: QuadSource>(mut s: S) -> Result<Vec<String>, S::Error> {
    let mut v = vec![];
    s.for_each_quad(|q| v.push(q.o().iri().unwrap().as_str().to_string()))?;
    Ok(v)
}

/// Expected: the three triples (as with "\n" and "\r\n"). Observed: Ok([o0]).
#[test]
fn ntriples_with_cr_line_ends() {
    assert_eq!(objects(nt::parse_str(&doc("\n"))).unwrap(), ALL);
    assert_eq!(objects(nt::parse_str(&doc("\r\n"))).unwrap(), ALL);
    assert_eq!(objects(nt::parse_str(&doc("\r"))).unwrap(), ALL);
}

/// Expected: the three quads. Observed: Ok([o0]).
#[test]
fn nquads_with_cr_line_ends() {
    assert_eq!(qobjects(nq::parse_str(&doc("\r"))).unwrap(), ALL);
}

/// Expected: the three quads. Observed: Ok([o0]).
#[test]
fn generalized_nquads_with_cr_line_ends() {
    assert_eq!(qobjects(gnq::parse_str(&doc("\r"))).unwrap(), ALL);
}

/// A comment ended by CR swallows the statements that follow it (up to the next LF).
/// Expected: [o0, o1]. Observed: Ok([]) .
#[test]
fn comment_ended_by_cr() {
    let d = "# made on an old Mac\r<http://e/s> <http://e/p> <http://e/o0> .\r<http://e/s> <http://e/p> <http://e/o1> .\n";
    assert_eq!(objects(nt::parse_str(d)).unwrap(), ["http://e/o0", "http://e/o1"]);
}

/// The fault of statement 1 is not reported: the statement is never looked at.
/// Expected: Err(syntax error on the second line) after one item. Observed: Ok([o0]).
#[test]
fn syntax_error_after_a_cr_is_not_reported() {
    let d = "<http://e/s> <http://e/p> <http://e/o0> .\rthis is not a triple\r";
    let res = objects(nt::parse_str(d));
    assert!(res.is_err(), "the source ended normally with {res:?}");
}

/// Control (passes): the Turtle source of the same crate reads the CR document completely.
#[test]
fn control_turtle() {
    assert_eq!(objects(turtle::parse_str(&doc("\r"))).unwrap(), ALL);
}
