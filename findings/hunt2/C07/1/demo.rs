//! Property C07: a graph compared with a copy of itself whose statements are merely reordered
//! (and/or whose blank nodes are renamed) must be found isomorphic, symmetrically.
//!
//! Drop into `isomorphism/tests/hunt_C07_1.rs`, run with
//! `cargo test -p sophia_isomorphism --test hunt_C07_1 --offline`.
//!
//! `Term::cmp` (api/src/term.rs), on which the isomorphism test relies for de-duplicating and for
//! sorting the statements, is not a total order as soon as an rdf:langString literal *without*
//! language tag (syntactically legal: `"az"^^rdf:langString`) sits next to language-tagged literals:
//!
//!   "az"^^rdf:langString  <  "b"@en     (same datatype, "az" < "b")
//!   "b"@en                <  "a"@fr     (both tagged: en < fr)
//!   "a"@fr                <  "az"^^rdf:langString   (same datatype, "a" < "az")
//!
//! so the result of the sort depends on the order in which the container yields the statements.

use sophia_api::term::{BnodeId, IriRef, LanguageTag, SimpleTerm, Term};
use sophia_isomorphism::isomorphic_graphs;
use std::cmp::Ordering;

type T = SimpleTerm<'static>;

const RDF_LANG_STRING: &str = "http://www.w3.org/1999/02/22-rdf-syntax-ns#langString";

fn iri(s: &'static str) -> T {
    SimpleTerm::Iri(IriRef::new_unchecked(s.into()))
}
fn bn(s: &'static str) -> T {
    SimpleTerm::BlankNode(BnodeId::new_unchecked(s.into()))
}
fn lang(s: &'static str, tag: &'static str) -> T {
    SimpleTerm::LiteralLanguage(s.into(), LanguageTag::new_unchecked(tag.into()))
}
fn untagged_lang_string(s: &'static str) -> T {
    SimpleTerm::LiteralDatatype(s.into(), IriRef::new_unchecked(RDF_LANG_STRING.into()))
}

fn literals() -> [T; 3] {
    [untagged_lang_string("az"), lang("b", "en"), lang("a", "fr")]
}

/// All 6 orders of the three statements `<x:s> <x:p> L` (resp. `_:label <x:p> L`).
fn permutations(subject: &T) -> Vec<Vec<[T; 3]>> {
    let l = literals();
    [[0, 1, 2], [0, 2, 1], [1, 0, 2], [1, 2, 0], [2, 0, 1], [2, 1, 0]]
        .iter()
        .map(|perm| {
            perm.iter()
                .map(|i| [subject.clone(), iri("x:p"), l[*i].clone()])
                .collect()
        })
        .collect()
}

/// Expected: `Term::cmp` is a total order (no cycle a < b < c < a).
#[test]
fn term_cmp_is_transitive() {
    let [a, b, c] = literals();
    let ab = Term::cmp(&a, &b);
    let bc = Term::cmp(&b, &c);
    let ac = Term::cmp(&a, &c);
    assert!(
        !(ab == Ordering::Less && bc == Ordering::Less && ac != Ordering::Less),
        "Term::cmp is cyclic: {a:?} < {b:?} < {c:?} but cmp(a, c) = {ac:?}"
    );
}

/// Expected: a ground graph is isomorphic to any reordering of its own statements.
#[test]
fn ground_graph_reordered() {
    let graphs = permutations(&iri("x:s"));
    for (i, g1) in graphs.iter().enumerate() {
        for (j, g2) in graphs.iter().enumerate() {
            assert!(
                isomorphic_graphs(g1, g2).unwrap(),
                "order #{i} vs order #{j} of the same 3 triples: not isomorphic\n{g1:#?}\n{g2:#?}"
            );
        }
    }
}

/// Expected: a graph is isomorphic to a copy with its blank node renamed and its statements reordered,
/// and the answer is the same in both directions.
#[test]
fn bnode_graph_renamed_and_reordered() {
    let graphs1 = permutations(&bn("b"));
    let graphs2 = permutations(&bn("other"));
    for (i, g1) in graphs1.iter().enumerate() {
        for (j, g2) in graphs2.iter().enumerate() {
            let r12 = isomorphic_graphs(g1, g2).unwrap();
            let r21 = isomorphic_graphs(g2, g1).unwrap();
            assert_eq!(r12, r21, "asymmetric answer for order #{i} vs #{j}");
            assert!(r12, "order #{i} vs renamed order #{j}: not isomorphic");
        }
    }
}
