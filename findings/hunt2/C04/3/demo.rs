//! C04 / violation 3 -- drop into `turtle/tests/hunt_C04_3.rs`, run with
//! `cargo test -p sophia_turtle --test hunt_C04_3 --offline`
//!
//! PN_PREFIX ::= PN_CHARS_BASE ((PN_CHARS | '.')* PN_CHARS)?  -- dots may follow each other
//! inside a prefix, and `Prefix::new("a..b")` (api/src/prefix/_regex.rs) rightly accepts it.
//! The pretty serializer declares and uses such a prefix, but rio_turtle's `parse_pn_prefix`
//! only accepts a '.' that is immediately followed by a PN_CHARS: the very first line of the
//! document (`PREFIX a..b: <...>`) is rejected, whatever the graph is (even an empty one).

use sophia_api::prefix::Prefix;
use sophia_api::prelude::*;
use sophia_api::term::SimpleTerm;
use sophia_iri::{Iri, IriRef};
use sophia_isomorphism::isomorphic_graphs;
use sophia_turtle::parser::turtle;
use sophia_turtle::serializer::turtle::{TurtleConfig, TurtleSerializer};

type G = Vec<[SimpleTerm<'static>; 3]>;

fn iri(s: &str) -> SimpleTerm<'static> {
    SimpleTerm::Iri(IriRef::new_unchecked(s.to_string().into()))
}

fn config(prefix: &str) -> TurtleConfig {
    let prefix = Prefix::new(prefix.to_string()).expect("a legal Turtle prefix");
    TurtleConfig::new()
        .with_pretty(true)
        .with_own_prefix_map(vec![(
            prefix.map_unchecked(Into::into),
            Iri::new_unchecked("http://example.org/ns/".into()),
        )])
}

fn roundtrip(g: &G, config: TurtleConfig) -> Result<(), String> {
    let out = TurtleSerializer::new_stringifier_with_config(config)
        .serialize_triples(g.triples())
        .map_err(|e| format!("serializer error: {e}"))?
        .to_string();
    let g2: G = turtle::parse_str(&out)
        .collect_triples()
        .map_err(|e| format!("the serializer output does not parse back: {e}\n{out}"))?;
    if g2.len() != g.len() || !isomorphic_graphs(g, &g2).unwrap() {
        return Err(format!("parsed graph differs from the input\n{out}"));
    }
    Ok(())
}

/// Sanity: a single dot inside the prefix, and consecutive dots in the *local* part, are fine.
#[test]
fn single_dot_in_prefix_and_dots_in_local_part() {
    let g: G = vec![[
        iri("http://example.org/ns/x..y"),
        iri("http://example.org/ns/p"),
        iri("http://example.org/ns/o"),
    ]];
    roundtrip(&g, config("a.b")).unwrap();
}

/// Expected (C04): with any prefix map, the pretty output parses back to an isomorphic graph.
/// Observed: "unexpected character '.' on line 1 at position 9".
#[test]
fn consecutive_dots_in_prefix() {
    let g: G = vec![[
        iri("http://example.org/ns/s"),
        iri("http://example.org/ns/p"),
        iri("http://example.org/ns/o"),
    ]];
    roundtrip(&g, config("a..b")).unwrap();
}

/// The prefix does not even have to be used by the graph.
#[test]
fn consecutive_dots_in_unused_prefix() {
    let g: G = vec![[iri("tag:s"), iri("tag:p"), iri("tag:o")]];
    roundtrip(&g, config("v1..2")).unwrap();
}
