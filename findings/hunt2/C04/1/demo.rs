//! C04 / violation 1 -- drop into `turtle/tests/hunt_C04_1.rs`, run with
//! `cargo test -p sophia_turtle --test hunt_C04_1 --offline`
//!
//! The pretty serializer bounds the nesting of `[ ]` (MAX_DEPTH = 64, "Maximum nesting of
//! `[ ]` / `( )` produced by the prettifier"), but the branch of `Prettifier::write_bnode`
//! that writes a collection never looks at `self.depth`: collections nested in collections
//! are written `( ( ( ... ) ) )` without any bound, and the document can not be parsed back
//! (the parser refuses more than 128 nested constructions).
//! The streaming (non pretty) serializer round-trips the very same graphs.

use sophia_api::ns::rdf;
use sophia_api::prelude::*;
use sophia_api::term::{BnodeId, SimpleTerm};
use sophia_iri::IriRef;
use sophia_isomorphism::isomorphic_graphs;
use sophia_turtle::parser::turtle;
use sophia_turtle::serializer::turtle::{TurtleConfig, TurtleSerializer};

type G = Vec<[SimpleTerm<'static>; 3]>;

fn iri(s: &str) -> SimpleTerm<'static> {
    SimpleTerm::Iri(IriRef::new_unchecked(s.to_string().into()))
}
fn bn(s: String) -> SimpleTerm<'static> {
    SimpleTerm::BlankNode(BnodeId::new_unchecked(s.into()))
}
fn int(i: usize) -> SimpleTerm<'static> {
    SimpleTerm::LiteralDatatype(
        i.to_string().into(),
        IriRef::new_unchecked("http://www.w3.org/2001/XMLSchema#integer".into()),
    )
}

/// `<tag:s> <tag:p> ( 0 ( 1 ( 2 ... ( n-1 ) ... ) ) )`: n well-formed collections,
/// each one being the last item of the previous one (think of nested JSON arrays, or a cons-list).
fn nested_collections(n: usize) -> G {
    let mut g: G = vec![[iri("tag:s"), iri("tag:p"), bn("l0a".into())]];
    for i in 0..n {
        let a = bn(format!("l{i}a")); // first node of collection #i
        let b = bn(format!("l{i}b")); // second node of collection #i
        g.push([a.clone(), rdf::first.into_term(), int(i)]);
        if i + 1 < n {
            g.push([a, rdf::rest.into_term(), b.clone()]);
            g.push([b.clone(), rdf::first.into_term(), bn(format!("l{}a", i + 1))]);
            g.push([b, rdf::rest.into_term(), rdf::nil.into_term()]);
        } else {
            g.push([a, rdf::rest.into_term(), rdf::nil.into_term()]);
        }
    }
    g
}

fn roundtrip(g: &G, config: TurtleConfig) -> Result<(), String> {
    let out = TurtleSerializer::new_stringifier_with_config(config)
        .serialize_triples(g.triples())
        .map_err(|e| format!("serializer error: {e}"))?
        .to_string();
    let g2: G = turtle::parse_str(&out)
        .collect_triples()
        .map_err(|e| format!("the serializer output does not parse back: {e}"))?;
    if g2.len() != g.len() {
        return Err(format!("{} triples in, {} triples out", g.len(), g2.len()));
    }
    if !isomorphic_graphs(g, &g2).unwrap() {
        return Err("parsed graph is not isomorphic to the input".into());
    }
    Ok(())
}

/// Sanity: the graph is fine, the streaming serializer round-trips it,
/// and the pretty serializer round-trips a moderately nested one.
#[test]
fn streaming_mode_roundtrips_130_nested_collections() {
    roundtrip(&nested_collections(130), TurtleConfig::new()).unwrap();
    roundtrip(&nested_collections(100), TurtleConfig::new().with_pretty(true)).unwrap();
}

/// Expected (C04): whatever the shape of the graph, the pretty output parses back to an isomorphic graph.
/// Observed: "The parser encountered more than 128 nested constructions".
#[test]
fn pretty_mode_roundtrips_130_nested_collections() {
    roundtrip(
        &nested_collections(130),
        TurtleConfig::new().with_pretty(true),
    )
    .unwrap();
}

/// Same thing below a chain of `[ ]`: the `[ ]` nesting stops at 64 as intended,
/// but the collections that come next are still nested without bound (64 + 70 > 128).
#[test]
fn pretty_mode_roundtrips_collections_below_brackets() {
    let mut g = nested_collections(70);
    g.remove(0); // <tag:s> <tag:p> _:l0a
    let mut prev = iri("tag:s");
    for i in 0..64 {
        let b = bn(format!("c{i}"));
        g.push([prev, iri("tag:q"), b.clone()]);
        prev = b;
    }
    g.push([prev, iri("tag:p"), bn("l0a".into())]);
    roundtrip(&g, TurtleConfig::new()).unwrap();
    roundtrip(&g, TurtleConfig::new().with_pretty(true)).unwrap();
}
