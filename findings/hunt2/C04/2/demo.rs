//! C04 / violation 2 -- drop into `turtle/tests/hunt_C04_2.rs`, run with
//! `cargo test -p sophia_turtle --test hunt_C04_2 --offline`
//!
//! A prefix such as `true.x` or `false.v1` is a legal PN_PREFIX (`Prefix::new` accepts it,
//! `TurtleConfig::with_own_prefix_map` takes it). The pretty serializer uses it to abbreviate IRIs
//! in every position. In *object* position (also: collection item, object of a quoted triple)
//! rio_turtle's `parse_object` sees `true` followed by `.` and decides it is the boolean `true`
//! followed by the end of the statement: the document produced by the serializer is rejected
//! ("unknown prefix 'x'"), or, worse, could be read as other triples.

use sophia_api::prefix::Prefix;
use sophia_api::prelude::*;
use sophia_api::term::SimpleTerm;
use sophia_iri::{Iri, IriRef};
use sophia_isomorphism::isomorphic_graphs;
use sophia_turtle::parser::turtle;
use sophia_turtle::serializer::turtle::{TurtleConfig, TurtleSerializer};

type G = Vec<[SimpleTerm<'static>; 3]>;

fn iri(s: &str) -> SimpleTerm<'static> {
    SimpleTerm::Iri(IriRef::new_unchecked(s.to_string().into()))
}

fn config(prefix: &str) -> TurtleConfig {
    let prefix = Prefix::new(prefix.to_string()).expect("a legal Turtle prefix");
    TurtleConfig::new()
        .with_pretty(true)
        .with_own_prefix_map(vec![(
            prefix.map_unchecked(Into::into),
            Iri::new_unchecked("http://example.org/ns/".into()),
        )])
}

fn roundtrip(g: &G, config: TurtleConfig) -> Result<(), String> {
    let out = TurtleSerializer::new_stringifier_with_config(config)
        .serialize_triples(g.triples())
        .map_err(|e| format!("serializer error: {e}"))?
        .to_string();
    let g2: G = turtle::parse_str(&out)
        .collect_triples()
        .map_err(|e| format!("the serializer output does not parse back: {e}\n{out}"))?;
    if g2.len() != g.len() || !isomorphic_graphs(g, &g2).unwrap() {
        return Err(format!("parsed graph differs from the input\n{out}"));
    }
    Ok(())
}

/// Sanity: the same prefix is harmless as long as the abbreviated IRI is subject or predicate,
/// and a prefix that merely starts with `true` is harmless in object position.
#[test]
fn prefix_true_dot_x_in_subject_and_predicate() {
    let g: G = vec![[
        iri("http://example.org/ns/a"),
        iri("http://example.org/ns/b"),
        iri("tag:o"),
    ]];
    roundtrip(&g, config("true.x")).unwrap();
    let g: G = vec![[iri("tag:s"), iri("tag:p"), iri("http://example.org/ns/a")]];
    roundtrip(&g, config("truex")).unwrap();
    roundtrip(&g, config("true-x")).unwrap();
}

/// Expected (C04): with any prefix map, the pretty output parses back to an isomorphic graph.
/// Observed: `<tag:s> <tag:p> true.x:a.` -> "unknown prefix 'x'".
#[test]
fn prefix_true_dot_x_in_object() {
    let g: G = vec![[iri("tag:s"), iri("tag:p"), iri("http://example.org/ns/a")]];
    roundtrip(&g, config("true.x")).unwrap();
}

/// Same with `false.`
#[test]
fn prefix_false_dot_v1_in_object() {
    let g: G = vec![[iri("tag:s"), iri("tag:p"), iri("http://example.org/ns/a")]];
    roundtrip(&g, config("false.v1")).unwrap();
}
