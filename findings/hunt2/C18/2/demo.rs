//! C18 / finding 2 -- drop into `xml/tests/hunt_C18_2.rs`, run with
//! `cargo test -p sophia_xml --test hunt_C18_2 --offline`.
//!
//! A predicate whose namespace part is `http://www.w3.org/2000/xmlns/` (e.g.
//! `<http://www.w3.org/2000/xmlns/foo>`, a perfectly legal IRI with an NCName suffix) is written
//! as `<foo xmlns="http://www.w3.org/2000/xmlns/">`.  "Namespaces in XML 1.0" (section 3,
//! namespace constraint "Reserved Prefixes and Namespace Names") says that this namespace name
//! MUST NOT be declared as the default namespace and that no prefix may be bound to it, so the
//! document is not namespace-well-formed (`xmllint`: "namespace error : reuse of the xmlns
//! namespace name is forbidden"; expat rejects the whole document: "prefix must not be bound to
//! one of the reserved namespace names").  The serializer nevertheless reports success; only sophia's own (quick-xml based)
//! parser, which does not check the constraint, reads the document back.
//!
//! Expected (property C18): serialisation either fails with an error or produces a well-formed
//! document.  Such a predicate cannot be written as an XML qualified name at all (no element can
//! be in that namespace), so the only correct outcome here is an error.

use sophia_api::prelude::*;
use sophia_api::term::SimpleTerm;
use sophia_iri::IriRef;
use sophia_xml::serializer::{RdfXmlConfig, RdfXmlSerializer};

const XMLNS_NS: &str = "http://www.w3.org/2000/xmlns/";

type MyGraph = Vec<[SimpleTerm<'static>; 3]>;

fn iri(s: &str) -> SimpleTerm<'static> {
    SimpleTerm::Iri(IriRef::new(s.to_string().into()).unwrap())
}

fn lit(s: &str) -> SimpleTerm<'static> {
    SimpleTerm::LiteralDatatype(
        s.to_string().into(),
        IriRef::new("http://www.w3.org/2001/XMLSchema#string".to_string().into()).unwrap(),
    )
}

/// Every namespace declaration (`xmlns="..."` or `xmlns:p="..."`) found in `doc`,
/// as (attribute name, raw value).
fn namespace_declarations(doc: &str) -> Vec<(String, String)> {
    let mut res = vec![];
    let mut rest = doc;
    while let Some(pos) = rest.find(" xmlns") {
        let decl = &rest[pos + 1..];
        let eq = decl.find('=').unwrap();
        let name = &decl[..eq];
        let quote = decl[eq + 1..].chars().next().unwrap();
        let value = &decl[eq + 2..];
        let value = &value[..value.find(quote).unwrap()];
        res.push((name.to_string(), value.to_string()));
        rest = &decl[eq + 2 + value.len()..];
    }
    res
}

fn check(g: &MyGraph, indentation: usize) {
    let config = RdfXmlConfig::new().with_indentation(indentation);
    let mut ser = RdfXmlSerializer::new_stringifier_with_config(config);
    if ser.serialize_triples(g.triples()).is_err() {
        // Refusing a predicate that can not be written as a qualified name is the correct outcome.
        return;
    }
    let out = ser.to_string();
    for (name, value) in namespace_declarations(&out) {
        assert_ne!(
            value, XMLNS_NS,
            "serialization reported success, but the document declares the reserved namespace name {XMLNS_NS} \
             (attribute {name}), which violates the namespace constraint 'Reserved Prefixes and Namespace Names' \
             of Namespaces in XML 1.0:\n{out}"
        );
    }
}

#[test]
fn predicate_in_the_xmlns_namespace_with_literal_object() {
    let g = vec![[
        iri("http://example.org/s"),
        iri("http://www.w3.org/2000/xmlns/foo"),
        lit("x"),
    ]];
    check(&g, 0);
    check(&g, 4);
}

#[test]
fn predicate_in_the_xmlns_namespace_with_iri_object() {
    let g = vec![
        [
            iri("http://example.org/s"),
            iri("http://example.org/p"),
            lit("fine"),
        ],
        [
            iri("http://example.org/s"),
            iri("http://www.w3.org/2000/xmlns/rdf"),
            iri("http://example.org/o"),
        ],
    ];
    check(&g, 0);
    check(&g, 2);
}

/// Sanity check of the helper: ordinary predicates are fine.
#[test]
fn ordinary_predicates_pass() {
    let g = vec![[
        iri("http://example.org/s"),
        iri("http://example.org/xmlns/foo"),
        lit("x"),
    ]];
    let mut ser = RdfXmlSerializer::new_stringifier();
    ser.serialize_triples(g.triples()).unwrap();
    let decls = namespace_declarations(&ser.to_string());
    assert_eq!(decls.len(), 2);
    assert_eq!(decls[1], ("xmlns".to_string(), "http://example.org/xmlns/".to_string()));
    check(&g, 0);
}
