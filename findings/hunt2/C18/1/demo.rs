//! C18 / finding 1 -- drop into `xml/tests/hunt_C18_1.rs`, run with
//! `cargo test -p sophia_xml --test hunt_C18_1 --offline`.
//!
//! `TripleSerializer::serialize_triples` returns `&mut Self` so that calls can be chained, and a
//! serializer is bound to ONE target.  Serialising a graph in several batches
//! (`ser.serialize_triples(a)?.serialize_triples(b)?`) works with the N-Triples and Turtle
//! serializers.  With `RdfXmlSerializer` every call writes a complete document
//! (`<?xml ...?><rdf:RDF ...> ... </rdf:RDF>`) to the same target, so the target ends up holding
//! two XML declarations and two root elements: that is not a well-formed XML document, and both
//! calls reported success.
//!
//! Expected (property C18): serialising to RDF/XML either fails with an error, or produces a
//! well-formed document whose parse is isomorphic to what was serialised.

use sophia_api::prelude::*;
use sophia_api::term::SimpleTerm;
use sophia_iri::IriRef;
use sophia_isomorphism::isomorphic_graphs;
use sophia_xml::serializer::{RdfXmlConfig, RdfXmlSerializer};

type MyGraph = Vec<[SimpleTerm<'static>; 3]>;

fn iri(s: &str) -> SimpleTerm<'static> {
    SimpleTerm::Iri(IriRef::new(s.to_string().into()).unwrap())
}

fn lit(s: &str) -> SimpleTerm<'static> {
    SimpleTerm::LiteralDatatype(
        s.to_string().into(),
        IriRef::new("http://www.w3.org/2001/XMLSchema#string".to_string().into()).unwrap(),
    )
}

/// A minimal well-formedness check, sufficient for the output of the RDF/XML serializer
/// (where `<` and `>` never occur in character data or attribute values, because they are escaped):
/// * an XML declaration may only occur at the very beginning of the document,
/// * there is exactly one root element, and all tags are balanced.
fn check_single_document(doc: &str) -> Result<(), String> {
    if let Some(pos) = doc.rfind("<?xml ") {
        if pos != 0 {
            return Err(format!("XML declaration at byte {pos} (only allowed at byte 0)"));
        }
    }
    let mut depth = 0usize;
    let mut roots = 0usize;
    let mut rest = doc;
    while let Some(start) = rest.find('<') {
        let end = start + rest[start..].find('>').ok_or("unterminated tag")?;
        let tag = &rest[start..=end];
        if tag.starts_with("<?") {
            // processing instruction or XML declaration
        } else if tag.starts_with("</") {
            depth = depth.checked_sub(1).ok_or("unbalanced end tag")?;
        } else {
            if depth == 0 {
                roots += 1;
                if roots > 1 {
                    return Err(format!("second root element {tag}"));
                }
            }
            if !tag.ends_with("/>") {
                depth += 1;
            }
        }
        rest = &rest[end + 1..];
    }
    if depth != 0 {
        return Err("unclosed element".into());
    }
    if roots != 1 {
        return Err(format!("{roots} root elements"));
    }
    Ok(())
}

fn batches() -> (MyGraph, MyGraph) {
    let g1 = vec![[iri("http://example.org/s1"), iri("http://example.org/p"), lit("one")]];
    let g2 = vec![
        [iri("http://example.org/s2"), iri("http://example.org/p"), lit("two")],
        [iri("http://example.org/s2"), iri("http://example.org/q"), iri("http://example.org/s1")],
    ];
    (g1, g2)
}

fn two_batches(indentation: usize) {
    let (g1, g2) = batches();
    let config = RdfXmlConfig::new().with_indentation(indentation);
    let mut ser = RdfXmlSerializer::new_stringifier_with_config(config);

    let res = ser
        .serialize_triples(g1.triples())
        .and_then(|ser| ser.serialize_triples(g2.triples()))
        .map(|_| ());
    if res.is_err() {
        // Refusing to write a second document to the same target is acceptable.
        return;
    }
    // Both calls reported success, so the target must hold ONE well-formed document ...
    let out = ser.to_string();
    if let Err(msg) = check_single_document(&out) {
        panic!(
            "both serialize_triples calls returned Ok, but the target is not a well-formed XML document: {msg}\n{out}"
        );
    }
    // ... that denotes everything that was serialised.
    let all: MyGraph = g1.iter().chain(g2.iter()).cloned().collect();
    let parsed: MyGraph = sophia_xml::parser::parse_str(&out)
        .collect_triples()
        .expect("the output must be parseable");
    assert!(isomorphic_graphs(&all, &parsed).unwrap());
}

#[test]
fn two_batches_to_one_target_without_indentation() {
    two_batches(0);
}

#[test]
fn two_batches_to_one_target_with_indentation() {
    two_batches(4);
}

/// Same thing through `serialize_graph`, with an empty first graph: the "empty" document written
/// by the first call is already complete, so whatever is serialised afterwards lands after the
/// end of the document.
#[test]
fn empty_graph_then_graph() {
    let (_, g2) = batches();
    let empty = MyGraph::new();
    let mut ser = RdfXmlSerializer::new_stringifier();
    let res = ser
        .serialize_graph(&empty)
        .and_then(|ser| ser.serialize_graph(&g2))
        .map(|_| ());
    if res.is_err() {
        return;
    }
    let out = ser.to_string();
    if let Err(msg) = check_single_document(&out) {
        panic!("not a well-formed XML document: {msg}\n{out}");
    }
}

/// Sanity check of the helper: a single call does produce a single well-formed document.
#[test]
fn one_call_is_fine() {
    let (g1, _) = batches();
    for indentation in [0, 4] {
        let config = RdfXmlConfig::new().with_indentation(indentation);
        let mut ser = RdfXmlSerializer::new_stringifier_with_config(config);
        ser.serialize_triples(g1.triples()).unwrap();
        check_single_document(&ser.to_string()).unwrap();
    }
}
