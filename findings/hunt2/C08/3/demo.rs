//! C08 / hunt2 / violation 3   (root cause in a dependency: iref 2.2.3, reached through json-ld 0.15)
//! Drop into `jsonld/tests/hunt_C08_3.rs`, run with
//!   cargo test -p sophia_jsonld --test hunt_C08_3 --offline            (debug:   "attempt to subtract with overflow", iref-2.2.3/src/iri/path.rs:763)
//!   cargo test -p sophia_jsonld --test hunt_C08_3 --offline --release  (release: "range start index 2 out of range for slice of length 0", iref-2.2.3/src/reference/buffer.rs:242)
//!
//! Property C08: any JSON-LD document (without remote context) yields statements or an error;
//! the parser never panics, in debug or release builds.
//!
//! Observed: when the base IRI has a rootless path (`urn:...`, `tag:...`, `mailto:...`, `a:b`)
//! and an IRI reference climbs above it with two `..` segments, the reference resolution of
//! `iref` (`PathMut::pop`) underflows and the whole parser panics.  The base may come from the
//! document itself (`@base`) or from `JsonLdOptions::with_base`.

use sophia_api::prelude::*;
use sophia_iri::Iri;
use sophia_jsonld::{JsonLdOptions, JsonLdParser};
use std::sync::Arc;

/// Ok(number of quads, all terms checked) or Err(parser error)
fn parse(base: Option<&'static str>, doc: &'static str) -> Result<usize, String> {
    let res = std::panic::catch_unwind(move || {
        let mut options = JsonLdOptions::new();
        if let Some(base) = base {
            options = options.with_base(Iri::new(base).unwrap().map_unchecked(Arc::<str>::from));
        }
        let mut n = 0;
        JsonLdParser::new_with_options(options)
            .parse_str(doc)
            .try_for_each_quad(|q| -> Result<(), std::convert::Infallible> {
                for t in [q.s(), q.p(), q.o()] {
                    if let Some(iri) = t.iri() {
                        assert!(Iri::new(iri.as_str()).is_ok(), "invalid IRI {iri:?}");
                    }
                }
                n += 1;
                Ok(())
            })
            .map(|_| n)
            .map_err(|e| e.to_string())
    });
    match res {
        Ok(r) => r,
        Err(_) => panic!("C08 violated: the JSON-LD parser panicked on {doc} (base {base:?})"),
    }
}

#[test]
fn control_hierarchical_base() {
    // climbing above the root of a hierarchical base is handled (RFC 3986, 5.2.4)
    assert_eq!(
        parse(None, r#"{"@context": {"@base": "http://a/b"}, "@id": "../../x", "tag:p": 1}"#),
        Ok(1)
    );
}

#[test]
fn base_in_context_rootless() {
    // Expected: one quad whose subject is a valid IRI (RFC 3986 gives <urn:x>), or an error.
    let r = parse(None, r#"{"@context": {"@base": "urn:example:doc"}, "@id": "../../x", "tag:p": 1}"#);
    println!("{r:?}");
}

#[test]
fn base_in_context_minimal() {
    let r = parse(None, r#"{"@context": {"@base": "a:b"}, "@id": "../..", "tag:p": 1}"#);
    println!("{r:?}");
}

#[test]
fn base_in_options_rootless() {
    let r = parse(
        Some("tag:example.org,2024:doc"),
        r#"{"@id": "tag:s", "tag:p": {"@id": "../../o"}}"#,
    );
    println!("{r:?}");
}
