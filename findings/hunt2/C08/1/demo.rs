//! C08 / hunt2 / violation 1
//! Drop into `jsonld/tests/hunt_C08_1.rs`, run with
//!   cargo test -p sophia_jsonld --test hunt_C08_1 --offline            (debug)
//!   cargo test -p sophia_jsonld --test hunt_C08_1 --offline --release  (release: same panic)
//!
//! Property C08: for any input the JSON-LD parser either reports an error or yields
//! statements whose language tags are accepted by `LanguageTag::new`; it never panics,
//! in debug or release builds.
//!
//! Observed: a `@language` value with an empty subtag (`-nan`, `be--phonebk`, `-oed`) is
//! declared "well-formed" by the `langtag` crate used by json-ld; sophia's vocabulary adapter
//! (`jsonld/src/vocabulary.rs`, `ArcVoc::get_language_tag`) wraps it with
//! `LanguageTag::new_unchecked`, which re-validates with an unconditional `assert!`
//! (`api/src/term/language_tag.rs`), so the parser panics in debug AND release builds.

use sophia_api::prelude::*;
use sophia_api::term::LanguageTag;
use sophia_jsonld::JsonLdParser;

/// Parse `doc`, and return Ok(language tags of all objects) or Err(parser error message).
/// A panic inside the parser is turned into a test failure that names the document.
fn lang_tags(doc: &'static str) -> Result<Vec<String>, String> {
    let res = std::panic::catch_unwind(|| {
        let mut tags = vec![];
        JsonLdParser::new()
            .parse_str(doc)
            .try_for_each_quad(|q| -> Result<(), std::convert::Infallible> {
                if let Some(tag) = q.o().language_tag() {
                    tags.push(tag.as_str().to_string());
                }
                Ok(())
            })
            .map(|_| tags)
            .map_err(|e| e.to_string())
    });
    match res {
        Ok(r) => r,
        Err(_) => panic!("C08 violated: the JSON-LD parser panicked on {doc}"),
    }
}

/// Expected: an error, or only language tags that `LanguageTag::new` accepts (a processor may
/// also drop the value, as it does for `en_US`).
fn check(doc: &'static str) {
    if let Ok(tags) = lang_tags(doc) {
        for tag in tags {
            assert!(
                LanguageTag::new(tag.as_str()).is_ok(),
                "C08 violated: invalid language tag {tag:?} delivered for {doc}"
            );
        }
    }
}

#[test]
fn control_malformed_tag_is_handled() {
    // json-ld recognises this one as malformed: no panic (the value is dropped)
    check(r#"{"@id": "tag:s", "tag:p": {"@value": "x", "@language": "en_US"}}"#);
}

#[test]
fn value_object_language_with_leading_empty_subtag() {
    check(r#"{"@id": "tag:s", "tag:p": {"@value": "x", "@language": "-nan"}}"#);
}

#[test]
fn value_object_language_with_inner_empty_subtag() {
    check(r#"{"@id": "tag:s", "tag:p": {"@value": "x", "@language": "be--phonebk"}}"#);
}

#[test]
fn context_default_language() {
    check(r#"{"@context": {"@language": "-oed"}, "@id": "tag:s", "tag:p": "x"}"#);
}

#[test]
fn language_map_key() {
    check(
        r#"{"@context": {"p": {"@id": "tag:p", "@container": "@language"}}, "@id": "tag:s", "p": {"-tao": "x"}}"#,
    );
}
