//! C08 / hunt2 / violation 5   (own code: jsonld/src/parser.rs, QuadParser::parse_str)
//! Drop into `jsonld/tests/hunt_C08_5.rs`, run with
//!   cargo test -p sophia_jsonld --test hunt_C08_5 --offline   (same outcome with --release)
//!
//! Property C08: every parser, given any byte sequence, terminates with statements or an
//! error; it never panics.
//!
//! Observed: the synchronous entry points of the JSON-LD parser (`QuadParser::parse`,
//! `parse_str`, and the module functions `sophia_jsonld::parser::parse_str/parse_bufread`)
//! build a private Tokio runtime and `block_on` it.  When the caller is itself running on a
//! Tokio runtime (an `async fn` of a web service, `#[tokio::main]`, ...), Tokio refuses the
//! nested `block_on` and the parser panics ("Cannot start a runtime from within a runtime")
//! for EVERY input, valid or not, with the default `NoLoader` (which performs no I/O at all).
//! The documentation of `JsonLdParser` only mentions a WebAssembly restriction.
//! All other parsers of the toolkit can be called from any context.

use sophia_api::prelude::*;
use sophia_api::quad::Spog;
use sophia_jsonld::JsonLdParser;
use sophia_term::ArcTerm;

const DOC: &str = r#"{"@id": "tag:s", "tag:p": {"@id": "tag:o"}}"#;

fn count_quads(doc: &str) -> Result<usize, String> {
    JsonLdParser::new()
        .parse_str(doc)
        .collect_quads::<Vec<Spog<ArcTerm>>>()
        .map(|v| v.len())
        .map_err(|e| e.to_string())
}

#[test]
fn control_outside_of_a_runtime() {
    assert_eq!(count_quads(DOC), Ok(1));
    assert!(count_quads("{").is_err());
}

#[test]
fn inside_a_tokio_runtime() {
    let rt = tokio::runtime::Builder::new_current_thread()
        .build()
        .unwrap();
    // Expected: same results as outside of a runtime (or, at the very least, an error).
    rt.block_on(async {
        assert_eq!(count_quads(DOC), Ok(1));
        assert!(count_quads("{").is_err());
    });
}
