//! C08 / hunt2 / violation 4   (root cause in a dependency: iref 2.2.3 IPv6 literal parsing, reached through json-ld 0.15)
//! Drop into `jsonld/tests/hunt_C08_4.rs`, run with
//!   cargo test -p sophia_jsonld --test hunt_C08_4 --offline            (debug:   panic INSIDE iref, `debug_assert_eq!(lhs_shift, 32)` in iref-2.2.3/src/parsing/mod.rs:591, resp. panic in Iri::new_unchecked)
//!   cargo test -p sophia_jsonld --test hunt_C08_4 --offline --release  (release: the non-IRI is delivered as a "validated" Iri)
//!
//! Property C08: the JSON-LD parser yields an error or statements whose IRIs are accepted by
//! the toolkit's IRI validator; it never panics, in debug or release builds.
//!
//! Observed: the IP-literal parser of `iref` accepts hosts that are not `IPv6address`:
//!   * an IPv4 address alone or after fewer than six groups:  `[1.2.3.4]`, `[ffff:1.2.3.4]`
//!     (in debug builds iref's own `debug_assert_eq!` fires first, so the panic is inside iref),
//!   * dec-octets with leading zeros: `[::1.2.3.04]`.
//! Such strings are neither RFC 3987 IRIs nor accepted by `sophia_iri::Iri::new` (nor by oxiri,
//! so the Turtle parser rejects them), but the JSON-LD parser hands them over as `Iri`s
//! (`ArcVoc::get` -> `Iri::new_unchecked`).
//! NB: different from the known `http://[v1.\u{200e}]/p` case (IPvFuture): other production,
//! and in debug builds the panic is raised by the dependency itself, before the adapter is reached.

use sophia_api::prelude::*;
use sophia_iri::Iri;
use sophia_jsonld::JsonLdParser;

/// Ok(all IRIs in subject/object position) or Err(parser error)
fn iris(doc: &'static str) -> Result<Vec<String>, String> {
    let res = std::panic::catch_unwind(move || {
        let mut iris = vec![];
        JsonLdParser::new()
            .parse_str(doc)
            .try_for_each_quad(|q| -> Result<(), std::convert::Infallible> {
                iris.extend(q.s().iri().map(|i| i.as_str().to_string()));
                iris.extend(q.o().iri().map(|i| i.as_str().to_string()));
                iris.extend(q.o().datatype().map(|i| i.as_str().to_string()));
                Ok(())
            })
            .map(|_| iris)
            .map_err(|e| e.to_string())
    });
    match res {
        Ok(r) => r,
        Err(_) => panic!("C08 violated: the JSON-LD parser panicked on {doc}"),
    }
}

/// Expected: an error, or the node is dropped (what json-ld does with other malformed @id's),
/// or at least only IRIs that `Iri::new` accepts.
fn check(doc: &'static str) {
    if let Ok(iris) = iris(doc) {
        for iri in iris {
            assert!(
                Iri::new(iri.as_str()).is_ok(),
                "C08 violated: {iri:?} delivered as an IRI for {doc}, but Iri::new rejects it"
            );
        }
    }
}

#[test]
fn control_real_ipv6_hosts() {
    check(r#"{"@id": "http://[::1.2.3.4]/s", "tag:p": {"@id": "http://[1:2:3:4:5:6:1.2.3.4]/o"}}"#);
    // a malformed @id is dropped by json-ld
    assert_eq!(iris(r#"{"@id": "http://[::g]/s", "tag:p": 1}"#), Ok(vec![]));
}

#[test]
fn bare_ipv4_in_brackets() {
    check(r#"{"@id": "http://[1.2.3.4]/s", "tag:p": 1}"#);
}

#[test]
fn too_short_ipv6_with_ipv4_tail_as_datatype() {
    check(r#"{"@id": "tag:s", "tag:p": {"@value": "x", "@type": "http://[ffff:1.2.3.4]/dt"}}"#);
}

#[test]
fn ipv4_tail_with_leading_zero() {
    check(r#"{"@id": "tag:s", "tag:p": {"@id": "http://[::1.2.3.04]/o"}}"#);
}
