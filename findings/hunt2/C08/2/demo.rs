//! C08 / hunt2 / violation 2
//! Drop into `jsonld/tests/hunt_C08_2.rs`, run with
//!   cargo test -p sophia_jsonld --test hunt_C08_2 --offline            (debug)
//!   cargo test -p sophia_jsonld --test hunt_C08_2 --offline --release  (release: same panic)
//!
//! Property C08 (mechanism "configured base IRI is re-parsed by the back-end's parser with
//! unwrap"): a parser configured with a base IRI that the toolkit's own validator accepts
//! (`sophia_iri::Iri::new`) must parse any document to statements or an error, never panic.
//!
//! Observed: `ArcVoc::iri` (jsonld/src/vocabulary.rs) re-parses every `ArcIri` with
//! `iref::Iri::new(..).unwrap()`.  The base IRI of `JsonLdOptions::with_base` is an `ArcIri`
//! validated by Sophia only, and `iref` 2.2 is stricter than RFC 3986/3987 on one point: it only
//! knows the lower-case `v` of `IPvFuture` ("v" is case-insensitive in ABNF, Sophia and oxiri
//! accept `V`).  With such a base, the first relative IRI of the document makes the parser panic
//! ("called `Result::unwrap()` on an `Err` value: InvalidPath"), in debug and release builds.
//! The Turtle and RDF/XML parsers accept the same base and resolve against it.

use sophia_api::prelude::*;
use sophia_iri::Iri;
use sophia_jsonld::{JsonLdOptions, JsonLdParser};
use std::sync::Arc;

const BASE: &str = "http://[V1.a]/dir/doc";
const DOC: &str = r#"{"@id": "s", "tag:p": {"@id": "o"}}"#;

/// Ok(subject and object IRIs) or Err(parser error)
fn parse_with_base(base: &'static str, doc: &'static str) -> Result<Vec<String>, String> {
    // the base is valid for the toolkit's validator (this is not `new_unchecked`)
    let base = Iri::new(base)
        .expect("valid according to sophia_iri")
        .map_unchecked(Arc::<str>::from);
    let res = std::panic::catch_unwind(move || {
        let parser = JsonLdParser::new_with_options(JsonLdOptions::new().with_base(base));
        let mut iris = vec![];
        parser
            .parse_str(doc)
            .try_for_each_quad(|q| -> Result<(), std::convert::Infallible> {
                iris.extend(q.s().iri().map(|i| i.as_str().to_string()));
                iris.extend(q.o().iri().map(|i| i.as_str().to_string()));
                Ok(())
            })
            .map(|_| iris)
            .map_err(|e| e.to_string())
    });
    match res {
        Ok(r) => r,
        Err(_) => panic!("C08 violated: JSON-LD parser with base <{BASE}> panicked on {doc}"),
    }
}

#[test]
fn control_lowercase_ipvfuture_base() {
    let iris = parse_with_base("http://[v1.a]/dir/doc", DOC).unwrap();
    assert_eq!(iris, ["http://[v1.a]/dir/s", "http://[v1.a]/dir/o"]);
}

#[test]
fn uppercase_ipvfuture_base() {
    // Expected: the resolved IRIs (as the control), or an error reported through the source.
    match parse_with_base(BASE, DOC) {
        Ok(iris) => {
            assert_eq!(iris, ["http://[V1.a]/dir/s", "http://[V1.a]/dir/o"]);
        }
        Err(msg) => println!("reported as an error (acceptable): {msg}"),
    }
}

#[test]
fn uppercase_ipvfuture_base_absolute_document() {
    // even a document that needs no resolution at all panics, because json-ld looks at the base first
    match parse_with_base(BASE, r#"{"@id": "tag:s", "tag:p": {"@id": ""}}"#) {
        Ok(iris) => assert_eq!(iris, ["tag:s", BASE]),
        Err(msg) => println!("reported as an error (acceptable): {msg}"),
    }
}
