//! Hunt 2 / C14 / violation 1 -- drop into `sparql/tests/hunt2_C14_1.rs`, run with
//! `cargo test -p sophia_sparql --test hunt2_C14_1 --offline`
//!
//! Property C14: "... The order used is a genuine total preorder, so results are reproducible ..."
//! (quantifier: "... ill-typed literals, plain/tagged strings ...").
//!
//! ORDER BY relies on `Term::cmp` (api/src/term.rs), documented and used as a *total order*
//! ("this function falls back to the total order defined by Term::cmp").
//! `Term::cmp` is not transitive on literals. Two language-tagged literals are ordered by
//! (tag, lexical form); a language-tagged literal and a literal typed rdf:langString *without* a tag
//! (ill-typed, but accepted by the Turtle parser and by every term type) are ordered by
//! (datatype, lexical form, presence of a tag). So
//!     "b"@en  <  "a"@fr                 (tag en < fr)
//!     "a"@fr  <  "aa"^^rdf:langString   (same datatype, lexical form "a" < "aa")
//!     "aa"^^rdf:langString  <  "b"@en   (same datatype, lexical form "aa" < "b")
//! is a cycle. No value comparison is involved here (SparqlValue orders two tagged strings by
//! (tag, lexical form) as well, and the tag-less literal has no value): this is distinct from the
//! known "value comparison + Term::cmp fallback" defect; the cycle is inside Term::cmp itself, and
//! also breaks `Ord for SimpleTerm / ArcTerm / GenericLiteral / CmpTerm` (sort, BTreeSet).

use std::cmp::Ordering;

use sophia_api::prelude::*;
use sophia_api::quad::Spog;
use sophia_api::sparql::Query;
use sophia_api::term::{IriRef, LanguageTag, SimpleTerm};
use sophia_sparql::*;

const RDF_LANG_STRING: &str = "http://www.w3.org/1999/02/22-rdf-syntax-ns#langString";

fn lang(lex: &'static str, tag: &'static str) -> SimpleTerm<'static> {
    SimpleTerm::LiteralLanguage(lex.into(), LanguageTag::new_unchecked(tag.into()))
}

fn typed(lex: &'static str, dt: &'static str) -> SimpleTerm<'static> {
    SimpleTerm::LiteralDatatype(lex.into(), IriRef::new_unchecked(dt.into()))
}

fn iri(i: String) -> SimpleTerm<'static> {
    SimpleTerm::Iri(IriRef::new_unchecked(i.into()))
}

/// Store the given values (one solution each, enumerated in the given order:
/// a `Vec` dataset enumerates its quads in insertion order),
/// and return the ?x column of `SELECT ?x { ?s <tag:v> ?x } ORDER BY <order>`.
fn order_by(values: &[SimpleTerm<'static>], order: &str) -> Vec<String> {
    let dataset: Vec<Spog<SimpleTerm<'static>>> = values
        .iter()
        .enumerate()
        .map(|(i, v)| ([iri(format!("tag:s{i}")), iri("tag:v".into()), v.clone()], None))
        .collect();
    let wrapper = SparqlWrapper(&dataset);
    let query = SparqlQuery::parse(&format!("SELECT ?x {{ ?s <tag:v> ?x }} ORDER BY {order}")).unwrap();
    wrapper
        .query(&query)
        .unwrap()
        .into_bindings()
        .into_iter()
        .map(|row| row.unwrap()[0].as_ref().unwrap().to_string())
        .collect()
}

fn permutations<T: Clone>(v: &[T]) -> Vec<Vec<T>> {
    if v.len() <= 1 {
        return vec![v.to_vec()];
    }
    let mut out = vec![];
    for i in 0..v.len() {
        let mut rest = v.to_vec();
        let x = rest.remove(i);
        for mut p in permutations(&rest) {
            p.insert(0, x.clone());
            out.push(p);
        }
    }
    out
}

fn the_three() -> [SimpleTerm<'static>; 3] {
    [lang("b", "en"), lang("a", "fr"), typed("aa", RDF_LANG_STRING)]
}

/// Expected: `Term::cmp` is a total order (its documentation, and every `Ord` impl built on it,
/// say so): for all a, b, c: a < b and b < c imply a < c.
/// Observed: "b"@en < "a"@fr < "aa"^^rdf:langString < "b"@en.
#[test]
fn term_cmp_is_transitive() {
    let terms = the_three();
    for a in &terms {
        for b in &terms {
            for c in &terms {
                if Term::cmp(a, b) == Ordering::Less && Term::cmp(b, c) == Ordering::Less {
                    assert_eq!(
                        Term::cmp(a, c),
                        Ordering::Less,
                        "{a:?} < {b:?} and {b:?} < {c:?}, but not {a:?} < {c:?}"
                    );
                }
            }
        }
    }
}

/// Expected: no two of the three values are tied (the comparator never answers Equal for them),
/// so a total preorder leaves exactly one possible result: ORDER BY ?x returns the same sequence
/// whatever the order in which the store enumerates the three solutions.
/// Observed: three different sequences (each value comes first in two of the six arrangements).
#[test]
fn order_by_does_not_depend_on_enumeration_order() {
    let mut results: Vec<Vec<String>> = permutations(&the_three())
        .iter()
        .map(|p| order_by(p, "?x"))
        .collect();
    results.sort();
    results.dedup();
    assert_eq!(results.len(), 1, "ORDER BY ?x gives different results for the same solutions: {results:#?}");
}

/// Expected: "b"@en precedes "a"@fr in every result of ORDER BY ?x (the comparator puts
/// tag en before tag fr, and does so whenever only these two are present -- see the control below);
/// with DESC(?x), "a"@fr precedes "b"@en.
/// Observed: when the tag-less literal is enumerated between them, "a"@fr comes out before "b"@en.
#[test]
fn tagged_strings_keep_their_relative_order() {
    for p in permutations(&the_three()) {
        let got = order_by(&p, "?x");
        let en = got.iter().position(|x| x.ends_with("@en")).unwrap();
        let fr = got.iter().position(|x| x.ends_with("@fr")).unwrap();
        assert!(en < fr, "ORDER BY ?x on {p:?} gives {got:?}");
        let got = order_by(&p, "DESC(?x)");
        let en = got.iter().position(|x| x.ends_with("@en")).unwrap();
        let fr = got.iter().position(|x| x.ends_with("@fr")).unwrap();
        assert!(fr < en, "ORDER BY DESC(?x) on {p:?} gives {got:?}");
    }
}

/// Expected: sorting a `Vec<SimpleTerm>` (whose `Ord` is `Term::cmp`) gives one result.
/// Observed: the result depends on the initial arrangement.
#[test]
fn sorting_terms_is_reproducible() {
    let mut results: Vec<Vec<SimpleTerm<'static>>> = permutations(&the_three())
        .into_iter()
        .map(|mut p| {
            p.sort();
            p
        })
        .collect();
    results.dedup();
    assert_eq!(results.len(), 1, "{results:#?}");
}

/// The tag-less rdf:langString literal is not exotic input: the Turtle parser delivers it.
/// Expected / observed: as in `order_by_does_not_depend_on_enumeration_order`.
#[test]
fn same_thing_from_a_turtle_file() {
    use sophia_api::parser::TripleParser;
    use sophia_api::source::TripleSource;
    let lines = [
        r#"<tag:s1> <tag:v> "b"@en ."#,
        r#"<tag:s2> <tag:v> "a"@fr ."#,
        r#"<tag:s3> <tag:v> "aa"^^<http://www.w3.org/1999/02/22-rdf-syntax-ns#langString> ."#,
    ];
    let mut results = vec![];
    for p in permutations(&lines) {
        let triples: Vec<[SimpleTerm<'static>; 3]> = sophia_turtle::parser::turtle::TurtleParser::default()
            .parse_str(&p.join("\n"))
            .collect_triples()
            .unwrap();
        let values: Vec<_> = triples.into_iter().map(|[_, _, o]| o).collect();
        results.push(order_by(&values, "?x"));
    }
    results.sort();
    results.dedup();
    assert_eq!(results.len(), 1, "{results:#?}");
}

/// Control (passes): without the tag-less literal the order is reproducible, en before fr;
/// and a tag-less rdf:langString literal with only one tagged string is fine too.
#[test]
fn control_two_values() {
    for p in permutations(&[lang("b", "en"), lang("a", "fr")]) {
        assert_eq!(order_by(&p, "?x"), vec!["\"b\"@en", "\"a\"@fr"]);
    }
    let mut results: Vec<_> = permutations(&[lang("b", "en"), typed("aa", RDF_LANG_STRING)])
        .iter()
        .map(|p| order_by(p, "?x"))
        .collect();
    results.dedup();
    assert_eq!(results.len(), 1);
}
