//! C01 / hunt 2 / violation 2 -- drop into `inmem/tests/hunt_C01_2.rs`, run with
//! `cargo test -p sophia_inmem --test hunt_C01_2 --offline`
//!
//! `Dataset::union_graph()` / `into_union_graph()` (sophia_api::graph::adapter::UnionGraph)
//! is a *graph*: its members are the triples of all the graphs of the dataset.
//! Its term enumerations `iris()`, `blank_nodes()`, `literals()`, `quoted_triples()` and
//! `variables()` must therefore return exactly the terms occurring in those triples
//! (that is what `Graph::iris()` & co. document, and what every other graph does,
//! including the sibling views `partial_union_graph(Any)` and `graph(name)`).
//! Instead they forward to `Dataset::iris()` & co., which also walk the *graph names*:
//! a term that only names a graph is reported as a term of the union graph,
//! although `triples()`/`triples_matching()` of that same graph never show it.

use sophia_api::dataset::{Dataset, MutableDataset};
use sophia_api::graph::Graph;
use sophia_api::term::matcher::Any;
use sophia_api::term::{BnodeId, IriRef, SimpleTerm, Term, VarName};
use sophia_api::triple::Triple;
use std::collections::BTreeSet;

type ST = SimpleTerm<'static>;

fn iri(s: &'static str) -> ST {
    SimpleTerm::Iri(IriRef::new_unchecked(s.into()))
}
fn bnode(s: &'static str) -> ST {
    SimpleTerm::BlankNode(BnodeId::new_unchecked(s.into()))
}
fn var(s: &'static str) -> ST {
    SimpleTerm::Variable(VarName::new_unchecked(s.into()))
}

fn show<T: Term, E: std::fmt::Debug>(it: impl Iterator<Item = Result<T, E>>) -> BTreeSet<String> {
    it.map(|t| format!("{:?}", t.unwrap().into_term::<ST>()))
        .collect()
}

/// The terms of kind `pred` occurring (at any depth) in the triples of `g`: the reference.
fn from_triples<G: Graph>(g: &G, pred: fn(&ST) -> bool) -> BTreeSet<String> {
    let mut out = BTreeSet::new();
    for t in g.triples() {
        for term in t.unwrap().to_spo() {
            for c in term.into_term::<ST>().to_constituents() {
                if pred(&c) {
                    out.insert(format!("{c:?}"));
                }
            }
        }
    }
    out
}

macro_rules! check {
    ($ty:ty) => {{
    let mut d = <$ty>::default();
    // one triple (_:s <x:p> "o"), stored in five graphs whose names occur in no triple
    let names = [
        iri("x:only-a-graph-name"),
        bnode("onlyAGraphName"),
        "only a graph name".into_term::<ST>(),
        var("onlyAGraphName"),
        SimpleTerm::Triple(Box::new([iri("x:qs"), iri("x:qp"), iri("x:qo")])),
    ];
    for g in &names {
        MutableDataset::insert(&mut d, bnode("s"), iri("x:p"), "o", Some(g)).unwrap();
    }

    let u = d.union_graph();
    // sanity: the union graph holds the single triple (possibly several times, known), nothing else
    for t in u.triples() {
        assert!(Triple::eq(&t.unwrap(), [bnode("s"), iri("x:p"), "o".into_term::<ST>()]));
    }
    // no triple of the union graph has anything to do with the graph names
    for g in &names {
        assert_eq!(u.triples_matching([g], Any, Any).count(), 0);
        assert_eq!(u.triples_matching(Any, [g], Any).count(), 0);
        assert_eq!(u.triples_matching(Any, Any, [g]).count(), 0);
    }

    // expected: exactly the terms of the triples; and agreement with the sibling view
    let pu = d.partial_union_graph(Any);
    assert_eq!(show(pu.iris()), from_triples(&u, |t| t.is_iri()));
    assert_eq!(
        show(u.iris()),
        from_triples(&u, |t| t.is_iri()),
        "UnionGraph::iris() reports terms that occur in no triple of the graph"
    );
    assert_eq!(
        show(u.blank_nodes()),
        from_triples(&u, |t| t.is_blank_node()),
        "UnionGraph::blank_nodes()"
    );
    assert_eq!(
        show(u.literals()),
        from_triples(&u, |t| t.is_literal()),
        "UnionGraph::literals()"
    );
    assert_eq!(
        show(u.variables()),
        from_triples(&u, |t| t.is_variable()),
        "UnionGraph::variables()"
    );
    assert_eq!(
        show(u.quoted_triples()),
        from_triples(&u, |t| t.is_triple()),
        "UnionGraph::quoted_triples()"
    );
    }};
}

/// Expected: the union graph of a FastDataset enumerates the terms of its triples only.
#[test]
fn union_graph_of_fast_dataset() {
    check!(sophia_inmem::dataset::FastDataset);
}

/// Expected: same thing for the lightly indexed dataset ...
#[test]
fn union_graph_of_light_dataset() {
    check!(sophia_inmem::dataset::LightDataset);
}

/// ... and for the B-tree-set based one.
#[test]
fn union_graph_of_btreeset() {
    check!(BTreeSet<sophia_api::quad::Spog<ST>>);
}

/// Expected: the two union views of the same dataset agree with each other
/// (`partial_union_graph(Any)` selects every graph, so it is the same graph as `union_graph()`).
#[test]
fn union_graph_agrees_with_partial_union_graph() {
    let mut d = sophia_inmem::dataset::FastDataset::new();
    MutableDataset::insert(&mut d, bnode("s"), iri("x:p"), "o", Some(iri("x:g"))).unwrap();
    let u = d.union_graph();
    let pu = d.partial_union_graph(Any);
    assert_eq!(show(u.triples().map(|t| t.map(|t| t.to_s()))), show(pu.triples().map(|t| t.map(|t| t.to_s()))));
    assert_eq!(show(u.iris()), show(pu.iris()));
}
