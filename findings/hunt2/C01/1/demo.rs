//! C01 / hunt 2 / violation 1 -- drop into `api/tests/hunt_C01_1.rs`, run with
//! `cargo test -p sophia_api --test hunt_C01_1 --offline`
//!
//! `Term::cmp` (which is `Ord` for SimpleTerm, ArcTerm, RcTerm, CmpTerm, ResultTerm ...) is not a
//! total order on literals: two language-tagged literals are ordered by (tag, lexical form),
//! but a tagged and an untagged literal of datatype rdf:langString are ordered by
//! (lexical form, presence of a tag). With "z"@en, "a"@fr and "m"^^rdf:langString this gives a cycle
//!     "z"@en < "a"@fr < "m"^^rdf:langString < "z"@en .
//! The B-tree-set based graphs and datasets (`BTreeSet<[T; 3]>`, `BTreeSet<Spog<T>>`,
//! `BTreeSet<Gspo<T>>`, all `SetGraph`/`SetDataset`) rely on that order, so with such members
//! they stop behaving like a set: a triple that `contains()` reports can not be removed,
//! inserting it again answers `true` and stores it twice, and they disagree with the
//! hash-set based and the sophia_inmem implementations fed with the same history.
//!
//! NB: `"m"^^rdf:langString` is accepted as is by the Turtle / N-Triples / N-Quads parsers of
//! sophia_turtle, and `Term::eq`, `Term::hash` and (since the earlier fix of `Term::cmp`) `Term::cmp`
//! explicitly treat it as a term of its own, distinct from any language-tagged literal.

use sophia_api::dataset::{Dataset, MutableDataset};
use sophia_api::graph::{Graph, MutableGraph};
use sophia_api::quad::{Gspo, Spog};
use sophia_api::term::{IriRef, LanguageTag, SimpleTerm, Term};
use std::cmp::Ordering;
use std::collections::{BTreeSet, HashSet};

type ST = SimpleTerm<'static>;

const RDF_LANG_STRING: &str = "http://www.w3.org/1999/02/22-rdf-syntax-ns#langString";

fn iri(s: &'static str) -> ST {
    SimpleTerm::Iri(IriRef::new_unchecked(s.into()))
}
fn lang(lex: &'static str, tag: &'static str) -> ST {
    SimpleTerm::LiteralLanguage(lex.into(), LanguageTag::new_unchecked(tag.into()))
}
fn typed(lex: &'static str, dt: &'static str) -> ST {
    SimpleTerm::LiteralDatatype(lex.into(), IriRef::new_unchecked(dt.into()))
}

fn objects() -> [ST; 3] {
    [
        lang("z", "en"),
        lang("a", "fr"),
        typed("m", RDF_LANG_STRING),
    ]
}

/// Expected: `Term::cmp` is a total order (it backs `Ord`), in particular it is transitive:
/// x < y and y < z imply x < z.
#[test]
fn term_cmp_is_transitive() {
    let terms = objects();
    for x in &terms {
        for y in &terms {
            // (antisymmetry holds)
            assert_eq!(Term::cmp(x, y), Term::cmp(y, x).reverse());
            for z in &terms {
                if Term::cmp(x, y) == Ordering::Less && Term::cmp(y, z) == Ordering::Less {
                    assert_eq!(
                        Term::cmp(x, z),
                        Ordering::Less,
                        "{x:?} < {y:?} and {y:?} < {z:?}, but not {x:?} < {z:?}"
                    );
                }
            }
        }
    }
}

/// Expected: after inserting three distinct triples, a SetGraph holds exactly these three triples;
/// every one of them can be removed (remove answers true), inserting one again answers false.
#[test]
fn btreeset_graph_behaves_like_a_set() {
    let (s, p) = (iri("x:s"), iri("x:p"));
    let mut g: BTreeSet<[ST; 3]> = BTreeSet::new();
    for o in objects() {
        assert!(MutableGraph::insert(&mut g, &s, &p, &o).unwrap());
    }
    assert_eq!(g.triples().count(), 3);
    for o in objects() {
        assert!(Graph::contains(&g, &s, &p, &o).unwrap());
        // inserting a member again does not change a set
        let mut g2 = g.clone();
        assert!(
            !MutableGraph::insert(&mut g2, &s, &p, &o).unwrap(),
            "insert of the member {o:?} answered true"
        );
        assert_eq!(g2.triples().count(), 3, "the member {o:?} is stored twice");
        // removing a member changes the set
        let mut g3 = g.clone();
        assert!(
            MutableGraph::remove(&mut g3, &s, &p, &o).unwrap(),
            "remove of the member {o:?} answered false"
        );
        assert!(!Graph::contains(&g3, &s, &p, &o).unwrap());
    }
}

/// Expected: all shipped set implementations agree with one another on the same history
/// (here: insert 3 distinct quads, insert the 2nd one again, count, remove the 2nd one, count):
/// the second insertion answers false, 3 quads are held, the removal answers true, 2 quads remain.
#[test]
fn btreeset_datasets_agree_with_hashset_datasets() {
    fn history<D: MutableDataset + Dataset + Default>() -> (bool, usize, bool, usize) {
        let (s, p, g) = (iri("x:s"), iri("x:p"), iri("x:g"));
        let [o1, o2, o3] = objects();
        let mut d = D::default();
        for o in [&o1, &o2, &o3] {
            assert!(d.insert(&s, &p, o, Some(&g)).unwrap());
        }
        let again = d.insert(&s, &p, &o2, Some(&g)).unwrap();
        let n1 = d.quads().count();
        let removed = d.remove(&s, &p, &o2, Some(&g)).unwrap();
        let n2 = d.quads().count();
        (again, n1, removed, n2)
    }
    let expected = (false, 3, true, 2);
    assert_eq!(history::<HashSet<Spog<ST>>>(), expected);
    assert_eq!(history::<HashSet<Gspo<ST>>>(), expected);
    assert_eq!(history::<BTreeSet<Spog<ST>>>(), expected, "BTreeSet<Spog<_>>");
    assert_eq!(history::<BTreeSet<Gspo<ST>>>(), expected, "BTreeSet<Gspo<_>>");
}
