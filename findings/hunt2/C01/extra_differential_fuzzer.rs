//! scratch differential fuzzer (not a deliverable)
#![allow(dead_code)]
use sophia_api::dataset::{CollectibleDataset, Dataset, MutableDataset};
use sophia_api::graph::{CollectibleGraph, Graph, MutableGraph};
use sophia_api::ns::{rdf, xsd};
use sophia_api::prelude::*;
use sophia_api::quad::{Gspo, Spog};
use sophia_api::source::IntoSource;
use sophia_api::term::matcher::*;
use sophia_api::term::{BnodeId, GraphName, IriRef, LanguageTag, SimpleTerm, TermKind, VarName};
use std::collections::{BTreeSet, HashSet};

type ST = SimpleTerm<'static>;

struct Rng(u64);
impl Rng {
    fn next(&mut self) -> u64 {
        let mut x = self.0;
        x ^= x << 13;
        x ^= x >> 7;
        x ^= x << 17;
        self.0 = x;
        x
    }
    fn below(&mut self, n: usize) -> usize {
        (self.next() % (n as u64)) as usize
    }
}

fn iri(s: &str) -> ST {
    SimpleTerm::Iri(IriRef::new_unchecked(s.to_string().into()))
}
fn bn(s: &str) -> ST {
    SimpleTerm::BlankNode(BnodeId::new_unchecked(s.to_string().into()))
}
fn lit(s: &str, dt: &str) -> ST {
    SimpleTerm::LiteralDatatype(
        s.to_string().into(),
        IriRef::new_unchecked(dt.to_string().into()),
    )
}
fn lang(s: &str, tag: &str) -> ST {
    SimpleTerm::LiteralLanguage(
        s.to_string().into(),
        LanguageTag::new_unchecked(tag.to_string().into()),
    )
}
fn var(s: &str) -> ST {
    SimpleTerm::Variable(VarName::new_unchecked(s.to_string().into()))
}
fn tr(s: ST, p: ST, o: ST) -> ST {
    SimpleTerm::Triple(Box::new([s, p, o]))
}

const XSD_STRING: &str = "http://www.w3.org/2001/XMLSchema#string";
const XSD_INTEGER: &str = "http://www.w3.org/2001/XMLSchema#integer";

fn pool() -> Vec<ST> {
    let a = iri("http://e/a");
    let b = iri("http://e/b");
    let c = iri("http://e/c");
    vec![
        a.clone(),
        b.clone(),
        c.clone(),
        iri(""),
        iri("x"),
        bn("b1"),
        bn("x"),
        lit("a", XSD_STRING),
        lit("", XSD_STRING),
        lit("1", XSD_INTEGER),
        lit("01", XSD_INTEGER),
        lit("http://e/a", XSD_STRING),
        lang("a", "en"),
        lang("a", "EN"),
        lang("a", "en-US"),
        lang("a", "en-us"),
        lang("b", "fr"),
        var("x"),
        var("b1"),
        tr(a.clone(), b.clone(), c.clone()),
        tr(a.clone(), b.clone(), lang("a", "en")),
        tr(a.clone(), b.clone(), lang("a", "En")),
        tr(tr(a.clone(), b.clone(), c.clone()), b.clone(), c.clone()),
        tr(bn("b1"), b.clone(), var("x")),
    ]
}

// canonical form, independent of Term::eq
fn canon(t: &ST) -> String {
    match t {
        SimpleTerm::Iri(i) => format!("<{}>", i.as_str()),
        SimpleTerm::BlankNode(b) => format!("_:{}", b.as_str()),
        SimpleTerm::LiteralDatatype(l, d) => format!("{:?}^^<{}>", &l[..], d.as_str()),
        SimpleTerm::LiteralLanguage(l, t) => {
            format!("{:?}@{}", &l[..], t.as_str().to_ascii_lowercase())
        }
        SimpleTerm::Variable(v) => format!("?{}", v.as_str()),
        SimpleTerm::Triple(spo) => format!(
            "<<{} {} {}>>",
            canon(&spo[0]),
            canon(&spo[1]),
            canon(&spo[2])
        ),
    }
}
fn canon_t<T: Term>(t: T) -> String {
    canon(&t.into_term::<ST>())
}
fn canon_g<T: Term>(g: GraphName<T>) -> String {
    match g {
        None => "DEFAULT".to_string(),
        Some(t) => canon_t(t),
    }
}

#[derive(Clone, Debug)]
enum TS {
    Any,
    OptNone,
    Opt(ST),
    Arr1(ST),
    Arr2(ST, ST),
    Arr2Same(ST),
    Slice(Vec<ST>),
    Kind(TermKind),
    NotKind(TermKind),
    NotArr1(ST),
    NotOpt(ST),
    Closure(ST), // matches everything different from ST
    Dt(String),
    Lang(String),
    Tuple(Box<(TS, TS, TS)>),
    NotNot(Box<TS>),
    Ref(Box<TS>),
}

fn kind_of(t: &ST) -> TermKind {
    match t {
        SimpleTerm::Iri(_) => TermKind::Iri,
        SimpleTerm::BlankNode(_) => TermKind::BlankNode,
        SimpleTerm::LiteralDatatype(..) | SimpleTerm::LiteralLanguage(..) => TermKind::Literal,
        SimpleTerm::Triple(_) => TermKind::Triple,
        SimpleTerm::Variable(_) => TermKind::Variable,
    }
}

// independent evaluation
fn eval(ts: &TS, t: &ST) -> bool {
    let c = canon(t);
    match ts {
        TS::Any => true,
        TS::OptNone => false,
        TS::Opt(x) | TS::Arr1(x) | TS::Arr2Same(x) => canon(x) == c,
        TS::Arr2(x, y) => canon(x) == c || canon(y) == c,
        TS::Slice(v) => v.iter().any(|x| canon(x) == c),
        TS::Kind(k) => kind_of(t) == *k,
        TS::NotKind(k) => kind_of(t) != *k,
        TS::NotArr1(x) | TS::NotOpt(x) | TS::Closure(x) => canon(x) != c,
        TS::Dt(d) => match t {
            SimpleTerm::LiteralDatatype(_, dt) => dt.as_str() == d,
            SimpleTerm::LiteralLanguage(..) => {
                d == "http://www.w3.org/1999/02/22-rdf-syntax-ns#langString"
            }
            _ => false,
        },
        TS::Lang(l) => match t {
            SimpleTerm::LiteralLanguage(_, tag) => tag.as_str().eq_ignore_ascii_case(l),
            _ => false,
        },
        TS::Tuple(b) => match t {
            SimpleTerm::Triple(spo) => {
                eval(&b.0, &spo[0]) && eval(&b.1, &spo[1]) && eval(&b.2, &spo[2])
            }
            _ => false,
        },
        TS::NotNot(b) | TS::Ref(b) => eval(b, t),
    }
}

/// wrapper delegating to the shipped matchers
struct EM(TS);
impl EM {
    fn with<R>(&self, f: &mut dyn FnMut(&dyn DynM) -> R) -> R {
        match &self.0 {
            TS::Any => f(&Any),
            TS::OptNone => f(&(None as Option<ST>)),
            TS::Opt(x) => f(&Some(x.clone())),
            TS::Arr1(x) => f(&[x.clone()]),
            TS::Arr2(x, y) => f(&[x.clone(), y.clone()]),
            TS::Arr2Same(x) => f(&[x.clone(), x.clone()]),
            TS::Slice(v) => f(&&v[..]),
            TS::Kind(k) => f(k),
            TS::NotKind(k) => f(&Not(*k)),
            TS::NotArr1(x) => f(&Not([x.clone()])),
            TS::NotOpt(x) => f(&Not(Some(x.clone()))),
            TS::Closure(x) => {
                let x = x.clone();
                f(&move |t: SimpleTerm| !Term::eq(&t, &x))
            }
            TS::Dt(d) => f(&DatatypeMatcher::new(IriRef::new_unchecked(d.clone()))),
            TS::Lang(l) => f(&LanguageTagMatcher::new(LanguageTag::new_unchecked(
                l.clone(),
            ))),
            TS::Tuple(b) => f(&(EM(b.0.clone()), EM(b.1.clone()), EM(b.2.clone()))),
            TS::NotNot(b) => f(&Not(Not(EM((**b).clone())))),
            TS::Ref(b) => {
                let em = EM((**b).clone());
                f(&em.matcher_ref())
            }
        }
    }
}
trait DynM {
    fn m(&self, t: &ST) -> bool;
    fn c(&self) -> Option<ST>;
}
impl<M: TermMatcher> DynM for M {
    fn m(&self, t: &ST) -> bool {
        self.matches(t)
    }
    fn c(&self) -> Option<ST> {
        self.constant().map(|t| t.borrow_term().into_term())
    }
}
struct EMC {
    em: EM,
    constant: Option<ST>,
}
impl EMC {
    fn new(ts: TS) -> Self {
        let em = EM(ts);
        let constant = em.with(&mut |m| m.c());
        EMC { em, constant }
    }
}
impl TermMatcher for EM {
    type Term = ST;
    fn matches<T2: Term + ?Sized>(&self, term: &T2) -> bool {
        let t: ST = term.borrow_term().into_term();
        self.with(&mut |m| m.m(&t))
    }
    // no constant here: used for nested
}
impl TermMatcher for EMC {
    type Term = ST;
    fn matches<T2: Term + ?Sized>(&self, term: &T2) -> bool {
        let t: ST = term.borrow_term().into_term();
        self.em.with(&mut |m| m.m(&t))
    }
    fn constant(&self) -> Option<&ST> {
        self.constant.as_ref()
    }
}

#[derive(Clone, Debug)]
enum GS {
    Any,
    OptNone,
    Opt(Option<ST>),
    Arr1(Option<ST>),
    Arr2(Option<ST>, Option<ST>),
    Slice(Vec<Option<ST>>),
    Kind(Option<TermKind>),
    NotKind(Option<TermKind>),
    NotArr1(Option<ST>),
    Closure(Option<ST>),
    Gn(TS),
    NotGn(TS),
    Tuple(Option<Box<(TS, TS, TS)>>),
    Ref(Box<GS>),
}
fn eval_g(gs: &GS, g: &Option<ST>) -> bool {
    let c = canon_g(g.as_ref());
    let cg = |x: &Option<ST>| canon_g(x.as_ref());
    match gs {
        GS::Any => true,
        GS::OptNone => false,
        GS::Opt(x) | GS::Arr1(x) => cg(x) == c,
        GS::Arr2(x, y) => cg(x) == c || cg(y) == c,
        GS::Slice(v) => v.iter().any(|x| cg(x) == c),
        GS::Kind(k) => g.as_ref().map(kind_of) == *k,
        GS::NotKind(k) => g.as_ref().map(kind_of) != *k,
        GS::NotArr1(x) | GS::Closure(x) => cg(x) != c,
        GS::Gn(ts) => match g {
            None => false,
            Some(t) => eval(ts, t),
        },
        GS::NotGn(ts) => match g {
            None => true,
            Some(t) => !eval(ts, t),
        },
        GS::Tuple(None) => g.is_none(),
        GS::Tuple(Some(b)) => match g {
            Some(SimpleTerm::Triple(spo)) => {
                eval(&b.0, &spo[0]) && eval(&b.1, &spo[1]) && eval(&b.2, &spo[2])
            }
            _ => false,
        },
        GS::Ref(b) => eval_g(b, g),
    }
}
trait DynG {
    fn m(&self, t: Option<&ST>) -> bool;
    fn c(&self) -> Option<Option<ST>>;
}
impl<M: GraphNameMatcher> DynG for M {
    fn m(&self, t: Option<&ST>) -> bool {
        self.matches(t)
    }
    fn c(&self) -> Option<Option<ST>> {
        self.constant()
            .map(|g| g.map(|t| t.borrow_term().into_term()))
    }
}
struct EG(GS);
impl EG {
    fn with<R>(&self, f: &mut dyn FnMut(&dyn DynG) -> R) -> R {
        match &self.0 {
            GS::Any => f(&Any),
            GS::OptNone => f(&(None as Option<Option<ST>>)),
            GS::Opt(x) => f(&Some(x.clone())),
            GS::Arr1(x) => f(&[x.clone()]),
            GS::Arr2(x, y) => f(&[x.clone(), y.clone()]),
            GS::Slice(v) => f(&&v[..]),
            GS::Kind(k) => f(k),
            GS::NotKind(k) => f(&Not(*k)),
            GS::NotArr1(x) => f(&Not([x.clone()])),
            GS::Closure(x) => {
                let x = x.clone();
                f(&move |t: Option<SimpleTerm>| {
                    !sophia_api::term::graph_name_eq(t.as_ref(), x.as_ref())
                })
            }
            GS::Gn(ts) => f(&EMC::new(ts.clone()).gn()),
            GS::NotGn(ts) => f(&Not(EMC::new(ts.clone()).gn())),
            GS::Tuple(None) => f(&(None as Option<(EM, EM, EM)>)),
            GS::Tuple(Some(b)) => f(&Some((EM(b.0.clone()), EM(b.1.clone()), EM(b.2.clone())))),
            GS::Ref(b) => {
                let eg = EGC::new((**b).clone());
                f(&GraphNameMatcher::matcher_ref(&eg))
            }
        }
    }
}
struct EGC {
    eg: EG,
    constant: Option<Option<ST>>,
}
impl EGC {
    fn new(gs: GS) -> Self {
        let eg = EG(gs);
        let constant = eg.with(&mut |m| m.c());
        EGC { eg, constant }
    }
}
impl GraphNameMatcher for EGC {
    type Term = ST;
    fn matches<T2: Term + ?Sized>(&self, g: GraphName<&T2>) -> bool {
        let t: Option<ST> = g.map(|t| t.borrow_term().into_term());
        self.eg.with(&mut |m| m.m(t.as_ref()))
    }
    fn constant(&self) -> Option<GraphName<&ST>> {
        self.constant.as_ref().map(|g| g.as_ref())
    }
}

fn rand_term(r: &mut Rng, pool: &[ST], extra: &[ST]) -> ST {
    if !extra.is_empty() && r.below(8) == 0 {
        extra[r.below(extra.len())].clone()
    } else {
        pool[r.below(pool.len())].clone()
    }
}
fn rand_kind(r: &mut Rng) -> TermKind {
    [
        TermKind::Iri,
        TermKind::BlankNode,
        TermKind::Literal,
        TermKind::Triple,
        TermKind::Variable,
    ][r.below(5)]
}
fn rand_ts(r: &mut Rng, pool: &[ST], extra: &[ST], depth: usize) -> TS {
    let mut t = || rand_term(r, pool, extra);
    let t1 = t();
    let t2 = t();
    let t3 = t();
    match r.below(if depth > 1 { 16 } else { 19 }) {
        0 | 1 | 2 => TS::Any,
        3 => TS::OptNone,
        4 | 5 => TS::Opt(t1),
        6 | 7 => TS::Arr1(t1),
        8 => TS::Arr2(t1, t2),
        9 => TS::Arr2Same(t1),
        10 => match r.below(4) {
            0 => TS::Slice(vec![]),
            1 => TS::Slice(vec![t1]),
            2 => TS::Slice(vec![t1, t2]),
            _ => TS::Slice(vec![t1, t2, t3]),
        },
        11 => TS::Kind(rand_kind(r)),
        12 => TS::NotKind(rand_kind(r)),
        13 => match r.below(3) {
            0 => TS::NotArr1(t1),
            1 => TS::NotOpt(t1),
            _ => TS::Closure(t1),
        },
        14 => TS::Dt(
            [
                XSD_STRING,
                XSD_INTEGER,
                "http://www.w3.org/1999/02/22-rdf-syntax-ns#langString",
            ][r.below(3)]
            .to_string(),
        ),
        15 => TS::Lang(["en", "EN", "en-US", "fr", "En-uS"][r.below(5)].to_string()),
        16 => TS::Tuple(Box::new((
            rand_ts(r, pool, extra, depth + 1),
            rand_ts(r, pool, extra, depth + 1),
            rand_ts(r, pool, extra, depth + 1),
        ))),
        17 => TS::NotNot(Box::new(rand_ts(r, pool, extra, depth + 1))),
        _ => TS::Ref(Box::new(rand_ts(r, pool, extra, depth + 1))),
    }
}
fn rand_g(r: &mut Rng, pool: &[ST], extra: &[ST]) -> Option<ST> {
    if r.below(3) == 0 {
        None
    } else {
        Some(rand_term(r, pool, extra))
    }
}
fn rand_gs(r: &mut Rng, pool: &[ST], extra: &[ST], depth: usize) -> GS {
    let g1 = rand_g(r, pool, extra);
    let g2 = rand_g(r, pool, extra);
    let g3 = rand_g(r, pool, extra);
    match r.below(if depth > 0 { 15 } else { 16 }) {
        0 | 1 | 2 => GS::Any,
        3 => GS::OptNone,
        4 | 5 => GS::Opt(g1),
        6 | 7 => GS::Arr1(g1),
        8 => GS::Arr2(g1, g2),
        9 => match r.below(4) {
            0 => GS::Slice(vec![]),
            1 => GS::Slice(vec![g1]),
            2 => GS::Slice(vec![g1, g2]),
            _ => GS::Slice(vec![g1, g2, g3]),
        },
        10 => {
            if r.below(3) == 0 {
                GS::Kind(None)
            } else {
                GS::Kind(Some(rand_kind(r)))
            }
        }
        11 => {
            if r.below(3) == 0 {
                GS::NotKind(None)
            } else {
                GS::NotKind(Some(rand_kind(r)))
            }
        }
        12 => {
            if r.below(2) == 0 {
                GS::NotArr1(g1)
            } else {
                GS::Closure(g1)
            }
        }
        13 => {
            if r.below(2) == 0 {
                GS::Gn(rand_ts(r, pool, extra, 1))
            } else {
                GS::NotGn(rand_ts(r, pool, extra, 1))
            }
        }
        14 => {
            if r.below(3) == 0 {
                GS::Tuple(None)
            } else {
                GS::Tuple(Some(Box::new((
                    rand_ts(r, pool, extra, 2),
                    rand_ts(r, pool, extra, 2),
                    rand_ts(r, pool, extra, 2),
                ))))
            }
        }
        _ => GS::Ref(Box::new(rand_gs(r, pool, extra, 1))),
    }
}

type MQ = (String, String, String, String);
type Model = BTreeSet<MQ>;

fn mq(s: &ST, p: &ST, o: &ST, g: &Option<ST>) -> MQ {
    (canon(s), canon(p), canon(o), canon_g(g.as_ref()))
}

struct ModelDs {
    set: Model,
    // representative terms
    quads: Vec<(ST, ST, ST, Option<ST>)>,
}
impl ModelDs {
    fn new() -> Self {
        ModelDs {
            set: Model::new(),
            quads: vec![],
        }
    }
    fn insert(&mut self, s: &ST, p: &ST, o: &ST, g: &Option<ST>) -> bool {
        let k = mq(s, p, o, g);
        if self.set.insert(k) {
            self.quads.push((s.clone(), p.clone(), o.clone(), g.clone()));
            true
        } else {
            false
        }
    }
    fn remove(&mut self, s: &ST, p: &ST, o: &ST, g: &Option<ST>) -> bool {
        let k = mq(s, p, o, g);
        if self.set.remove(&k) {
            self.quads.retain(|q| mq(&q.0, &q.1, &q.2, &q.3) != k);
            true
        } else {
            false
        }
    }
    fn matching(&self, s: &TS, p: &TS, o: &TS, g: &GS) -> Vec<(ST, ST, ST, Option<ST>)> {
        self.quads
            .iter()
            .filter(|q| eval(s, &q.0) && eval(p, &q.1) && eval(o, &q.2) && eval_g(g, &q.3))
            .cloned()
            .collect()
    }
}

fn collect_quads<'a, D: Dataset + 'a, I>(it: I, ctx: &str) -> Vec<MQ>
where
    I: Iterator<Item = Result<D::Quad<'a>, D::Error>>,
{
    let mut v = vec![];
    for q in it {
        let q = q.unwrap();
        let ([s, p, o], g) = q.to_spog();
        v.push((canon_t(s), canon_t(p), canon_t(o), canon_g(g)));
    }
    let n = v.len();
    let mut w = v.clone();
    w.sort();
    w.dedup();
    assert_eq!(n, w.len(), "duplicates in {ctx}: {v:?}");
    w
}

fn check_ds<D: Dataset>(d: &D, m: &ModelDs, r: &mut Rng, pool: &[ST], extra: &[ST], log: &str, set: bool) {
    let all = collect_quads::<D, _>(d.quads(), "quads()");
    let expected: Vec<MQ> = m.set.iter().cloned().collect();
    assert_eq!(all, expected, "quads() differs after {log}");
    // contains
    for _ in 0..6 {
        let (s, p, o, g) = if r.below(2) == 0 && !m.quads.is_empty() {
            m.quads[r.below(m.quads.len())].clone()
        } else {
            (
                rand_term(r, pool, extra),
                rand_term(r, pool, extra),
                rand_term(r, pool, extra),
                rand_g(r, pool, extra),
            )
        };
        let exp = m.set.contains(&mq(&s, &p, &o, &g));
        assert_eq!(
            d.contains(&s, &p, &o, g.as_ref()).unwrap(),
            exp,
            "contains {:?} after {log}",
            mq(&s, &p, &o, &g)
        );
    }
    // matching
    for _ in 0..12 {
        let (ts, tp, to, tg) = rand_matchers(r, pool, extra, m);
        let mut exp: Vec<MQ> = m
            .matching(&ts, &tp, &to, &tg)
            .iter()
            .map(|q| mq(&q.0, &q.1, &q.2, &q.3))
            .collect();
        exp.sort();
        let got = collect_quads::<D, _>(
            d.quads_matching(
                EMC::new(ts.clone()),
                EMC::new(tp.clone()),
                EMC::new(to.clone()),
                EGC::new(tg.clone()),
            ),
            "quads_matching",
        );
        assert_eq!(
            got, exp,
            "quads_matching({ts:?}, {tp:?}, {to:?}, {tg:?}) after {log}"
        );
    }
    let _ = set;
    // term enumerations (as sets)
    let exp_set = |f: &dyn Fn(&(ST, ST, ST, Option<ST>)) -> Vec<ST>| -> BTreeSet<String> {
        m.quads.iter().flat_map(|q| f(q)).map(|t| canon(&t)).collect()
    };
    let got_set = |it: &mut dyn Iterator<Item = String>| -> BTreeSet<String> { it.collect() };
    assert_eq!(
        got_set(&mut d.subjects().map(|t| canon_t(t.unwrap()))),
        exp_set(&|q| vec![q.0.clone()])
    );
    assert_eq!(
        got_set(&mut d.predicates().map(|t| canon_t(t.unwrap()))),
        exp_set(&|q| vec![q.1.clone()])
    );
    assert_eq!(
        got_set(&mut d.objects().map(|t| canon_t(t.unwrap()))),
        exp_set(&|q| vec![q.2.clone()])
    );
    assert_eq!(
        got_set(&mut d.graph_names().map(|t| canon_t(t.unwrap()))),
        exp_set(&|q| q.3.iter().cloned().collect())
    );
    fn constituents(t: &ST, out: &mut Vec<ST>) {
        out.push(t.clone());
        if let SimpleTerm::Triple(spo) = t {
            for x in spo.iter() {
                constituents(x, out);
            }
        }
    }
    let all_c = |q: &(ST, ST, ST, Option<ST>)| -> Vec<ST> {
        let mut out = vec![];
        constituents(&q.0, &mut out);
        constituents(&q.1, &mut out);
        constituents(&q.2, &mut out);
        if let Some(g) = &q.3 {
            constituents(g, &mut out);
        }
        out
    };
    let of_kind = |k: TermKind| {
        exp_set(&|q| {
            all_c(q)
                .into_iter()
                .filter(|t| kind_of(t) == k)
                .collect::<Vec<_>>()
        })
    };
    assert_eq!(
        got_set(&mut d.iris().map(|t| canon_t(t.unwrap()))),
        of_kind(TermKind::Iri)
    );
    assert_eq!(
        got_set(&mut d.blank_nodes().map(|t| canon_t(t.unwrap()))),
        of_kind(TermKind::BlankNode)
    );
    assert_eq!(
        got_set(&mut d.literals().map(|t| canon_t(t.unwrap()))),
        of_kind(TermKind::Literal)
    );
    assert_eq!(
        got_set(&mut d.variables().map(|t| canon_t(t.unwrap()))),
        of_kind(TermKind::Variable)
    );
}

fn rand_matchers(r: &mut Rng, pool: &[ST], extra: &[ST], m: &ModelDs) -> (TS, TS, TS, GS) {
    // bias to constants from an existing quad so that results are non-empty
    let base = if !m.quads.is_empty() && r.below(3) != 0 {
        Some(m.quads[r.below(m.quads.len())].clone())
    } else {
        None
    };
    let mut one = |r: &mut Rng, t: Option<&ST>| -> TS {
        if let Some(t) = t {
            match r.below(6) {
                0 => TS::Opt(t.clone()),
                1 => TS::Arr1(t.clone()),
                2 => TS::Slice(vec![t.clone()]),
                3 => TS::Ref(Box::new(TS::Arr1(t.clone()))),
                _ => rand_ts(r, pool, extra, 0),
            }
        } else {
            rand_ts(r, pool, extra, 0)
        }
    };
    let ts = one(r, base.as_ref().map(|q| &q.0));
    let tp = one(r, base.as_ref().map(|q| &q.1));
    let to = one(r, base.as_ref().map(|q| &q.2));
    let tg = if let Some(q) = &base {
        match r.below(6) {
            0 => GS::Opt(q.3.clone()),
            1 => GS::Arr1(q.3.clone()),
            2 => GS::Slice(vec![q.3.clone()]),
            3 => match &q.3 {
                Some(t) => GS::Gn(TS::Arr1(t.clone())),
                None => GS::Kind(None),
            },
            _ => rand_gs(r, pool, extra, 0),
        }
    } else {
        rand_gs(r, pool, extra, 0)
    };
    (ts, tp, to, tg)
}

static FULL_ERRORS: std::sync::atomic::AtomicUsize = std::sync::atomic::AtomicUsize::new(0);
fn run_ds<D>(seed: u64, steps: usize, mk: impl Fn() -> D)
where
    D: MutableDataset + CollectibleDataset + Clone,
    D::MutationError: From<D::Error>,
{
    run_ds2(seed, steps, mk, false)
}
fn run_ds2<D>(seed: u64, steps: usize, mk: impl Fn() -> D, allow_full: bool)
where
    D: MutableDataset + CollectibleDataset + Clone,
    D::MutationError: From<D::Error>,
{
    let pool = pool();
    let extra = vec![iri("http://e/unknown"), lang("zz", "de"), bn("unk")];
    let mut r = Rng(seed.wrapping_mul(0x9E3779B97F4A7C15) | 1);
    let mut d = mk();
    let mut m = ModelDs::new();
    let mut log = String::new();
    for step in 0..steps {
        let op = r.below(10);
        match op {
            0..=3 => {
                let (s, p, o, g) = (
                    rand_term(&mut r, &pool, &[]),
                    rand_term(&mut r, &pool, &[]),
                    rand_term(&mut r, &pool, &[]),
                    rand_g(&mut r, &pool, &[]),
                );
                log = format!("step {step}: insert {:?}", mq(&s, &p, &o, &g));
                match d.insert(&s, &p, &o, g.as_ref()) {
                    Ok(got) => {
                        let exp = m.insert(&s, &p, &o, &g);
                        assert_eq!(got, exp, "{log}");
                    }
                    Err(e) => {
                        assert!(allow_full, "{log}: {e}");
                        FULL_ERRORS.fetch_add(1, std::sync::atomic::Ordering::Relaxed);
                        log.push_str(" -> index full");
                    }
                }
            }
            4 | 5 => {
                let (s, p, o, g) = if r.below(3) != 0 && !m.quads.is_empty() {
                    let q = m.quads[r.below(m.quads.len())].clone();
                    // maybe change the case of language tags: pick equivalent term from pool
                    q
                } else {
                    (
                        rand_term(&mut r, &pool, &extra),
                        rand_term(&mut r, &pool, &extra),
                        rand_term(&mut r, &pool, &extra),
                        rand_g(&mut r, &pool, &extra),
                    )
                };
                log = format!("step {step}: remove {:?}", mq(&s, &p, &o, &g));
                let exp = m.remove(&s, &p, &o, &g);
                let got = d.remove(&s, &p, &o, g.as_ref()).unwrap();
                assert_eq!(got, exp, "{log}");
            }
            6 if allow_full => continue,
            6 => {
                let n = r.below(6);
                let qs: Vec<Spog<ST>> = (0..n)
                    .map(|_| {
                        (
                            [
                                rand_term(&mut r, &pool, &[]),
                                rand_term(&mut r, &pool, &[]),
                                rand_term(&mut r, &pool, &[]),
                            ],
                            rand_g(&mut r, &pool, &[]),
                        )
                    })
                    .collect();
                log = format!("step {step}: insert_all {n}");
                let mut exp = 0;
                for q in &qs {
                    if m.insert(&q.0[0], &q.0[1], &q.0[2], &q.1) {
                        exp += 1;
                    }
                }
                let got = d.insert_all(qs.into_iter().into_source()).unwrap();
                assert_eq!(got, exp, "{log}");
            }
            7 => {
                let n = r.below(6);
                let qs: Vec<Gspo<ST>> = (0..n)
                    .map(|_| {
                        if r.below(2) == 0 && !m.quads.is_empty() {
                            let q = m.quads[r.below(m.quads.len())].clone();
                            (q.3, [q.0, q.1, q.2])
                        } else {
                            (
                                rand_g(&mut r, &pool, &extra),
                                [
                                    rand_term(&mut r, &pool, &extra),
                                    rand_term(&mut r, &pool, &extra),
                                    rand_term(&mut r, &pool, &extra),
                                ],
                            )
                        }
                    })
                    .collect();
                log = format!("step {step}: remove_all {n}");
                let mut exp = 0;
                for q in &qs {
                    if m.remove(&q.1[0], &q.1[1], &q.1[2], &q.0) {
                        exp += 1;
                    }
                }
                let got = d.remove_all(qs.into_iter().into_source()).unwrap();
                assert_eq!(got, exp, "{log}");
            }
            8 => {
                let (ts, tp, to, tg) = rand_matchers(&mut r, &pool, &extra, &m);
                log = format!("step {step}: remove_matching({ts:?}, {tp:?}, {to:?}, {tg:?})");
                let victims = m.matching(&ts, &tp, &to, &tg);
                for q in &victims {
                    m.remove(&q.0, &q.1, &q.2, &q.3);
                }
                let got = d
                    .remove_matching(EMC::new(ts), EMC::new(tp), EMC::new(to), EGC::new(tg))
                    .unwrap();
                assert_eq!(got, victims.len(), "{log}");
            }
            _ => {
                if r.below(3) != 0 {
                    continue;
                }
                let (ts, tp, to, tg) = rand_matchers(&mut r, &pool, &extra, &m);
                log = format!("step {step}: retain_matching({ts:?}, {tp:?}, {to:?}, {tg:?})");
                let keep: BTreeSet<MQ> = m
                    .matching(&ts, &tp, &to, &tg)
                    .iter()
                    .map(|q| mq(&q.0, &q.1, &q.2, &q.3))
                    .collect();
                let all = m.quads.clone();
                for q in &all {
                    if !keep.contains(&mq(&q.0, &q.1, &q.2, &q.3)) {
                        m.remove(&q.0, &q.1, &q.2, &q.3);
                    }
                }
                d.retain_matching(EMC::new(ts), EMC::new(tp), EMC::new(to), EGC::new(tg))
                    .unwrap();
            }
        }
        check_ds(&d, &m, &mut r, &pool, &extra, &log, true);
        if step % 13 == 5 {
            let d3 = d.clone();
            d = d3; // drops the original
            check_ds(&d, &m, &mut r, &pool, &extra, &format!("{log} + clone"), true);
        }
        if step % 17 == 0 && !allow_full {
            // rebuild through from_quad_source
            let d2 = D::from_quad_source(d.quads()).unwrap();
            check_ds(&d2, &m, &mut r, &pool, &extra, &format!("{log} + rebuild"), true);
        }
    }
}

macro_rules! ds_test {
    ($name:ident, $ty:ty) => {
        #[test]
        fn $name() {
            for seed in 1..=40 {
                run_ds::<$ty>(seed, 120, || <$ty>::default());
            }
        }
    };
}

ds_test!(fast_dataset, sophia_inmem::dataset::FastDataset);
ds_test!(light_dataset, sophia_inmem::dataset::LightDataset);
ds_test!(small_fast_dataset, sophia_inmem::dataset::small::FastDataset);
ds_test!(small_light_dataset, sophia_inmem::dataset::small::LightDataset);
ds_test!(hashset_spog, HashSet<Spog<ST>>);
ds_test!(hashset_gspo, HashSet<Gspo<ST>>);
ds_test!(btreeset_spog, BTreeSet<Spog<ST>>);
ds_test!(btreeset_gspo, BTreeSet<Gspo<ST>>);

// ---------- graphs ----------
fn collect_triples<'a, G: Graph + 'a, I>(it: I, ctx: &str) -> Vec<MQ>
where
    I: Iterator<Item = Result<G::Triple<'a>, G::Error>>,
{
    let mut v = vec![];
    for t in it {
        let [s, p, o] = t.unwrap().to_spo();
        v.push((canon_t(s), canon_t(p), canon_t(o), "DEFAULT".to_string()));
    }
    let n = v.len();
    let mut w = v.clone();
    w.sort();
    w.dedup();
    assert_eq!(n, w.len(), "duplicates in {ctx}: {v:?}");
    w
}

fn check_g<G: Graph>(d: &G, m: &ModelDs, r: &mut Rng, pool: &[ST], extra: &[ST], log: &str) {
    let all = collect_triples::<G, _>(d.triples(), "triples()");
    let expected: Vec<MQ> = m.set.iter().cloned().collect();
    assert_eq!(all, expected, "triples() differs after {log}");
    for _ in 0..6 {
        let (s, p, o) = if r.below(2) == 0 && !m.quads.is_empty() {
            let q = m.quads[r.below(m.quads.len())].clone();
            (q.0, q.1, q.2)
        } else {
            (
                rand_term(r, pool, extra),
                rand_term(r, pool, extra),
                rand_term(r, pool, extra),
            )
        };
        let exp = m.set.contains(&mq(&s, &p, &o, &None));
        assert_eq!(d.contains(&s, &p, &o).unwrap(), exp, "contains after {log}");
    }
    for _ in 0..12 {
        let (ts, tp, to, _) = rand_matchers(r, pool, extra, m);
        let mut exp: Vec<MQ> = m
            .matching(&ts, &tp, &to, &GS::Any)
            .iter()
            .map(|q| mq(&q.0, &q.1, &q.2, &q.3))
            .collect();
        exp.sort();
        let got = collect_triples::<G, _>(
            d.triples_matching(EMC::new(ts.clone()), EMC::new(tp.clone()), EMC::new(to.clone())),
            "triples_matching",
        );
        assert_eq!(got, exp, "triples_matching({ts:?}, {tp:?}, {to:?}) after {log}");
    }
}

fn run_g<G>(seed: u64, steps: usize, mk: impl Fn() -> G)
where
    G: MutableGraph + CollectibleGraph,
    G::MutationError: From<G::Error>,
{
    let pool = pool();
    let extra = vec![iri("http://e/unknown"), lang("zz", "de"), bn("unk")];
    let mut r = Rng(seed.wrapping_mul(0x9E3779B97F4A7C15) | 1);
    let mut d = mk();
    let mut m = ModelDs::new();
    let mut log;
    let none: Option<ST> = None;
    for step in 0..steps {
        let op = r.below(10);
        match op {
            0..=3 => {
                let (s, p, o) = (
                    rand_term(&mut r, &pool, &[]),
                    rand_term(&mut r, &pool, &[]),
                    rand_term(&mut r, &pool, &[]),
                );
                log = format!("step {step}: insert {:?}", mq(&s, &p, &o, &none));
                let exp = m.insert(&s, &p, &o, &none);
                let got = d.insert(&s, &p, &o).unwrap();
                assert_eq!(got, exp, "{log}");
            }
            4 | 5 => {
                let (s, p, o) = if r.below(3) != 0 && !m.quads.is_empty() {
                    let q = m.quads[r.below(m.quads.len())].clone();
                    (q.0, q.1, q.2)
                } else {
                    (
                        rand_term(&mut r, &pool, &extra),
                        rand_term(&mut r, &pool, &extra),
                        rand_term(&mut r, &pool, &extra),
                    )
                };
                log = format!("step {step}: remove {:?}", mq(&s, &p, &o, &none));
                let exp = m.remove(&s, &p, &o, &none);
                let got = d.remove(&s, &p, &o).unwrap();
                assert_eq!(got, exp, "{log}");
            }
            6 => {
                let n = r.below(6);
                let qs: Vec<[ST; 3]> = (0..n)
                    .map(|_| {
                        [
                            rand_term(&mut r, &pool, &[]),
                            rand_term(&mut r, &pool, &[]),
                            rand_term(&mut r, &pool, &[]),
                        ]
                    })
                    .collect();
                log = format!("step {step}: insert_all {n}");
                let mut exp = 0;
                for q in &qs {
                    if m.insert(&q[0], &q[1], &q[2], &none) {
                        exp += 1;
                    }
                }
                let got = d.insert_all(qs.into_iter().into_source()).unwrap();
                assert_eq!(got, exp, "{log}");
            }
            7 => {
                let n = r.below(6);
                let qs: Vec<[ST; 3]> = (0..n)
                    .map(|_| {
                        if r.below(2) == 0 && !m.quads.is_empty() {
                            let q = m.quads[r.below(m.quads.len())].clone();
                            [q.0, q.1, q.2]
                        } else {
                            [
                                rand_term(&mut r, &pool, &extra),
                                rand_term(&mut r, &pool, &extra),
                                rand_term(&mut r, &pool, &extra),
                            ]
                        }
                    })
                    .collect();
                log = format!("step {step}: remove_all {n}");
                let mut exp = 0;
                for q in &qs {
                    if m.remove(&q[0], &q[1], &q[2], &none) {
                        exp += 1;
                    }
                }
                let got = d.remove_all(qs.into_iter().into_source()).unwrap();
                assert_eq!(got, exp, "{log}");
            }
            8 => {
                let (ts, tp, to, _) = rand_matchers(&mut r, &pool, &extra, &m);
                log = format!("step {step}: remove_matching({ts:?}, {tp:?}, {to:?})");
                let victims = m.matching(&ts, &tp, &to, &GS::Any);
                for q in &victims {
                    m.remove(&q.0, &q.1, &q.2, &q.3);
                }
                let got = d
                    .remove_matching(EMC::new(ts), EMC::new(tp), EMC::new(to))
                    .unwrap();
                assert_eq!(got, victims.len(), "{log}");
            }
            _ => {
                if r.below(3) != 0 {
                    continue;
                }
                let (ts, tp, to, _) = rand_matchers(&mut r, &pool, &extra, &m);
                log = format!("step {step}: retain_matching({ts:?}, {tp:?}, {to:?})");
                let keep: BTreeSet<MQ> = m
                    .matching(&ts, &tp, &to, &GS::Any)
                    .iter()
                    .map(|q| mq(&q.0, &q.1, &q.2, &q.3))
                    .collect();
                let all = m.quads.clone();
                for q in &all {
                    if !keep.contains(&mq(&q.0, &q.1, &q.2, &q.3)) {
                        m.remove(&q.0, &q.1, &q.2, &q.3);
                    }
                }
                d.retain_matching(EMC::new(ts), EMC::new(tp), EMC::new(to))
                    .unwrap();
            }
        }
        check_g(&d, &m, &mut r, &pool, &extra, &log);
        if step % 17 == 0 {
            let d2 = G::from_triple_source(d.triples()).unwrap();
            check_g(&d2, &m, &mut r, &pool, &extra, &format!("{log} + rebuild"));
        }
    }
}

macro_rules! g_test {
    ($name:ident, $ty:ty) => {
        #[test]
        fn $name() {
            for seed in 1..=40 {
                run_g::<$ty>(seed, 120, || <$ty>::default());
            }
        }
    };
}
g_test!(fast_graph, sophia_inmem::graph::FastGraph);
g_test!(light_graph, sophia_inmem::graph::LightGraph);
g_test!(small_fast_graph, sophia_inmem::graph::small::FastGraph);
g_test!(small_light_graph, sophia_inmem::graph::small::LightGraph);
g_test!(hashset_graph, HashSet<[ST; 3]>);
g_test!(btreeset_graph, BTreeSet<[ST; 3]>);

fn filled<D: MutableDataset>(mut d: D, n: usize) -> D {
    // n distinct junk terms, none in the pool
    let p = iri("http://junk/p");
    d.insert(&p, &p, &p, None as Option<&ST>).unwrap();
    d.remove(&p, &p, &p, None as Option<&ST>).unwrap();
    for i in 1..n {
        let t = iri(&format!("http://junk/{i}"));
        d.insert(&t, &p, &p, None as Option<&ST>).unwrap();
        d.remove(&t, &p, &p, None as Option<&ST>).unwrap();
    }
    d
}
macro_rules! ds_full_test {
    ($name:ident, $ty:ty) => {
        #[test]
        fn $name() {
            // pool has 24 terms: exactly fits
            for seed in 1..=6 {
                run_ds2::<$ty>(seed, 150, || filled(<$ty>::default(), 65535 - 24), true);
            }
            // only ~12 pool terms fit
            let before = FULL_ERRORS.load(std::sync::atomic::Ordering::Relaxed);
            for seed in 1..=6 {
                run_ds2::<$ty>(seed, 150, || filled(<$ty>::default(), 65535 - 12), true);
            }
            assert!(FULL_ERRORS.load(std::sync::atomic::Ordering::Relaxed) > before);
        }
    };
}
ds_full_test!(small_fast_dataset_full, sophia_inmem::dataset::small::FastDataset);
ds_full_test!(small_light_dataset_full, sophia_inmem::dataset::small::LightDataset);
