// scratch differential fuzzer: RFC 3986 5.2 reference vs sophia_iri resolve
use sophia_iri::resolve::{BaseIri, BaseIriRef};
use sophia_iri::*;
use std::collections::BTreeMap;
use std::panic::{AssertUnwindSafe, catch_unwind};

#[derive(Debug, Clone, Default)]
struct Parts {
    scheme: Option<String>,
    authority: Option<String>,
    path: String,
    query: Option<String>,
    fragment: Option<String>,
}

fn split(s: &str) -> Parts {
    let mut p = Parts::default();
    let mut rest = s;
    if let Some(i) = rest.find('#') {
        p.fragment = Some(rest[i + 1..].to_string());
        rest = &rest[..i];
    }
    if let Some(i) = rest.find('?') {
        p.query = Some(rest[i + 1..].to_string());
        rest = &rest[..i];
    }
    if let Some(i) = rest.find(|c| matches!(c, ':' | '/')) {
        if rest.as_bytes()[i] == b':' && i > 0 {
            p.scheme = Some(rest[..i].to_string());
            rest = &rest[i + 1..];
        }
    }
    if let Some(r) = rest.strip_prefix("//") {
        let i = r.find('/').unwrap_or(r.len());
        p.authority = Some(r[..i].to_string());
        rest = &r[i..];
    }
    p.path = rest.to_string();
    p
}

fn remove_dot_segments(path: &str) -> String {
    let mut input = path.to_string();
    let mut output = String::new();
    while !input.is_empty() {
        if input.starts_with("../") {
            input = input[3..].to_string();
        } else if input.starts_with("./") {
            input = input[2..].to_string();
        } else if input.starts_with("/./") {
            input = input[2..].to_string();
        } else if input == "/." {
            input = "/".to_string();
        } else if input.starts_with("/../") {
            input = input[3..].to_string();
            match output.rfind('/') {
                Some(i) => output.truncate(i),
                None => output.clear(),
            }
        } else if input == "/.." {
            input = "/".to_string();
            match output.rfind('/') {
                Some(i) => output.truncate(i),
                None => output.clear(),
            }
        } else if input == "." || input == ".." {
            input.clear();
        } else {
            let start = if input.starts_with('/') { 1 } else { 0 };
            let end = input[start..].find('/').map(|i| i + start).unwrap_or(input.len());
            output.push_str(&input[..end]);
            input = input[end..].to_string();
        }
    }
    output
}

fn rfc_resolve(base: &str, r: &str) -> String {
    let b = split(base);
    let r = split(r);
    let mut t = Parts::default();
    if r.scheme.is_some() {
        t.scheme = r.scheme;
        t.authority = r.authority;
        t.path = remove_dot_segments(&r.path);
        t.query = r.query;
    } else {
        if r.authority.is_some() {
            t.authority = r.authority;
            t.path = remove_dot_segments(&r.path);
            t.query = r.query;
        } else {
            if r.path.is_empty() {
                t.path = b.path.clone();
                t.query = if r.query.is_some() { r.query } else { b.query.clone() };
            } else {
                if r.path.starts_with('/') {
                    t.path = remove_dot_segments(&r.path);
                } else {
                    let merged = if b.authority.is_some() && b.path.is_empty() {
                        format!("/{}", r.path)
                    } else {
                        match b.path.rfind('/') {
                            Some(i) => format!("{}{}", &b.path[..=i], r.path),
                            None => r.path.clone(),
                        }
                    };
                    t.path = remove_dot_segments(&merged);
                }
                t.query = r.query;
            }
            t.authority = b.authority.clone();
        }
        t.scheme = b.scheme.clone();
    }
    t.fragment = r.fragment;
    let mut out = String::new();
    if let Some(s) = &t.scheme {
        out.push_str(s);
        out.push(':');
    }
    if let Some(a) = &t.authority {
        out.push_str("//");
        out.push_str(a);
    }
    out.push_str(&t.path);
    if let Some(q) = &t.query {
        out.push('?');
        out.push_str(q);
    }
    if let Some(f) = &t.fragment {
        out.push('#');
        out.push_str(f);
    }
    out
}

fn gen_strings(alphabet: &[&str], maxlen: usize) -> Vec<String> {
    let mut out = vec![String::new()];
    let mut layer = vec![String::new()];
    for _ in 0..maxlen {
        let mut next = vec![];
        for s in &layer {
            for a in alphabet {
                next.push(format!("{s}{a}"));
            }
        }
        out.extend(next.iter().cloned());
        layer = next;
    }
    out
}

fn has_dot_seg(path: &str) -> bool {
    path.split('/').any(|s| s == "." || s == "..")
}

#[test]
fn sanity() {
    for (r, a) in sophia_iri_test_data() {
        assert_eq!(rfc_resolve("http://a/b/c/d;p?q", r), a, "{r}");
    }
}

fn sophia_iri_test_data() -> Vec<(&'static str, &'static str)> {
    vec![
        ("g:h", "g:h"),
        ("g", "http://a/b/c/g"),
        ("./g", "http://a/b/c/g"),
        ("g/", "http://a/b/c/g/"),
        ("/g", "http://a/g"),
        ("//g", "http://g"),
        ("?y", "http://a/b/c/d;p?y"),
        ("g?y", "http://a/b/c/g?y"),
        ("#s", "http://a/b/c/d;p?q#s"),
        ("g#s", "http://a/b/c/g#s"),
        ("", "http://a/b/c/d;p?q"),
        (".", "http://a/b/c/"),
        ("..", "http://a/b/"),
        ("../..", "http://a/"),
        ("../../g", "http://a/g"),
        ("../../../g", "http://a/g"),
        ("/./g", "http://a/g"),
        ("/../g", "http://a/g"),
        ("g.", "http://a/b/c/g."),
        ("..g", "http://a/b/c/..g"),
        ("./../g", "http://a/b/g"),
        ("g/./h", "http://a/b/c/g/h"),
        ("g/../h", "http://a/b/c/h"),
        ("g;x=1/../y", "http://a/b/c/y"),
    ]
}

#[test]
fn differential() {
    std::panic::set_hook(Box::new(|_| {}));
    let all = gen_strings(&["a", "/", ".", ":", "?", "#", "%2e"], 5);
    let refs: Vec<&String> = all.iter().filter(|s| is_valid_iri_ref(s)).collect();
    let bases: Vec<&String> = all.iter().filter(|s| is_absolute_iri_ref(s)).collect();
    println!("{} refs, {} abs bases", refs.len(), bases.len());
    let mut cats: BTreeMap<String, (usize, Vec<String>)> = BTreeMap::new();
    let mut total = 0usize;
    for b in &bases {
        let bp = split(b);
        let base = Iri::new(b.as_str()).unwrap().to_base();
        for r in &refs {
            total += 1;
            let rp = split(r);
            let expected = rfc_resolve(b, r);
            let rr = IriRef::new(r.as_str()).unwrap();
            let got = catch_unwind(AssertUnwindSafe(|| base.resolve(rr).unwrap()));
            let ok = match &got {
                Ok(g) => *g == expected,
                Err(_) => false,
            };
            // agreement between the flavours
            let got_str = base.resolve(r.as_str()).map(|i| i.unwrap()).ok();
            let mut buf = String::from("junk");
            let got_into = base.resolve_into(r.as_str(), &mut buf).map(|i| i.unwrap().to_string()).ok();
            let flavours_agree = got.as_ref().ok() == got_str.as_ref() && got_str == got_into;
            if ok && flavours_agree && is_absolute_iri_ref(&expected) {
                continue;
            }
            // categorize
            let mut cat = String::new();
            if !flavours_agree {
                cat.push_str("FLAVOURS-DISAGREE ");
            }
            if got.is_err() {
                cat.push_str("panic ");
            }
            if !is_absolute_iri_ref(&expected) {
                cat.push_str("rfc-result-not-iri ");
            }
            if let Ok(g) = &got {
                if !is_absolute_iri_ref(g) {
                    cat.push_str("GOT-NOT-IRI ");
                }
            }
            if rp.scheme.is_some() {
                cat.push_str("ref-has-scheme ");
            } else if rp.authority.is_some() {
                cat.push_str("ref-has-authority ");
            }
            if has_dot_seg(&bp.path) {
                cat.push_str("base-dots ");
            }
            if bp.authority.is_none() {
                cat.push_str("base-no-auth ");
                if bp.path.starts_with('/') {
                    cat.push_str("base-abs-path ");
                } else {
                    cat.push_str("base-rootless ");
                }
            }
            if bp.path.contains("//") {
                cat.push_str("base-empty-seg ");
            }
            if rp.path.contains("//") {
                cat.push_str("ref-empty-seg ");
            }
            let e = cats.entry(cat).or_insert((0, vec![]));
            e.0 += 1;
            if e.1.len() < 12 {
                e.1.push(format!("{b:?} + {r:?} => {:?}, rfc {expected:?}", got.as_ref().ok()));
            }
        }
    }
    println!("{total} pairs");
    for (c, (n, ex)) in &cats {
        println!("== {c}: {n}");
        for e in ex {
            println!("     {e}");
        }
    }
}

#[test]
fn differential_relative_base() {
    std::panic::set_hook(Box::new(|_| {}));
    let all = gen_strings(&["a", "/", ".", ":", "?", "#"], 4);
    let refs: Vec<&String> = all.iter().filter(|s| is_valid_iri_ref(s)).collect();
    let bases: Vec<&String> = all.iter().filter(|s| is_relative_iri_ref(s)).collect();
    let mut cats: BTreeMap<String, (usize, Vec<String>)> = BTreeMap::new();
    for b in &bases {
        let bp = split(b);
        let base = BaseIriRef::new(b.as_str()).unwrap();
        for r in &refs {
            let rp = split(r);
            let expected = rfc_resolve(b, r);
            let got = base.resolve(r.as_str()).map(|i| i.unwrap());
            let ok = match &got {
                Ok(g) => *g == expected && is_valid_iri_ref(g),
                Err(_) => false,
            };
            if ok {
                continue;
            }
            let mut cat = String::new();
            if got.is_err() {
                cat.push_str("err ");
            }
            if let Ok(g) = &got {
                if !is_valid_iri_ref(g) {
                    cat.push_str("GOT-NOT-IRIREF ");
                }
            }
            if !is_valid_iri_ref(&expected) {
                cat.push_str("rfc-result-not-iriref ");
            }
            if rp.scheme.is_some() {
                cat.push_str("ref-has-scheme ");
            } else if rp.authority.is_some() {
                cat.push_str("ref-has-authority ");
            }
            if has_dot_seg(&bp.path) {
                cat.push_str("base-dots ");
            }
            if bp.authority.is_none() {
                cat.push_str("base-no-auth ");
            }
            let e = cats.entry(cat).or_insert((0, vec![]));
            e.0 += 1;
            if e.1.len() < 8 {
                e.1.push(format!("{b:?} + {r:?} => {:?}, rfc {expected:?}", got.as_ref().ok()));
            }
        }
    }
    for (c, (n, ex)) in &cats {
        println!("== {c}: {n}");
        for e in ex {
            println!("     {e}");
        }
    }
}

#[test]
fn str_refs_validation_with_base() {
    std::panic::set_hook(Box::new(|_| {}));
    let all = gen_strings(&["a", "/", ".", ":", "?", "#", "%", "[", "]", "@", " ", "é", "1", "\u{E000}"], 5);
    let mut bad = vec![];
    let mut n = 0;
    for b in ["a:", "a:b", "a:/b/c", "a://h", "a://h/b/c?q#f", "a://[::1]:8/b/"] {
        let base = BaseIri::new(b).unwrap();
        let rbase = BaseIriRef::new(b).unwrap();
        for s in &all {
            n += 1;
            let valid = is_valid_iri_ref(s);
            let got = catch_unwind(AssertUnwindSafe(|| base.resolve(s.as_str()).map(|i| i.unwrap())));
            let got2 = catch_unwind(AssertUnwindSafe(|| rbase.resolve(s.as_str()).map(|i| i.unwrap())));
            match (&got, &got2) {
                (Ok(Ok(g)), Ok(Ok(g2))) => {
                    if !valid || !is_absolute_iri_ref(g) || g != g2 {
                        bad.push(format!("{b:?} + {s:?} (valid={valid}) => {g:?} / {g2:?}"));
                    }
                }
                (Ok(Err(e)), Ok(Err(_))) => {
                    if valid && !e.to_string().contains("two slashes") && !format!("{e:?}").contains("TwoSlashes") {
                        bad.push(format!("{b:?} + {s:?} (valid) => Err {e:?}"));
                    }
                }
                _ => bad.push(format!("{b:?} + {s:?} (valid={valid}) => {got:?} / {got2:?}")),
            }
        }
    }
    println!("{n} cases, {} bad", bad.len());
    for b in bad.iter().take(50) {
        println!("  {b}");
    }
    assert!(bad.is_empty());
}

#[test]
fn relativize_roundtrip() {
    use sophia_iri::relativize::Relativizer;
    std::panic::set_hook(Box::new(|_| {}));
    let all = gen_strings(&["a", "/", ".", ":", "?", "#", "é"], 6);
    let abs: Vec<&String> = all.iter().filter(|s| is_absolute_iri_ref(s) && s.starts_with("a:")).collect();
    println!("{} abs", abs.len());
    let mut cats: BTreeMap<String, (usize, Vec<String>)> = BTreeMap::new();
    for b in &abs {
        if has_dot_seg(&split(b).path) { continue; }
        for parents in [0u8, 1, 2] {
            let rel = match catch_unwind(AssertUnwindSafe(|| Relativizer::new(BaseIri::new(b.as_str()).unwrap(), parents))) {
                Ok(r) => r,
                Err(_) => {
                    let e = cats.entry("PANIC-new".into()).or_insert((0, vec![]));
                    e.0 += 1;
                    if e.1.len() < 10 { e.1.push(format!("{b:?} parents={parents}")); }
                    continue;
                }
            };
            for i in &abs {
                if has_dot_seg(&split(i).path) { continue; }
                let iri = Iri::new(i.as_str()).unwrap();
                let got = catch_unwind(AssertUnwindSafe(|| rel.relativize(iri).map(|r| r.unwrap().to_string())));
                let cat = match &got {
                    Err(_) => "PANIC-relativize".to_string(),
                    Ok(None) => continue,
                    Ok(Some(r)) => {
                        if !is_valid_iri_ref(r) {
                            "invalid-iriref".to_string()
                        } else {
                            let back = rfc_resolve(b, r);
                            if back == **i { continue; }
                            let mut c = "roundtrip-differs".to_string();
                            if has_dot_seg(&split(b).path) { c.push_str(" base-dots"); }
                            if has_dot_seg(&split(i).path) { c.push_str(" iri-dots"); }
                            if split(b).authority.is_none() { c.push_str(" base-no-auth"); }
                            if split(i).path.contains("//") { c.push_str(" iri-empty-seg"); }
                            if split(b).path.contains("//") { c.push_str(" base-empty-seg"); }
                            if split(i).authority.is_some() { c.push_str(" iri-has-auth"); }
                            if r.starts_with("../") { c.push_str(" rel-dotdot"); }
                            c
                        }
                    }
                };
                let e = cats.entry(cat).or_insert((0, vec![]));
                e.0 += 1;
                if e.1.len() < 15 {
                    e.1.push(format!("base {b:?} parents={parents} iri {i:?} => {:?} (resolves to {:?})", got.as_ref().ok(), got.as_ref().ok().and_then(|o| o.as_ref().map(|r| rfc_resolve(b, r)))));
                }
            }
        }
    }
    for (c, (n, ex)) in &cats {
        println!("== {c}: {n}");
        for e in ex {
            println!("     {e}");
        }
    }
}
