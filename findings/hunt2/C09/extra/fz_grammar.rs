// scratch differential fuzzer: independent RFC 3987 recogniser vs regex vs oxiri
use sophia_iri::resolve::{BaseIri, BaseIriRef};
use sophia_iri::*;
use std::rc::Rc;

type P = Rc<dyn Fn(&[char], usize) -> Vec<usize>>;

fn ch(pred: impl Fn(char) -> bool + 'static) -> P {
    Rc::new(move |s, i| {
        if i < s.len() && pred(s[i]) {
            vec![i + 1]
        } else {
            vec![]
        }
    })
}
fn lit(t: &'static str) -> P {
    let t: Vec<char> = t.chars().collect();
    Rc::new(move |s, i| {
        if s.len() >= i + t.len() && s[i..i + t.len()] == t[..] {
            vec![i + t.len()]
        } else {
            vec![]
        }
    })
}
fn ilit(t: &'static str) -> P {
    // case insensitive literal (ABNF strings are case-insensitive)
    let t: Vec<char> = t.chars().collect();
    Rc::new(move |s, i| {
        if s.len() >= i + t.len()
            && s[i..i + t.len()]
                .iter()
                .zip(t.iter())
                .all(|(a, b)| a.eq_ignore_ascii_case(b))
        {
            vec![i + t.len()]
        } else {
            vec![]
        }
    })
}
fn seq(ps: Vec<P>) -> P {
    Rc::new(move |s, i| {
        let mut cur = vec![i];
        for p in &ps {
            let mut next = vec![];
            for &c in &cur {
                for e in p(s, c) {
                    if !next.contains(&e) {
                        next.push(e);
                    }
                }
            }
            cur = next;
            if cur.is_empty() {
                break;
            }
        }
        cur
    })
}
fn alt(ps: Vec<P>) -> P {
    Rc::new(move |s, i| {
        let mut out = vec![];
        for p in &ps {
            for e in p(s, i) {
                if !out.contains(&e) {
                    out.push(e);
                }
            }
        }
        out
    })
}
fn rep(p: P, min: usize, max: usize) -> P {
    Rc::new(move |s, i| {
        let mut out = vec![];
        let mut cur = vec![i];
        if min == 0 {
            out.push(i);
        }
        let mut n = 0;
        while n < max && !cur.is_empty() {
            let mut next = vec![];
            for &c in &cur {
                for e in p(s, c) {
                    if e > c && !next.contains(&e) {
                        next.push(e);
                    }
                }
            }
            n += 1;
            if n >= min {
                for &e in &next {
                    if !out.contains(&e) {
                        out.push(e);
                    }
                }
            }
            cur = next;
        }
        out
    })
}
fn opt(p: P) -> P {
    rep(p, 0, 1)
}
fn star(p: P) -> P {
    rep(p, 0, usize::MAX)
}
fn plus(p: P) -> P {
    rep(p, 1, usize::MAX)
}

struct G {
    iri: P,
    irelative_ref: P,
}

fn grammar() -> G {
    let alpha = ch(|c| c.is_ascii_alphabetic());
    let digit = ch(|c| c.is_ascii_digit());
    let hexdig = ch(|c| c.is_ascii_hexdigit());
    let ucschar = ch(|c| {
        let c = c as u32;
        (0xA0..=0xD7FF).contains(&c)
            || (0xF900..=0xFDCF).contains(&c)
            || (0xFDF0..=0xFFEF).contains(&c)
            || (0x10000..=0x1FFFD).contains(&c)
            || (0x20000..=0x2FFFD).contains(&c)
            || (0x30000..=0x3FFFD).contains(&c)
            || (0x40000..=0x4FFFD).contains(&c)
            || (0x50000..=0x5FFFD).contains(&c)
            || (0x60000..=0x6FFFD).contains(&c)
            || (0x70000..=0x7FFFD).contains(&c)
            || (0x80000..=0x8FFFD).contains(&c)
            || (0x90000..=0x9FFFD).contains(&c)
            || (0xA0000..=0xAFFFD).contains(&c)
            || (0xB0000..=0xBFFFD).contains(&c)
            || (0xC0000..=0xCFFFD).contains(&c)
            || (0xD0000..=0xDFFFD).contains(&c)
            || (0xE1000..=0xEFFFD).contains(&c)
    });
    let iprivate = ch(|c| {
        let c = c as u32;
        (0xE000..=0xF8FF).contains(&c)
            || (0xF0000..=0xFFFFD).contains(&c)
            || (0x100000..=0x10FFFD).contains(&c)
    });
    let unreserved = alt(vec![
        alpha.clone(),
        digit.clone(),
        ch(|c| matches!(c, '-' | '.' | '_' | '~')),
    ]);
    let iunreserved = alt(vec![unreserved.clone(), ucschar.clone()]);
    let sub_delims = ch(|c| matches!(c, '!' | '$' | '&' | '\'' | '(' | ')' | '*' | '+' | ',' | ';' | '='));
    let pct = seq(vec![lit("%"), hexdig.clone(), hexdig.clone()]);
    let ipchar = alt(vec![
        iunreserved.clone(),
        pct.clone(),
        sub_delims.clone(),
        lit(":"),
        lit("@"),
    ]);
    let isegment = star(ipchar.clone());
    let isegment_nz = plus(ipchar.clone());
    let isegment_nz_nc = plus(alt(vec![
        iunreserved.clone(),
        pct.clone(),
        sub_delims.clone(),
        lit("@"),
    ]));
    let slash_seg = seq(vec![lit("/"), isegment.clone()]);
    let ipath_abempty = star(slash_seg.clone());
    let ipath_absolute = seq(vec![
        lit("/"),
        opt(seq(vec![isegment_nz.clone(), star(slash_seg.clone())])),
    ]);
    let ipath_noscheme = seq(vec![isegment_nz_nc.clone(), star(slash_seg.clone())]);
    let ipath_rootless = seq(vec![isegment_nz.clone(), star(slash_seg.clone())]);
    let ipath_empty = lit("");
    let iquery = star(alt(vec![ipchar.clone(), iprivate.clone(), lit("/"), lit("?")]));
    let ifragment = star(alt(vec![ipchar.clone(), lit("/"), lit("?")]));
    let scheme = seq(vec![
        alpha.clone(),
        star(alt(vec![
            alpha.clone(),
            digit.clone(),
            ch(|c| matches!(c, '+' | '-' | '.')),
        ])),
    ]);
    let port = star(digit.clone());
    // dec-octet
    let dec_octet = alt(vec![
        digit.clone(),
        seq(vec![ch(|c| ('1'..='9').contains(&c)), digit.clone()]),
        seq(vec![lit("1"), digit.clone(), digit.clone()]),
        seq(vec![lit("2"), ch(|c| ('0'..='4').contains(&c)), digit.clone()]),
        seq(vec![lit("25"), ch(|c| ('0'..='5').contains(&c))]),
    ]);
    let ipv4 = seq(vec![
        dec_octet.clone(),
        lit("."),
        dec_octet.clone(),
        lit("."),
        dec_octet.clone(),
        lit("."),
        dec_octet.clone(),
    ]);
    let h16 = rep(hexdig.clone(), 1, 4);
    let ls32 = alt(vec![seq(vec![h16.clone(), lit(":"), h16.clone()]), ipv4.clone()]);
    let h16c = seq(vec![h16.clone(), lit(":")]);
    let pre = |n: usize| -> P { opt(seq(vec![rep(h16c.clone(), 0, n), h16.clone()])) };
    let ipv6 = alt(vec![
        seq(vec![rep(h16c.clone(), 6, 6), ls32.clone()]),
        seq(vec![lit("::"), rep(h16c.clone(), 5, 5), ls32.clone()]),
        seq(vec![opt(h16.clone()), lit("::"), rep(h16c.clone(), 4, 4), ls32.clone()]),
        seq(vec![pre(1), lit("::"), rep(h16c.clone(), 3, 3), ls32.clone()]),
        seq(vec![pre(2), lit("::"), rep(h16c.clone(), 2, 2), ls32.clone()]),
        seq(vec![pre(3), lit("::"), h16c.clone(), ls32.clone()]),
        seq(vec![pre(4), lit("::"), ls32.clone()]),
        seq(vec![pre(5), lit("::"), h16.clone()]),
        seq(vec![pre(6), lit("::")]),
    ]);
    let ipvfuture = seq(vec![
        ilit("v"),
        plus(hexdig.clone()),
        lit("."),
        plus(alt(vec![unreserved.clone(), sub_delims.clone(), lit(":")])),
    ]);
    let ip_literal = seq(vec![lit("["), alt(vec![ipv6, ipvfuture]), lit("]")]);
    let ireg_name = star(alt(vec![iunreserved.clone(), pct.clone(), sub_delims.clone()]));
    let ihost = alt(vec![ip_literal, ipv4, ireg_name]);
    let iuserinfo = star(alt(vec![
        iunreserved.clone(),
        pct.clone(),
        sub_delims.clone(),
        lit(":"),
    ]));
    let iauthority = seq(vec![
        opt(seq(vec![iuserinfo, lit("@")])),
        ihost,
        opt(seq(vec![lit(":"), port])),
    ]);
    let ihier_part = alt(vec![
        seq(vec![lit("//"), iauthority.clone(), ipath_abempty.clone()]),
        ipath_absolute.clone(),
        ipath_rootless,
        ipath_empty.clone(),
    ]);
    let irelative_part = alt(vec![
        seq(vec![lit("//"), iauthority, ipath_abempty]),
        ipath_absolute,
        ipath_noscheme,
        ipath_empty,
    ]);
    let qf = seq(vec![
        opt(seq(vec![lit("?"), iquery])),
        opt(seq(vec![lit("#"), ifragment])),
    ]);
    let iri = seq(vec![scheme, lit(":"), ihier_part, qf.clone()]);
    let irelative_ref = seq(vec![irelative_part, qf]);
    G { iri, irelative_ref }
}

fn full(p: &P, s: &str) -> bool {
    let cs: Vec<char> = s.chars().collect();
    p(&cs, 0).contains(&cs.len())
}

fn check(g: &G, s: &str, bad: &mut Vec<String>) {
    let o_abs = full(&g.iri, s);
    let o_rel = full(&g.irelative_ref, s);
    let r_abs = is_absolute_iri_ref(s);
    let r_rel = is_relative_iri_ref(s);
    let r_any = is_valid_iri_ref(s);
    let x_abs = BaseIri::new(s).is_ok();
    let x_any = BaseIriRef::new(s).is_ok();
    if o_abs != r_abs || o_rel != r_rel || r_any != (o_abs || o_rel) || x_abs != o_abs || x_any != (o_abs || o_rel) {
        bad.push(format!(
            "{s:?}: oracle abs={o_abs} rel={o_rel}; regex abs={r_abs} rel={r_rel} any={r_any}; oxiri abs={x_abs} any={x_any}"
        ));
    }
}

#[test]
fn oracle_sanity() {
    let g = grammar();
    for s in ["http://a/b?c#d", "a:", "a://[::1]:80/", "a://[v1.x]", "a://1.2.3.4", "a:/b", "a:b/c"] {
        assert!(full(&g.iri, s), "{s}");
        assert!(!full(&g.irelative_ref, s), "{s}");
    }
    for s in ["", "//a", "/a", "a/b:c", "?q", "#f", "./a:b", "//[::1]"] {
        assert!(!full(&g.iri, s), "{s}");
        assert!(full(&g.irelative_ref, s), "{s}");
    }
    for s in ["a b", "1:b", ":a", "a://[::1", "a://[1]", "%", "%1", "a:%g1", "a://a:b"] {
        assert!(!full(&g.iri, s), "{s}");
        assert!(!full(&g.irelative_ref, s), "{s}");
    }
}

fn enumerate(alphabet: &[&str], maxlen: usize, prefix: &str, suffix: &str, g: &G, bad: &mut Vec<String>) -> usize {
    let mut count = 0;
    let mut idx = vec![0usize; 0];
    loop {
        let mut s = String::from(prefix);
        for &i in &idx {
            s.push_str(alphabet[i]);
        }
        s.push_str(suffix);
        check(g, &s, bad);
        count += 1;
        // increment
        let mut k = idx.len();
        loop {
            if k == 0 {
                idx = vec![0; idx.len() + 1];
                break;
            }
            k -= 1;
            idx[k] += 1;
            if idx[k] < alphabet.len() {
                break;
            }
            idx[k] = 0;
        }
        if idx.len() > maxlen {
            break;
        }
    }
    count
}

fn report(name: &str, n: usize, bad: &[String]) {
    println!("{name}: {n} strings, {} disagreements", bad.len());
    for b in bad.iter().take(60) {
        println!("   {b}");
    }
}

#[test]
fn general_small_alphabet() {
    let g = grammar();
    let mut bad = vec![];
    let n = enumerate(&["a", "1", ":", "/", "?", "#", "@", ".", "%", "[", "]", "é", " "], 6, "", "", &g, &mut bad);
    report("general", n, &bad);
    assert!(bad.is_empty());
}

#[test]
fn authority_alphabet() {
    let g = grammar();
    let mut bad = vec![];
    let mut n = 0;
    for prefix in ["a://", "//"] {
        n += enumerate(&["a", "1", ":", "/", "@", ".", "%41", "[", "]", "::", "v", "V", "!", "\u{E000}", "?"], 6, prefix, "", &g, &mut bad);
    }
    report("authority", n, &bad);
    assert!(bad.is_empty());
}

#[test]
fn ipv6_forms() {
    let g = grammar();
    let mut bad = vec![];
    let mut n = 0;
    n += enumerate(&["1", ":"], 17, "a://[", "]", &g, &mut bad);
    for suffix in ["1.2.3.4]", ":1.2.3.4]", "::1.2.3.4]", "1.2.3.4]:1", "1.2.3.4:1]"] {
        n += enumerate(&["1", ":"], 14, "//[", suffix, &g, &mut bad);
    }
    n += enumerate(&["0", "1", "2", "5", "6", ".", "9"], 7, "a://[::", "]", &g, &mut bad);
    n += enumerate(&["0", "1", "2", "5", "6", ".", "9"], 7, "a://", "", &g, &mut bad);
    n += enumerate(&["0", "f", "F", "g", ":"], 8, "a://[", "]", &g, &mut bad);
    n += enumerate(&["0", "f", "F", "g", ":"], 7, "a://[1:2:3:4:5:", "]", &g, &mut bad);
    n += enumerate(&["v", "V", "1", "f", "g", ".", ":", "!", "é", "%", "~", "/", "@", "[", "]"], 5, "a://[", "]", &g, &mut bad);
    report("ipv6", n, &bad);
    assert!(bad.is_empty());
}

#[test]
fn char_boundaries() {
    let g = grammar();
    let mut bad = vec![];
    let mut n = 0;
    let mut cps: Vec<u32> = (0..0x250).collect();
    for b in [
        0xA0u32, 0xD7FF, 0xE000, 0xF8FF, 0xF900, 0xFDCF, 0xFDD0, 0xFDEF, 0xFDF0, 0xFFEF, 0xFFF0, 0xFFFD, 0xFFFE, 0xFFFF,
    ] {
        for d in -2i32..=2 {
            cps.push((b as i32 + d) as u32);
        }
    }
    for plane in 1..=16u32 {
        for off in [0u32, 1, 0xFFF, 0x1000, 0x1001, 0xFFFC, 0xFFFD, 0xFFFE, 0xFFFF] {
            cps.push(plane * 0x10000 + off);
        }
    }
    for cp in cps {
        let Some(c) = char::from_u32(cp) else { continue };
        for tpl in [
            "{}", "a{}", "a:{}", "a:{}:", "a{}:b", "a://{}", "a://{}@b", "a://b:{}", "a://b:1{}", "a://b/{}", "a:/{}", "a:b?{}", "a:b#{}",
            "//{}", "//{}@b", "//b:{}", "/{}", "{}/b", "b/{}", "?{}", "#{}", "a://[{}]", "a://[::{}]", "a://[v1.{}]", "a://[v{}.1]", "a://[{}1.1]",
            "a:%{}1", "a:%1{}", "a://%{}1", "a:b?%{}1", "a:b#%1{}", "a://[::1.2.3.{}]", "a://1.2.3.{}",
        ] {
            let s = tpl.replace("{}", &c.to_string());
            check(&g, &s, &mut bad);
            n += 1;
        }
    }
    report("chars", n, &bad);
    assert!(bad.is_empty());
}

// ---------- random grammar-based generation + mutation ----------
struct Rng(u64);
impl Rng {
    fn next(&mut self) -> u64 {
        self.0 ^= self.0 << 13;
        self.0 ^= self.0 >> 7;
        self.0 ^= self.0 << 17;
        self.0
    }
    fn below(&mut self, n: usize) -> usize {
        (self.next() % n as u64) as usize
    }
    fn pick<'a>(&mut self, xs: &[&'a str]) -> &'a str {
        xs[self.below(xs.len())]
    }
}

fn g_iunres(r: &mut Rng) -> String {
    r.pick(&["a", "Z", "0", "9", "-", ".", "_", "~", "é", "\u{A0}", "\u{D7FF}", "\u{F900}", "\u{FDCF}", "\u{FDF0}", "\u{FFEF}", "\u{10000}", "\u{1FFFD}", "\u{E1000}", "\u{EFFFD}"]).to_string()
}
fn g_sub(r: &mut Rng) -> String {
    r.pick(&["!", "$", "&", "'", "(", ")", "*", "+", ",", ";", "="]).to_string()
}
fn g_pct(r: &mut Rng) -> String {
    format!("%{}{}", r.pick(&["0", "9", "a", "f", "A", "F"]), r.pick(&["0", "9", "a", "f", "A", "F"]))
}
fn g_ipchar(r: &mut Rng, colon: bool) -> String {
    match r.below(if colon { 5 } else { 4 }) {
        0 => g_iunres(r),
        1 => g_pct(r),
        2 => g_sub(r),
        3 => "@".into(),
        _ => ":".into(),
    }
}
fn g_seg(r: &mut Rng, min: usize, colon: bool) -> String {
    let n = min + r.below(3);
    (0..n).map(|_| g_ipchar(r, colon)).collect()
}
fn g_segs(r: &mut Rng) -> String {
    let n = r.below(4);
    (0..n).map(|_| format!("/{}", match r.below(4) { 0 => ".".to_string(), 1 => "..".to_string(), 2 => String::new(), _ => g_seg(r, 0, true) })).collect()
}
fn g_h16(r: &mut Rng) -> String {
    r.pick(&["0", "1", "ab", "AbC", "ffff", "0000", "F"]).to_string()
}
fn g_oct(r: &mut Rng) -> String {
    r.pick(&["0", "1", "9", "10", "99", "100", "199", "200", "249", "250", "255"]).to_string()
}
fn g_ipv4(r: &mut Rng) -> String {
    format!("{}.{}.{}.{}", g_oct(r), g_oct(r), g_oct(r), g_oct(r))
}
fn g_ls32(r: &mut Rng) -> String {
    if r.below(2) == 0 { format!("{}:{}", g_h16(r), g_h16(r)) } else { g_ipv4(r) }
}
fn g_pre(r: &mut Rng, max: usize) -> String {
    // [ *max( h16 ":" ) h16 ]
    if r.below(4) == 0 { return String::new(); }
    let n = r.below(max + 1);
    let mut s = String::new();
    for _ in 0..n { s.push_str(&g_h16(r)); s.push(':'); }
    s.push_str(&g_h16(r));
    s
}
fn g_h16c(r: &mut Rng, n: usize) -> String {
    (0..n).map(|_| format!("{}:", g_h16(r))).collect()
}
fn g_ipv6(r: &mut Rng) -> String {
    match r.below(9) {
        0 => format!("{}{}", g_h16c(r, 6), g_ls32(r)),
        1 => format!("::{}{}", g_h16c(r, 5), g_ls32(r)),
        2 => format!("{}::{}{}", g_pre(r, 0), g_h16c(r, 4), g_ls32(r)),
        3 => format!("{}::{}{}", g_pre(r, 1), g_h16c(r, 3), g_ls32(r)),
        4 => format!("{}::{}{}", g_pre(r, 2), g_h16c(r, 2), g_ls32(r)),
        5 => format!("{}::{}{}", g_pre(r, 3), g_h16c(r, 1), g_ls32(r)),
        6 => format!("{}::{}", g_pre(r, 4), g_ls32(r)),
        7 => format!("{}::{}", g_pre(r, 5), g_h16(r)),
        _ => format!("{}::", g_pre(r, 6)),
    }
}
fn g_host(r: &mut Rng) -> String {
    match r.below(5) {
        0 => format!("[{}]", g_ipv6(r)),
        1 => format!("[{}{}.{}]", r.pick(&["v", "V"]), g_h16(r), (0..1 + r.below(3)).map(|_| r.pick(&["a", "1", "-", "~", "!", ":", "=", "."]).to_string()).collect::<String>()),
        2 => g_ipv4(r),
        _ => (0..r.below(4)).map(|_| match r.below(3) { 0 => g_iunres(r), 1 => g_pct(r), _ => g_sub(r) }).collect(),
    }
}
fn g_authority(r: &mut Rng) -> String {
    let mut s = String::new();
    if r.below(2) == 0 {
        for _ in 0..r.below(4) {
            s.push_str(&match r.below(4) { 0 => g_iunres(r), 1 => g_pct(r), 2 => g_sub(r), _ => ":".to_string() });
        }
        s.push('@');
    }
    s.push_str(&g_host(r));
    if r.below(2) == 0 {
        s.push(':');
        s.push_str(r.pick(&["", "0", "80", "65536", "0123456789"]));
    }
    s
}
fn g_qf(r: &mut Rng) -> String {
    let mut s = String::new();
    if r.below(2) == 0 {
        s.push('?');
        for _ in 0..r.below(4) {
            s.push_str(&match r.below(4) { 0 => g_ipchar(r, true), 1 => r.pick(&["\u{E000}", "\u{F8FF}", "\u{F0000}", "\u{FFFFD}", "\u{100000}", "\u{10FFFD}"]).to_string(), 2 => "/".into(), _ => "?".into() });
        }
    }
    if r.below(2) == 0 {
        s.push('#');
        for _ in 0..r.below(4) {
            s.push_str(&match r.below(3) { 0 => g_ipchar(r, true), 1 => "/".into(), _ => "?".into() });
        }
    }
    s
}
fn g_ref(r: &mut Rng) -> (String, bool) {
    let abs = r.below(2) == 0;
    let mut s = String::new();
    if abs {
        s.push_str(r.pick(&["a", "http", "A+b-c.9", "z9"]));
        s.push(':');
    }
    match r.below(4) {
        0 => { s.push_str("//"); s.push_str(&g_authority(r)); s.push_str(&g_segs(r)); }
        1 => { s.push('/'); if r.below(3) > 0 { s.push_str(&g_seg(r, 1, true)); s.push_str(&g_segs(r)); } }
        2 => { s.push_str(&g_seg(r, 1, abs)); s.push_str(&g_segs(r)); }
        _ => {}
    }
    s.push_str(&g_qf(r));
    (s, abs)
}

#[test]
fn random_members_and_mutations() {
    let g = grammar();
    let mut r = Rng(0x9E3779B97F4A7C15);
    let mut bad = vec![];
    let mut n = 0;
    let muts: Vec<char> = "a1:/?#@[]%.v -+é\u{E000}\u{FFFE}\\<>\"{}|^`\n\t\0".chars().collect();
    for _ in 0..150_000 {
        let (s, abs) = g_ref(&mut r);
        // members must be accepted
        let ok = if abs { full(&g.iri, &s) } else { full(&g.irelative_ref, &s) };
        assert!(ok, "generator produced a non member: {s:?} abs={abs}");
        check(&g, &s, &mut bad);
        n += 1;
        let cs: Vec<char> = s.chars().collect();
        for _ in 0..40 {
            let mut m = cs.clone();
            match r.below(4) {
                0 if !m.is_empty() => { let i = r.below(m.len()); m.remove(i); }
                1 => { let i = r.below(m.len() + 1); m.insert(i, muts[r.below(muts.len())]); }
                2 if !m.is_empty() => { let i = r.below(m.len()); m[i] = muts[r.below(muts.len())]; }
                3 if m.len() > 1 => { let i = r.below(m.len() - 1); m.swap(i, i + 1); }
                _ => {}
            }
            let ms: String = m.into_iter().collect();
            check(&g, &ms, &mut bad);
            n += 1;
        }
    }
    report("random", n, &bad);
    assert!(bad.is_empty());
}

#[test]
fn captures_agree_with_oxiri() {
    let re_abs = regex::Regex::new(IRI_REGEX_SRC).unwrap();
    let re_rel = regex::Regex::new(IRELATIVE_REF_REGEX_SRC).unwrap();
    let mut r = Rng(0x1234567);
    let mut bad = 0;
    for _ in 0..300_000 {
        let (s, abs) = g_ref(&mut r);
        let ox = BaseIriRef::new(s.as_str()).unwrap();
        let (scheme, auth, p1, p2, p3, q, f);
        if abs {
            let c = re_abs.captures(&s).unwrap();
            scheme = c.get(1).map(|m| m.as_str());
            auth = c.get(2).map(|m| m.as_str());
            p1 = c.get(3).map(|m| m.as_str());
            p2 = c.get(4).map(|m| m.as_str());
            p3 = c.get(5).map(|m| m.as_str());
            q = c.get(6).map(|m| m.as_str());
            f = c.get(7).map(|m| m.as_str());
        } else {
            let c = re_rel.captures(&s).unwrap();
            scheme = None;
            auth = c.get(1).map(|m| m.as_str());
            p1 = c.get(2).map(|m| m.as_str());
            p2 = c.get(3).map(|m| m.as_str());
            p3 = c.get(4).map(|m| m.as_str());
            q = c.get(5).map(|m| m.as_str());
            f = c.get(6).map(|m| m.as_str());
        }
        let path = p1.or(p2).or(p3).unwrap_or("");
        if scheme != ox.scheme() || auth != ox.authority() || path != ox.path() || q != ox.query() || f != ox.fragment() {
            bad += 1;
            if bad < 20 {
                println!("{s:?}: regex {scheme:?} {auth:?} {path:?} {q:?} {f:?} / oxiri {:?} {:?} {:?} {:?} {:?}", ox.scheme(), ox.authority(), ox.path(), ox.query(), ox.fragment());
            }
        }
    }
    assert_eq!(bad, 0);
}

#[test]
fn very_long() {
    for n in [1usize << 16, 1 << 22] {
        let s = format!("http://{}@{}:{}/{}?{}#{}", "u".repeat(n), "é".repeat(n), "1".repeat(n), "a/./".repeat(n), "q?".repeat(n), "%41".repeat(n));
        let iri = Iri::new(s.as_str()).unwrap();
        let b = iri.as_base();
        let r = b.resolve(IriRef::new(&s[5..]).unwrap());
        assert_eq!(r.as_str(), s);
        let s2 = format!("{s} ");
        assert!(Iri::new(s2.as_str()).is_err());
    }
}
