//! Hunt C09, finding 1 -- drop into `iri/tests/hunt_C09_1.rs` and run
//!   cargo test -p sophia_iri --test hunt_C09_1 --offline
//!
//! Relativizer::relativize treats every IRI that merely *starts with* the text of the base
//! (up to its fragment) as 'the same document, only the fragment differs' and returns the raw rest
//! of the string as the relative reference.
use sophia_iri::relativize::Relativizer;
use sophia_iri::resolve::BaseIri;
use sophia_iri::{Iri, IriRef};
use std::panic::{AssertUnwindSafe, catch_unwind};

/// Relativize `iri` against `base` (allowing `parents` leading `../`), and check that the outcome
/// * is produced without panicking,
/// * is either `None`, or an `IriRef` whose text is accepted by `IriRef::new` (RFC 3987 irelative-ref / IRI),
/// * and, when it is `Some(rel)`, that resolving `rel` against `base` gives `iri` back
///   (RFC 3986 section 5.2, as implemented by `BaseIri::resolve`).
///
/// Returns the text of the relative reference (or None).
fn check(base: &str, iri: &str, parents: u8) -> Option<String> {
    let b = BaseIri::new(base).expect("base is a valid IRI");
    let i = Iri::new(iri).expect("iri is a valid IRI");
    let relativizer = Relativizer::new(b.as_ref(), parents);
    let got = catch_unwind(AssertUnwindSafe(|| {
        relativizer.relativize(i).map(|r| r.as_str().to_string())
    }));
    let got = match got {
        Ok(got) => got,
        Err(_) => panic!(
            "relativize(<{iri}>) against <{base}> panicked (debug build: new_unchecked() found that the result is not an IRI reference)"
        ),
    };
    if let Some(rel) = &got {
        assert!(
            IriRef::new(rel.as_str()).is_ok(),
            "relativize(<{iri}>) against <{base}> returned IriRef({rel:?}), which is not an RFC 3987 IRI reference"
        );
        let back = b
            .resolve(rel.as_str())
            .unwrap_or_else(|e| panic!("<{base}> + {rel:?} can not be resolved: {e}"));
        assert_eq!(
            back.as_str(),
            iri,
            "relativize(<{iri}>) against <{base}> returned {rel:?}, which resolves to <{back}> instead"
        );
    }
    got
}

/// Expected: `bc` (or any reference that resolves to <http://a/bc>). Observed: `c`, i.e. <http://a/c>.
#[test]
fn longer_last_segment() {
    for parents in 0..=2 {
        check("http://a/b", "http://a/bc", parents);
    }
}

/// Expected: `doc2#x`. Observed: `2#x`, i.e. <http://example.org/2#x>.
#[test]
fn longer_last_segment_with_fragment() {
    for parents in 0..=2 {
        check("http://example.org/doc", "http://example.org/doc2#x", parents);
    }
}

/// Expected: `b/c`. Observed: `/c`, i.e. <http://a/c>.
#[test]
fn base_is_a_prefix_of_a_longer_path() {
    for parents in 0..=2 {
        check("http://a/b", "http://a/b/c", parents);
    }
}

/// Expected: `?qq`. Observed: `q`, i.e. <http://a/q>.
#[test]
fn longer_query() {
    for parents in 0..=2 {
        check("http://a/b?q", "http://a/b?qq", parents);
    }
}

/// Expected: `?qx`. Observed: `x`, i.e. <http://a/x> (the base has a fragment, lcp == query_end).
#[test]
fn longer_query_base_with_fragment() {
    for parents in 0..=2 {
        check("http://a/b?q#f", "http://a/b?qx", parents);
    }
}

/// What the branch is meant for still has to work: same document, fragment differs or is absent.
#[test]
fn same_document() {
    assert_eq!(check("http://a/b?q#f", "http://a/b?q#g", 0).as_deref(), Some("#g"));
    assert_eq!(check("http://a/b?q#f", "http://a/b?q", 0).as_deref(), Some(""));
    assert_eq!(check("http://a/b", "http://a/b#g", 0).as_deref(), Some("#g"));
}
