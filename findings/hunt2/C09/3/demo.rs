//! Hunt C09, finding 3 -- drop into `iri/tests/hunt_C09_3.rs` and run
//!   cargo test -p sophia_iri --test hunt_C09_3 --offline
//!
//! Relativizer::relativize returns the rest of the IRI after the last common slash verbatim.
//! If that rest starts with a segment containing ':' it is not a relative reference (it is an absolute IRI,
//! or no IRI reference at all); if it starts with '/' (empty segment) it is an absolute-path or even a
//! network-path reference. RFC 3986 4.2 requires such references to be protected with a leading './'.
use sophia_iri::relativize::Relativizer;
use sophia_iri::resolve::BaseIri;
use sophia_iri::{Iri, IriRef};
use std::panic::{AssertUnwindSafe, catch_unwind};

/// Relativize `iri` against `base` (allowing `parents` leading `../`), and check that the outcome
/// * is produced without panicking,
/// * is either `None`, or an `IriRef` whose text is accepted by `IriRef::new` (RFC 3987 irelative-ref / IRI),
/// * and, when it is `Some(rel)`, that resolving `rel` against `base` gives `iri` back
///   (RFC 3986 section 5.2, as implemented by `BaseIri::resolve`).
///
/// Returns the text of the relative reference (or None).
fn check(base: &str, iri: &str, parents: u8) -> Option<String> {
    let b = BaseIri::new(base).expect("base is a valid IRI");
    let i = Iri::new(iri).expect("iri is a valid IRI");
    let relativizer = Relativizer::new(b.as_ref(), parents);
    let got = catch_unwind(AssertUnwindSafe(|| {
        relativizer.relativize(i).map(|r| r.as_str().to_string())
    }));
    let got = match got {
        Ok(got) => got,
        Err(_) => panic!(
            "relativize(<{iri}>) against <{base}> panicked (debug build: new_unchecked() found that the result is not an IRI reference)"
        ),
    };
    if let Some(rel) = &got {
        assert!(
            IriRef::new(rel.as_str()).is_ok(),
            "relativize(<{iri}>) against <{base}> returned IriRef({rel:?}), which is not an RFC 3987 IRI reference"
        );
        let back = b
            .resolve(rel.as_str())
            .unwrap_or_else(|e| panic!("<{base}> + {rel:?} can not be resolved: {e}"));
        assert_eq!(
            back.as_str(),
            iri,
            "relativize(<{iri}>) against <{base}> returned {rel:?}, which resolves to <{back}> instead"
        );
    }
    got
}

/// Expected: `./x:y`. Observed: `x:y`, an *absolute* IRI with scheme `x` (resolves to <x:y>).
#[test]
fn colon_in_first_segment() {
    for parents in 0..=2 {
        check("http://a/b/c", "http://a/b/x:y", parents);
    }
}

/// Same with a realistic IRI. Expected: `./urn:isbn:123`. Observed: `urn:isbn:123`.
#[test]
fn colon_in_first_segment_realistic() {
    for parents in 0..=2 {
        check("http://example.org/book/index", "http://example.org/book/urn:isbn:123", parents);
    }
}

/// Same below the (pseudo)root. Expected: `./x:y`. Observed: `x:y`.
#[test]
fn colon_in_first_segment_at_root() {
    for parents in 0..=2 {
        check("http://a/b", "http://a/x:y", parents);
    }
}

/// Expected: `./:x`. Observed: the wrapper IriRef(":x"), which is no IRI reference at all
/// (debug builds: panic in IriRef::new_unchecked; release builds: an IriRef that IriRef::new rejects).
#[test]
fn leading_colon() {
    for parents in 0..=2 {
        check("http://a/b/c", "http://a/b/:x", parents);
    }
}

/// Expected: `.//x`. Observed: `/x`, an absolute-path reference, i.e. <http://a/x>.
#[test]
fn leading_empty_segment() {
    for parents in 0..=2 {
        check("http://a/b/c", "http://a/b//x", parents);
    }
}

/// Expected: `.///x`. Observed: `//x`, a network-path reference, i.e. <http://x> (another authority).
#[test]
fn two_leading_empty_segments() {
    for parents in 0..=2 {
        check("http://a/b/c", "http://a/b///x", parents);
    }
}

/// Expected: `.//b`. Observed: `/b`, i.e. <http://a/b>.
#[test]
fn leading_empty_segment_at_root() {
    for parents in 0..=2 {
        check("http://a/", "http://a//b", parents);
    }
}
