//! Hunt C09, finding 4 -- drop into `iri/tests/hunt_C09_4.rs` and run
//!   cargo test -p sophia_iri --test hunt_C09_4 --offline
//!
//! When the path of the base is empty, Relativizer::relativize compares the IRI with the base
//! as plain strings and does not check that the *authority* of the IRI ends where the authority of the base ends:
//! an IRI with a longer host name, a port or a user-info is 'relativized' into a path of the base's host.
use sophia_iri::relativize::Relativizer;
use sophia_iri::resolve::BaseIri;
use sophia_iri::{Iri, IriRef};
use std::panic::{AssertUnwindSafe, catch_unwind};

/// Relativize `iri` against `base` (allowing `parents` leading `../`), and check that the outcome
/// * is produced without panicking,
/// * is either `None`, or an `IriRef` whose text is accepted by `IriRef::new` (RFC 3987 irelative-ref / IRI),
/// * and, when it is `Some(rel)`, that resolving `rel` against `base` gives `iri` back
///   (RFC 3986 section 5.2, as implemented by `BaseIri::resolve`).
///
/// Returns the text of the relative reference (or None).
fn check(base: &str, iri: &str, parents: u8) -> Option<String> {
    let b = BaseIri::new(base).expect("base is a valid IRI");
    let i = Iri::new(iri).expect("iri is a valid IRI");
    let relativizer = Relativizer::new(b.as_ref(), parents);
    let got = catch_unwind(AssertUnwindSafe(|| {
        relativizer.relativize(i).map(|r| r.as_str().to_string())
    }));
    let got = match got {
        Ok(got) => got,
        Err(_) => panic!(
            "relativize(<{iri}>) against <{base}> panicked (debug build: new_unchecked() found that the result is not an IRI reference)"
        ),
    };
    if let Some(rel) = &got {
        assert!(
            IriRef::new(rel.as_str()).is_ok(),
            "relativize(<{iri}>) against <{base}> returned IriRef({rel:?}), which is not an RFC 3987 IRI reference"
        );
        let back = b
            .resolve(rel.as_str())
            .unwrap_or_else(|e| panic!("<{base}> + {rel:?} can not be resolved: {e}"));
        assert_eq!(
            back.as_str(),
            iri,
            "relativize(<{iri}>) against <{base}> returned {rel:?}, which resolves to <{back}> instead"
        );
    }
    got
}

/// Expected: None (different authority, nothing in common but the scheme).
/// Observed: `b/`, i.e. <http://a/b/>.
#[test]
fn longer_host() {
    for parents in 0..=2 {
        assert_eq!(check("http://a?q", "http://ab/", parents), None);
    }
}

/// Expected: None. Observed: IriRef(":80/"), no IRI reference at all
/// (debug builds: panic in IriRef::new_unchecked; release builds: an IriRef that IriRef::new rejects).
#[test]
fn port() {
    for parents in 0..=2 {
        assert_eq!(check("http://a?q", "http://a:80/", parents), None);
    }
}

/// Expected: None. Observed: `.evil.com/`, i.e. <http://example.org/.evil.com/>.
#[test]
fn longer_host_no_query() {
    for parents in 0..=2 {
        assert_eq!(check("http://example.org", "http://example.org.evil.com/", parents), None);
    }
}

/// Expected: None. Observed: IriRef(":8080/x"), no IRI reference at all (panic in debug builds).
#[test]
fn port_no_query() {
    for parents in 0..=2 {
        assert_eq!(check("http://example.org", "http://example.org:8080/x", parents), None);
    }
}

/// Expected: None. Observed: `@evil.com/`, i.e. <http://example.org/@evil.com/>
/// (the IRI has host evil.com and user-info example.org).
#[test]
fn base_host_is_the_userinfo() {
    for parents in 0..=2 {
        assert_eq!(check("http://example.org#top", "http://example.org@evil.com/", parents), None);
    }
}

/// With the same authority, relativization has to keep working.
#[test]
fn same_authority() {
    assert_eq!(check("http://example.org", "http://example.org/x", 0).as_deref(), Some("/x"));
    assert_eq!(check("http://a?q", "http://a/x", 0).as_deref(), Some("/x"));
}
