//! Hunt C09, finding 2 -- drop into `iri/tests/hunt_C09_2.rs` and run
//!   cargo test -p sophia_iri --test hunt_C09_2 --offline
//!
//! When the base has a query and the IRI has the same path but no query, Relativizer::relativize
//! returns the empty reference (or just the fragment); resolving that keeps the query of the base
//! (RFC 3986 5.2.2: an empty path inherits the base's query), so the result denotes another resource.
use sophia_iri::relativize::Relativizer;
use sophia_iri::resolve::BaseIri;
use sophia_iri::{Iri, IriRef};
use std::panic::{AssertUnwindSafe, catch_unwind};

/// Relativize `iri` against `base` (allowing `parents` leading `../`), and check that the outcome
/// * is produced without panicking,
/// * is either `None`, or an `IriRef` whose text is accepted by `IriRef::new` (RFC 3987 irelative-ref / IRI),
/// * and, when it is `Some(rel)`, that resolving `rel` against `base` gives `iri` back
///   (RFC 3986 section 5.2, as implemented by `BaseIri::resolve`).
///
/// Returns the text of the relative reference (or None).
fn check(base: &str, iri: &str, parents: u8) -> Option<String> {
    let b = BaseIri::new(base).expect("base is a valid IRI");
    let i = Iri::new(iri).expect("iri is a valid IRI");
    let relativizer = Relativizer::new(b.as_ref(), parents);
    let got = catch_unwind(AssertUnwindSafe(|| {
        relativizer.relativize(i).map(|r| r.as_str().to_string())
    }));
    let got = match got {
        Ok(got) => got,
        Err(_) => panic!(
            "relativize(<{iri}>) against <{base}> panicked (debug build: new_unchecked() found that the result is not an IRI reference)"
        ),
    };
    if let Some(rel) = &got {
        assert!(
            IriRef::new(rel.as_str()).is_ok(),
            "relativize(<{iri}>) against <{base}> returned IriRef({rel:?}), which is not an RFC 3987 IRI reference"
        );
        let back = b
            .resolve(rel.as_str())
            .unwrap_or_else(|e| panic!("<{base}> + {rel:?} can not be resolved: {e}"));
        assert_eq!(
            back.as_str(),
            iri,
            "relativize(<{iri}>) against <{base}> returned {rel:?}, which resolves to <{back}> instead"
        );
    }
    got
}

/// Expected: `b` (the last segment has to be repeated to drop the query). Observed: ``, i.e. <http://a/b?q>.
#[test]
fn same_path_without_the_query() {
    for parents in 0..=2 {
        check("http://a/b?q", "http://a/b", parents);
    }
}

/// Expected: `b#f`. Observed: `#f`, i.e. <http://a/b?q#f>.
#[test]
fn same_path_without_the_query_with_fragment() {
    for parents in 0..=2 {
        check("http://a/b?q", "http://a/b#f", parents);
    }
}

/// Expected: `c`. Observed: ``, i.e. <http://a/b/c?q>.
#[test]
fn deeper_path() {
    for parents in 0..=2 {
        check("http://a/b/c?q#f", "http://a/b/c", parents);
    }
}

/// Expected: `./`. Observed: ``, i.e. <http://a/b/?q>.
#[test]
fn directory() {
    for parents in 0..=2 {
        check("http://a/b/?q", "http://a/b/", parents);
    }
}

/// Expected: `/` or None (no reference with an empty path can drop the query). Observed: ``, i.e. <http://a?q>.
#[test]
fn empty_path() {
    for parents in 0..=2 {
        check("http://a?q", "http://a", parents);
        check("http://a?q", "http://a#f", parents);
    }
}
