//! C13 / hunt2 / 3 -- a query whose dataset is given by FROM clauses only
//! (spargebra::algebra::QueryDataset { default: [..], named: None }) is evaluated,
//! but wrongly: the default graph is not the RDF *merge* of the FROM graphs
//! (a triple present in two of them yields duplicate solutions), and GRAPH ?g still
//! ranges over all the named graphs of the underlying dataset (the query dataset has none).
//!
//! Drop into `sparql/tests/hunt_C13_3.rs`, run with
//! `cargo test -p sophia_sparql --test hunt_C13_3 --offline`
//! (spargebra is a regular dependency of sophia_sparql, so the test can use it).
//!
//! `ExecState::new` (sparql/src/exec.rs) turns `query_dataset.default` into
//! `default_matcher = [g1, g2, ..]` and only rejects `named: Some(_)`.
//! The SPARQL *parser* of spargebra 0.3 always produces `named: Some(vec![])` when a FROM
//! is present, so parsed queries are (accidentally) all rejected with
//! "Not implemented: FROM NAMED" -- but `SparqlQuery: From<spargebra::Query>` is public API
//! and `named: None` is the documented way to say "no FROM NAMED".
//! The property requires either the algebra's answer or an explicit not-implemented error.

use sophia_api::prelude::*;
use sophia_api::sparql::SparqlResult;
use sophia_inmem::dataset::LightDataset;
use sophia_sparql::*;

const DATA: &str = r#"
    PREFIX : <tag:>
    GRAPH :g1 { :a :p :b . :a :p :d }
    GRAPH :g2 { :a :p :b . :x :p :y }
"#;

/// Parse `q` (which contains FROM clauses), and state that it has no FROM NAMED clause.
fn from_only(q: &str) -> SparqlQuery<LightDataset> {
    let mut ast = spargebra::Query::parse(q, None).unwrap();
    match &mut ast {
        spargebra::Query::Select { dataset, .. } | spargebra::Query::Ask { dataset, .. } => {
            let qd = dataset.as_mut().expect("query has a FROM clause");
            assert!(!qd.default.is_empty());
            assert!(qd.named.as_ref().is_none_or(Vec::is_empty));
            qd.named = None;
        }
        _ => unreachable!(),
    }
    SparqlQuery::from(ast)
}

/// Returns Ok(sorted rows), or Err(()) if the engine says "not implemented"
fn rows(q: &str) -> Result<Vec<String>, ()> {
    let dataset: LightDataset = sophia_turtle::parser::trig::parse_str(DATA)
        .collect_quads()
        .unwrap();
    let dataset = SparqlWrapper(&dataset);
    match dataset.query(&from_only(q)) {
        Err(SparqlWrapperError::NotImplemented(_)) => Err(()),
        Err(other) => panic!("unexpected error {other}"),
        Ok(SparqlResult::Bindings(b)) => {
            let mut rows: Vec<String> = b
                .into_iter()
                .map(|r| {
                    r.unwrap()
                        .into_iter()
                        .map(|t| t.map(|t| t.to_string()).unwrap_or_default())
                        .collect::<Vec<_>>()
                        .join(" ")
                })
                .collect();
            rows.sort();
            Ok(rows)
        }
        Ok(_) => unreachable!(),
    }
}

#[test]
fn shared_triple_is_counted_once() {
    // expected: the default graph is the merge (set union) of :g1 and :g2, in which
    // :a :p :b occurs once: one solution -- or an explicit not-implemented error
    if let Ok(rows) = rows("PREFIX : <tag:> SELECT ?s FROM :g1 FROM :g2 { ?s :p :b }") {
        assert_eq!(rows, vec!["<tag:a>"]);
    }
}

#[test]
fn merge_has_three_triples() {
    // expected: 3 solutions (a-b, a-d, x-y) -- or an explicit not-implemented error
    if let Ok(rows) = rows("PREFIX : <tag:> SELECT ?s ?o FROM :g1 FROM :g2 { ?s :p ?o }") {
        assert_eq!(
            rows,
            vec!["<tag:a> <tag:b>", "<tag:a> <tag:d>", "<tag:x> <tag:y>"]
        );
    }
}

#[test]
fn no_from_named_means_no_named_graph() {
    // expected: a query dataset built from FROM clauses only has no named graph,
    // so GRAPH ?g { } has no solution -- or an explicit not-implemented error
    if let Ok(rows) = rows("PREFIX : <tag:> SELECT ?g FROM :g1 { GRAPH ?g { } }") {
        assert_eq!(rows, Vec::<String>::new());
    }
}
