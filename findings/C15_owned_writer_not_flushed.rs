//! Drop into `turtle/tests/hunt_C15_2.rs`, run with
//! `cargo test -p sophia_turtle --test hunt_C15_2 --offline`.
//!
//! Property C15: a sink fault (writer I/O error) at ANY position - including the last one -
//! must be reported as `SinkError` carrying the writer's error.
//!
//! The serializers take their writer BY VALUE, keep it in a private field and offer no way to
//! get it back (`into_inner`, `get_mut`, `flush`, ... do not exist). Their documentation says
//! "in most cases, they should be passed a BufWriter", and the examples of the repository
//! (sophia/examples/parse.rs, serialize.rs) do `NtSerializer::new(BufWriter::new(stdout()))`.
//! `NtSerializer` and `NqSerializer` (and `JsonLdSerializer` in sophia_jsonld) never flush
//! that writer: whatever is still in the buffer when `serialize_*` returns is written by
//! `BufWriter::drop`, which discards the error. So the fault that hits the last (or, for an
//! output smaller than the buffer, the only) physical write is never reported: `serialize_*`
//! returns `Ok`, the program exits with status 0, the file is empty or truncated.
//! The siblings do flush: Turtle and TriG (both modes: `prettify` calls `write.flush()`,
//! rio's `finish()` calls `flush()`) and RDF/XML report the same fault as `SinkError`.

use sophia_api::prelude::*;
use sophia_api::source::StreamError;
use sophia_api::term::SimpleTerm;
use sophia_turtle::serializer::{
    nq::NqSerializer,
    nt::NtSerializer,
    trig::TrigSerializer,
    turtle::{TurtleConfig, TurtleSerializer},
};
use std::io::{self, BufWriter, Write};
use std::sync::{Arc, Mutex};

/// A device with room for `capacity` bytes; it remembers what it has accepted.
#[derive(Clone, Default)]
struct Disk {
    received: Arc<Mutex<Vec<u8>>>,
    capacity: usize,
}
impl Write for Disk {
    fn write(&mut self, buf: &[u8]) -> io::Result<usize> {
        let mut r = self.received.lock().unwrap();
        if r.len() + buf.len() > self.capacity {
            return Err(io::Error::new(io::ErrorKind::StorageFull, "disk full"));
        }
        r.extend_from_slice(buf);
        Ok(buf.len())
    }
    fn flush(&mut self) -> io::Result<()> {
        Ok(())
    }
}

fn graph() -> Vec<[SimpleTerm<'static>; 3]> {
    sophia_turtle::parser::nt::parse_str(
        "<http://e/s> <http://e/p> <http://e/o> .\n<http://e/s> <http://e/p> \"x\" .\n",
    )
    .collect_triples()
    .unwrap()
}

fn is_disk_full<T, E: std::error::Error>(r: &Result<T, StreamError<E, io::Error>>) -> bool {
    matches!(r, Err(StreamError::SinkError(e)) if e.kind() == io::ErrorKind::StorageFull)
}

/// Expected: Err(SinkError(StorageFull)) - the 78 bytes of the document do not fit in 10.
/// Observed: Ok, and the disk has received 0 byte.
#[test]
fn nt_serializer_reports_the_fault_of_the_last_write() {
    let g = graph();
    let disk = Disk { capacity: 10, ..Default::default() };
    let mut ser = NtSerializer::new(BufWriter::new(disk.clone()));
    let res = ser.serialize_graph(&g).map(|_| ());
    drop(ser);
    let received = disk.received.lock().unwrap().len();
    assert!(is_disk_full(&res), "serialize_graph returned {res:?}; the disk received {received} bytes");
}

/// Expected: Err(SinkError(StorageFull)).
/// Observed: Ok, and the disk has received 0 byte.
#[test]
fn nq_serializer_reports_the_fault_of_the_last_write() {
    let g = graph();
    let disk = Disk { capacity: 10, ..Default::default() };
    let mut ser = NqSerializer::new(BufWriter::new(disk.clone()));
    let res = ser.serialize_dataset(&g.as_dataset()).map(|_| ());
    drop(ser);
    let received = disk.received.lock().unwrap().len();
    assert!(is_disk_full(&res), "serialize_dataset returned {res:?}; the disk received {received} bytes");
}

/// A bigger output: 1000 triples = 44 kB, the disk lacks one byte. Every write but the last
/// one succeeds; the last one is issued by `BufWriter::drop`.
/// Expected: Err(SinkError(StorageFull)). Observed: Ok, truncated file.
#[test]
fn nt_serializer_big_output_fault_in_the_tail() {
    let nt: String = (0..1000).map(|i| format!("<http://e/s{i:04}> <http://e/p> <http://e/o> .\n")).collect();
    let g: Vec<[SimpleTerm<'static>; 3]> = sophia_turtle::parser::nt::parse_str(&nt).collect_triples().unwrap();
    let expected = NtSerializer::new_stringifier().serialize_graph(&g).unwrap().to_string();
    let disk = Disk { capacity: expected.len() - 1, ..Default::default() };
    let mut ser = NtSerializer::new(BufWriter::new(disk.clone()));
    let res = ser.serialize_graph(&g).map(|_| ());
    drop(ser);
    let received = disk.received.lock().unwrap().len();
    assert!(received < expected.len());
    assert!(is_disk_full(&res), "serialize_graph returned {res:?}; the disk received {received} of {} bytes", expected.len());
}

/// Control (passes): the sibling serializers of the same crate report the same fault.
#[test]
fn control_turtle_and_trig_report_it() {
    let g = graph();
    for pretty in [false, true] {
        let disk = Disk { capacity: 10, ..Default::default() };
        let config = TurtleConfig::new().with_pretty(pretty);
        let mut ser = TurtleSerializer::new_with_config(BufWriter::new(disk.clone()), config.clone());
        assert!(is_disk_full(&ser.serialize_graph(&g).map(|_| ())));
        let mut ser = TrigSerializer::new_with_config(BufWriter::new(disk.clone()), config);
        assert!(is_disk_full(&ser.serialize_dataset(&g.as_dataset()).map(|_| ())));
    }
}
