//! Property C01 - a pattern query returns exactly the matching quads,
//! and the lightly and heavily indexed datasets agree with one another.
//!
//! Drop this file in `inmem/tests/hunt_C01_2.rs` and run
//! `cargo test -p sophia_inmem --test hunt_C01_2 --offline`.
//!
//! `GenericLightDataset::quads_matching`, in the branch "graph name is constant, subject is not",
//! scans the range
//!     [g, ZERO, ZERO, ZERO] ..= [g, MAX, MAX, ZERO]      <-- last component should be MAX
//! Every other range of `inmem/src/dataset.rs` and `inmem/src/graph.rs` ends with `MAX` in all free positions.
//! With the shipped `SimpleTermIndex` the mistake is masked, because that index happens never to
//! give the value `MAX` to a term. But `GenericLightDataset<TI>` is generic over the public traits
//! `TermIndex`/`GraphNameIndex`, whose contract only says that the default-graph index is never given to a term.
//! A perfectly conforming term index that uses `MAX` for a term makes quads disappear from the result
//! (`GenericFastDataset` over the very same index is correct).
use std::convert::Infallible;

use sophia_api::dataset::{Dataset, MutableDataset};
use sophia_api::term::matcher::Any;
use sophia_api::term::{FromTerm, IriRef, SimpleTerm, Term};
use sophia_inmem::dataset::{GenericFastDataset, GenericLightDataset};
use sophia_inmem::index::{GraphNameIndex, TermIndex};

type ST = SimpleTerm<'static>;

/// A straightforward term index: the n-th distinct term gets index `u16::MAX - n`,
/// and `0` is reserved for the default graph (so it is never given to a term).
/// It satisfies everything that the documentation of `TermIndex` and `GraphNameIndex` requires.
#[derive(Debug, Default)]
struct DescendingIndex(Vec<ST>);

impl TermIndex for DescendingIndex {
    type Term = ST;
    type Index = u16;
    type Error = Infallible;

    fn get_index<T: Term>(&self, t: T) -> Option<u16> {
        self.0
            .iter()
            .position(|x| Term::eq(x, t.borrow_term()))
            .map(|n| u16::MAX - n as u16)
    }
    fn ensure_index<T: Term>(&mut self, t: T) -> Result<u16, Infallible> {
        if let Some(i) = self.get_index(t.borrow_term()) {
            return Ok(i);
        }
        assert!(self.0.len() < u16::MAX as usize);
        self.0.push(ST::from_term(t));
        Ok(u16::MAX - (self.0.len() - 1) as u16)
    }
    fn get_term(&self, i: u16) -> &ST {
        &self.0[(u16::MAX - i) as usize]
    }
}

impl GraphNameIndex for DescendingIndex {
    fn get_default_graph_index(&self) -> u16 {
        0
    }
}

fn i(s: &'static str) -> ST {
    SimpleTerm::Iri(IriRef::new_unchecked(s.into()))
}

const DEFAULT: Option<ST> = None;

/// Expected: the only quad of the dataset is in the default graph,
/// so asking for "everything in the default graph" returns it.
#[test]
fn light_dataset_returns_all_the_quads_of_a_graph() {
    let mut d = GenericLightDataset::<DescendingIndex>::new();
    // x:a is the first term => index MAX; used as subject and predicate
    assert!(d.insert(i("x:a"), i("x:a"), i("x:b"), DEFAULT).unwrap());
    assert_eq!(d.quads().count(), 1);
    assert!(d.contains(i("x:a"), i("x:a"), i("x:b"), DEFAULT).unwrap());

    let got = d.quads_matching(Any, Any, Any, [DEFAULT]).count();
    assert_eq!(got, 1, "quads_matching(Any, Any, Any, [default graph]) lost the quad");
}

/// Expected: same history, same query => same answer from the light and from the fast dataset,
/// and remove_matching removes what is there.
#[test]
fn light_and_fast_dataset_agree() {
    let mut l = GenericLightDataset::<DescendingIndex>::new();
    let mut f = GenericFastDataset::<DescendingIndex>::new();
    for g in [None, Some(i("x:g"))] {
        l.insert(i("x:a"), i("x:a"), i("x:b"), g.clone()).unwrap();
        f.insert(i("x:a"), i("x:a"), i("x:b"), g.clone()).unwrap();
        l.insert(i("x:b"), i("x:a"), i("x:a"), g.clone()).unwrap();
        f.insert(i("x:b"), i("x:a"), i("x:a"), g.clone()).unwrap();
    }
    for g in [None, Some(i("x:g"))] {
        let nl = l.quads_matching(Any, Any, Any, [g.clone()]).count();
        let nf = f.quads_matching(Any, Any, Any, [g.clone()]).count();
        assert_eq!(nf, 2);
        assert_eq!(nl, nf, "light and fast dataset disagree for graph {g:?}");
    }
    let nl = l.remove_matching(Any, Any, Any, [DEFAULT]).unwrap();
    let nf = f.remove_matching(Any, Any, Any, [DEFAULT]).unwrap();
    assert_eq!((nl, nf), (2, 2), "remove_matching(default graph) (light, fast)");
}
