use sophia_api::prelude::*;
use sophia_api::sparql::{SparqlDataset, SparqlResult};
use sophia_api::term::SimpleTerm;
use sophia_api::ns::xsd;
use sophia_inmem::dataset::LightDataset;
use sophia_sparql::SparqlWrapper;

fn count_with(lex: &str) -> usize {
    let mut d = LightDataset::new();
    let lit = SimpleTerm::LiteralDatatype(lex.to_string().into(), xsd::dateTime.iri().unwrap().map_unchecked(|m| m.to_string().into()));
    d.insert(Iri::new_unchecked("tag:s"), Iri::new_unchecked("tag:p"), lit, None as Option<Iri<&str>>).unwrap();
    let w = SparqlWrapper(&d);
    match w.query("SELECT ?o { ?s ?p ?o FILTER(?o < \"2100-01-01T00:00:00\"^^<http://www.w3.org/2001/XMLSchema#dateTime>) }") {
        Ok(SparqlResult::Bindings(b)) => b.into_iter().count(),
        _ => panic!("unexpected"),
    }
}
#[test]
fn arabic_indic_digit_in_seconds() { assert_eq!(count_with("2000-01-01T00:00:0\u{0660}"), 0); }
#[test]
fn arabic_indic_digits_in_month() { assert_eq!(count_with("2000-\u{0660}\u{0661}-01T00:00:00"), 0); }
#[test]
fn arabic_indic_digits_in_year() { assert_eq!(count_with("\u{0662}\u{0660}\u{0660}\u{0660}-01-01T00:00:00"), 0); }
#[test]
fn arabic_indic_digits_in_fraction() { assert_eq!(count_with("2000-01-01T00:00:00.\u{0661}"), 0); }
