//! Property C13 - "GRAPH with a constant or variable name ... nothing spurious".
//!
//! Drop this file in `sparql/tests/hunt_C13_5.rs` and run
//! `cargo test -p sophia_sparql --test hunt_C13_5 --offline`.
//!
//! SPARQL 1.1, 18.6 "Evaluation of a Graph Pattern":
//!   eval(D(G), Graph(IRI, P)) = eval(D(D[IRI]), P)  if IRI is a graph name in D
//!   eval(D(G), Graph(IRI, P)) = the empty multiset   if IRI is NOT a graph name in D
//!   eval(D(G), Graph(?v,  P)) = the union, over the graph names of D, of join(eval(D(D[name]), P), {?v -> name})
//! so GRAPH <absent> { P } has no solution whatever P is, and GRAPH ?g { P } has no solution on a
//! dataset without named graph.
//!
//! In sparql/src/exec.rs, `graph()` just evaluates the inner pattern with the graph name as
//! "graph matcher" (or with the empty matcher `&[]` when there is no named graph at all). That only
//! filters *triple patterns*; an inner pattern that can produce a solution without matching a triple
//! (the empty group `{}`, `{ BIND(..) }`, `{ FILTER(..) }`, `{ FILTER NOT EXISTS {..} }`) yields its
//! solution for a graph that does not exist.
use sophia_api::prelude::*;
use sophia_api::sparql::{Query, SparqlDataset, SparqlResult};
use sophia_inmem::dataset::LightDataset;
use sophia_sparql::{SparqlQuery, SparqlWrapper};

const PROLOGUE: &str = "PREFIX : <tag:> PREFIX xsd: <http://www.w3.org/2001/XMLSchema#> ";

#[allow(dead_code)]
fn dataset(trig: &str) -> LightDataset {
    sophia_turtle::parser::trig::parse_str(&format!("{PROLOGUE}{trig}"))
        .collect_quads()
        .expect("test data must parse")
}

/// Run a SELECT query; every row is rendered as "var=term var=term ..." (UNDEF for unbound),
/// and the rows are sorted, so that the result can be compared as a multiset.
#[allow(dead_code)]
fn select<D: Dataset>(d: &D, query: &str) -> Result<Vec<String>, String> {
    let query = SparqlQuery::parse(&format!("{PROLOGUE}{query}")).map_err(|e| e.to_string())?;
    let res = SparqlWrapper(d).query(&query).map_err(|e| e.to_string())?;
    let SparqlResult::Bindings(bindings) = res else {
        return Err("not a SELECT query".into());
    };
    let vars: Vec<String> = bindings.variables().iter().map(|v| (*v).to_string()).collect();
    let mut rows = vec![];
    for row in bindings {
        let row = row.map_err(|e| e.to_string())?;
        let cells: Vec<String> = vars
            .iter()
            .zip(row.iter())
            .map(|(v, t)| match t {
                Some(t) => format!("{v}={t}"),
                None => format!("{v}=UNDEF"),
            })
            .collect();
        rows.push(cells.join(" "));
    }
    rows.sort();
    Ok(rows)
}

/// Run an ASK query.
#[allow(dead_code)]
fn ask<D: Dataset>(d: &D, query: &str) -> Result<bool, String> {
    let query = SparqlQuery::parse(&format!("{PROLOGUE}{query}")).map_err(|e| e.to_string())?;
    match SparqlWrapper(d).query(&query).map_err(|e| e.to_string())? {
        SparqlResult::Boolean(b) => Ok(b),
        _ => Err("not an ASK query".into()),
    }
}

const DATA: &str = r#"
:s :p :o .
GRAPH :g1 { :a :b :c }
"#;

/// Expected: :nowhere is not a graph name of the dataset => false.
/// Observed: true (while `ASK { GRAPH :nowhere { ?s ?p ?o } }` is, rightly, false).
#[test]
fn ask_empty_group_in_absent_graph() {
    let d = dataset(DATA);
    assert_eq!(ask(&d, "ASK { GRAPH :nowhere { ?s ?p ?o } }"), Ok(false));
    assert_eq!(ask(&d, "ASK { GRAPH :g1 {} }"), Ok(true));
    assert_eq!(ask(&d, "ASK { GRAPH :nowhere {} }"), Ok(false));
}

/// Expected: no solution. Observed: one solution ?x = 1.
#[test]
fn bind_in_absent_graph() {
    let d = dataset(DATA);
    assert_eq!(
        select(&d, "SELECT * { GRAPH :nowhere { BIND(1 AS ?x) } }"),
        Ok(vec![])
    );
}

/// Expected: "the graph :nowhere does not contain :a :b :c" is not a way to make a graph exist:
/// no solution. Observed: one (empty) solution.
#[test]
fn not_exists_in_absent_graph() {
    let d = dataset(DATA);
    assert_eq!(
        ask(
            &d,
            "ASK { GRAPH :nowhere { FILTER NOT EXISTS { :a :b :c } } }"
        ),
        Ok(false)
    );
}

/// Expected: one solution per *named graph*; a dataset with a default graph only has none,
/// so GRAPH ?g {} has no solution. Observed: one solution, in which ?g is not even bound.
#[test]
fn graph_variable_without_named_graph() {
    let d = dataset(":s :p :o .");
    assert_eq!(select(&d, "SELECT ?g { GRAPH ?g {} }"), Ok(vec![]));
    assert_eq!(ask(&d, "ASK { GRAPH ?g {} }"), Ok(false));
    assert_eq!(
        select(&d, "SELECT * { GRAPH ?g { BIND(1 AS ?x) } }"),
        Ok(vec![])
    );
    // sanity check: with named graphs, the engine enumerates them
    let d = dataset(DATA);
    assert_eq!(
        select(&d, "SELECT ?g { GRAPH ?g {} }"),
        Ok(vec!["g=<tag:g1>".to_string()])
    );
}
