//! Hunt C20 / 2 -- drop into `sparql/tests/hunt_C20_2.rs`, run with
//! `cargo test -p sophia_sparql --test hunt_C20_2 --offline`
//!
//! Property C20: every f64 used as a term is a literal whose lexical form is
//! valid for xsd:double (INF, -INF, NaN for the non-finite values).
//!
//! `<f64 as Term>::lexical_form` was repaired (it used to give "inf"), but its
//! sibling in the SPARQL engine was not: `SparqlValue::lexical_form`
//! (sparql/src/value.rs) turns the native f64 / f32 of a computed number into a
//! term with `format!("{d:e}")`, and LowerExp prints infinities as "inf" / "-inf".
//! Every query whose arithmetic overflows therefore returns an ill-typed literal
//! `"inf"^^xsd:double` (resp. xsd:float), which no conforming consumer can read
//! back, and which is not even term-equal to `f64::INFINITY` used as a term.
#![allow(non_snake_case)]

use sophia_api::prelude::*;
use sophia_api::sparql::*;
use sophia_sparql::*;

/// evaluates `SELECT (<expr> AS ?x) {}` and returns (lexical form, datatype) of ?x
fn eval(expr: &str) -> (String, String) {
    let dataset: Vec<[i32; 4]> = vec![];
    let dataset = SparqlWrapper(&dataset);
    let query = SparqlQuery::parse(&format!(
        "PREFIX xsd: <http://www.w3.org/2001/XMLSchema#> SELECT ({expr} AS ?x) {{}}"
    ))
    .unwrap();
    let bindings = dataset.query(&query).unwrap().into_bindings();
    let b = bindings
        .into_iter()
        .next()
        .expect("one solution")
        .unwrap();
    let x = b[0].as_ref().expect("?x is bound");
    (
        x.lexical_form().unwrap().to_string(),
        x.datatype().unwrap().as_str().to_string(),
    )
}

const XSD_DOUBLE: &str = "http://www.w3.org/2001/XMLSchema#double";
const XSD_FLOAT: &str = "http://www.w3.org/2001/XMLSchema#float";

/// lexical space of xsd:double / xsd:float for non finite values: INF, +INF, -INF, NaN
#[test]
fn double_overflow_is_INF() {
    let (lex, dt) = eval("1e308 * 10");
    assert_eq!(dt, XSD_DOUBLE);
    assert_eq!(lex, "INF", "lexical form of positive infinity in xsd:double");
}

#[test]
fn double_negative_overflow_is_minus_INF() {
    let (lex, dt) = eval("-1e308 * 10");
    assert_eq!(dt, XSD_DOUBLE);
    assert_eq!(lex, "-INF", "lexical form of negative infinity in xsd:double");
}

#[test]
fn division_by_zero_double_is_INF() {
    let (lex, dt) = eval("1 / 0e0");
    assert_eq!(dt, XSD_DOUBLE);
    assert_eq!(lex, "INF");
}

#[test]
fn float_overflow_is_INF() {
    let (lex, dt) = eval("\"1e38\"^^xsd:float * 10");
    assert_eq!(dt, XSD_FLOAT);
    assert_eq!(lex, "INF", "lexical form of positive infinity in xsd:float");
}

/// the computed infinity must be the same term as the native value used as a term
#[test]
fn computed_infinity_equals_native_infinity_term() {
    let (lex, _) = eval("1e308 * 10");
    assert_eq!(lex, f64::INFINITY.lexical_form().unwrap().to_string());
}

/// control: NaN and finite values are fine
#[test]
fn control_nan_and_finite() {
    assert_eq!(eval("1e308 * 10 - 1e308 * 10").0, "NaN");
    assert_eq!(eval("4.2e1").0, "4.2e1");
}
