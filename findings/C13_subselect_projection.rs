//! Property C13 - "projection ... equals the one defined by the SPARQL 1.1 algebra",
//! "variables bound by an outer GRAPH".
//!
//! Drop this file in `sparql/tests/hunt_C13_2.rs` and run
//! `cargo test -p sophia_sparql --test hunt_C13_2 --offline`.
//!
//! `ExecState::project` (sparql/src/exec.rs) only replaces the *list of column names* of the result;
//! the solutions themselves keep every variable of the inner pattern, and the bindings received from
//! the context (GRAPH ?g, EXISTS) are passed unchanged into the sub-select.
//! So a sub-select `{ SELECT ?s { ?s :p ?o } }` does not hide `?o`:
//!  * an outer FILTER / BIND / ORDER BY sees the hidden variable (spurious solutions, spurious values);
//!  * an outer `GRAPH ?g` pre-binds a variable of the same name that is *local* to the sub-select
//!    (missing solutions).
//! (SPARQL 1.1, 18.2.1 "variable scope" and 18.5 Project: the only variables in-scope out of a
//! sub-select are the projected ones; 18.6: eval(Graph(?g, P)) = join(eval(D[name], P), {?g -> name}).)
use sophia_api::prelude::*;
use sophia_api::sparql::{Query, SparqlDataset, SparqlResult};
use sophia_inmem::dataset::LightDataset;
use sophia_sparql::{SparqlQuery, SparqlWrapper};

const PROLOGUE: &str = "PREFIX : <tag:> PREFIX xsd: <http://www.w3.org/2001/XMLSchema#> ";

#[allow(dead_code)]
fn dataset(trig: &str) -> LightDataset {
    sophia_turtle::parser::trig::parse_str(&format!("{PROLOGUE}{trig}"))
        .collect_quads()
        .expect("test data must parse")
}

/// Run a SELECT query; every row is rendered as "var=term var=term ..." (UNDEF for unbound),
/// and the rows are sorted, so that the result can be compared as a multiset.
#[allow(dead_code)]
fn select<D: Dataset>(d: &D, query: &str) -> Result<Vec<String>, String> {
    let query = SparqlQuery::parse(&format!("{PROLOGUE}{query}")).map_err(|e| e.to_string())?;
    let res = SparqlWrapper(d).query(&query).map_err(|e| e.to_string())?;
    let SparqlResult::Bindings(bindings) = res else {
        return Err("not a SELECT query".into());
    };
    let vars: Vec<String> = bindings.variables().iter().map(|v| (*v).to_string()).collect();
    let mut rows = vec![];
    for row in bindings {
        let row = row.map_err(|e| e.to_string())?;
        let cells: Vec<String> = vars
            .iter()
            .zip(row.iter())
            .map(|(v, t)| match t {
                Some(t) => format!("{v}={t}"),
                None => format!("{v}=UNDEF"),
            })
            .collect();
        rows.push(cells.join(" "));
    }
    rows.sort();
    Ok(rows)
}

/// Run an ASK query.
#[allow(dead_code)]
fn ask<D: Dataset>(d: &D, query: &str) -> Result<bool, String> {
    let query = SparqlQuery::parse(&format!("{PROLOGUE}{query}")).map_err(|e| e.to_string())?;
    match SparqlWrapper(d).query(&query).map_err(|e| e.to_string())? {
        SparqlResult::Boolean(b) => Ok(b),
        _ => Err("not an ASK query".into()),
    }
}

const DATA: &str = r#"
:s :p :o1, :o2 .
:s2 :p :o1 .
GRAPH :g1 { :a :b :c . :a :b :g1 }
GRAPH :g2 { :a :b :d }
"#;

/// Expected: ?o is not projected by the sub-select, hence it is unbound for the outer FILTER:
/// bound(?o) is false for every solution => no result.
/// Observed: the three solutions of the sub-select pass the filter.
#[test]
fn outer_filter_does_not_see_hidden_variable() {
    let d = dataset(DATA);
    assert_eq!(
        select(&d, "SELECT * { { SELECT ?s { ?s :p ?o } } FILTER(bound(?o)) }"),
        Ok(vec![])
    );
}

/// Expected: ?x is unbound in the three solutions (BIND(?o AS ?x) with ?o out of scope is an error).
/// Observed: ?x is bound to the value that ?o had inside the sub-select.
#[test]
fn outer_bind_does_not_see_hidden_variable() {
    let d = dataset(DATA);
    assert_eq!(
        select(&d, "SELECT ?s ?x { { SELECT ?s { ?s :p ?o } } BIND(?o AS ?x) }"),
        Ok(vec![
            "s=<tag:s2> x=UNDEF".to_string(),
            "s=<tag:s> x=UNDEF".to_string(),
            "s=<tag:s> x=UNDEF".to_string(),
        ])
    );
}

/// Expected: ASK is false, for the same reason.
#[test]
fn ask_with_hidden_variable() {
    let d = dataset(DATA);
    assert_eq!(
        ask(&d, "ASK { { SELECT ?s { ?s :p ?o } } FILTER(?o = :o2) }"),
        Ok(false)
    );
}

/// Expected: inside the sub-select, ?g is a local (non projected) variable, unrelated to the ?g of
/// GRAPH ?g; the sub-select yields ?s=:a twice in :g1 and once in :g2, and each solution is
/// joined with ?g = name of the graph: 3 solutions.
/// Observed: ?g is pre-bound to the graph name inside the sub-select, only `:a :b :g1` matches.
#[test]
fn outer_graph_variable_does_not_constrain_local_variable_of_subselect() {
    let d = dataset(DATA);
    assert_eq!(
        select(&d, "SELECT ?g ?s { GRAPH ?g { SELECT ?s { ?s :b ?g } } }"),
        Ok(vec![
            "g=<tag:g1> s=<tag:a>".to_string(),
            "g=<tag:g1> s=<tag:a>".to_string(),
            "g=<tag:g2> s=<tag:a>".to_string(),
        ])
    );
    // sanity check: this is what the engine answers when the local variable has another name
    assert_eq!(
        select(&d, "SELECT ?g ?s { GRAPH ?g { SELECT ?s { ?s :b ?x } } }")
            .unwrap()
            .len(),
        3
    );
}
