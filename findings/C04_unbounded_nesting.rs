//! C04 hunt, violation 2 -- drop into `turtle/tests/hunt_C04_2.rs`, run with
//! `cargo test -p sophia_turtle --test hunt_C04_2 --offline`
//! (and `... -- --ignored deep_chain_overflows_the_stack` for the process abort)
//!
//! The pretty serializer nests `[ ... ]` (and `( ... )`) without any bound:
//! a chain of blank nodes `_:b0 :next _:b1. _:b1 :next _:b2. ...` is written as
//! `[] :next [ :next [ :next [ ...`, one level per node.
//!  (a) As soon as there are more than 128 levels, the document can not be read back by
//!      sophia's own Turtle/TriG parser (rio_turtle refuses "more than 128 nested constructions"),
//!      so a plain 130-triple chain does not round-trip in pretty mode.
//!  (b) `write_bnode -> write_properties -> write_object -> write_node -> write_term -> write_bnode`
//!      is a genuine recursion: a chain of a few thousand nodes (about 3000 in a debug build,
//!      about 15000 in a release build, with an 8 MiB stack) overflows the stack and the whole
//!      process is aborted (SIGABRT) instead of a document being produced.
//!
//! Expected (property C04): for every finite dataset the pretty output is a valid document
//! whose parse is isomorphic to the input.

use sophia_api::prelude::*;
use sophia_api::term::{BnodeId, SimpleTerm};
use sophia_iri::IriRef;
use sophia_isomorphism::isomorphic_graphs;
use sophia_turtle::parser::turtle;
use sophia_turtle::serializer::turtle::{TurtleConfig, TurtleSerializer};

type MyTerm = SimpleTerm<'static>;
type MyGraph = Vec<[MyTerm; 3]>;

fn iri(s: &str) -> MyTerm {
    SimpleTerm::Iri(IriRef::new_unchecked(s.to_string().into()))
}

fn bnode(i: usize) -> MyTerm {
    SimpleTerm::BlankNode(BnodeId::new_unchecked(format!("b{i}").into()))
}

/// `_:b0 :next _:b1. _:b1 :next _:b2. ... ` (n triples)
fn chain(n: usize) -> MyGraph {
    let next = iri("http://example.org/ns/next");
    (0..n)
        .map(|i| [bnode(i), next.clone(), bnode(i + 1)])
        .collect()
}

fn serialize(g: &MyGraph, pretty: bool) -> String {
    // indentation "" keeps the output linear in the size of the input
    // (with the default indentation, each level adds 4 more spaces to every following line)
    let config = TurtleConfig::new()
        .with_pretty(pretty)
        .with_indentation("");
    TurtleSerializer::new_stringifier_with_config(config)
        .serialize_triples(g.triples())
        .unwrap()
        .to_string()
}

fn roundtrip(g1: &MyGraph, pretty: bool) {
    let out = serialize(g1, pretty);
    let g2: MyGraph = turtle::parse_str(&out)
        .collect_triples()
        .expect("the output of the serializer must be accepted by the parser");
    assert_eq!(g1.len(), g2.len());
    assert!(isomorphic_graphs(g1, &g2).unwrap());
}

/// Expected: the graph round-trips. Observed: the parser rejects the pretty output with
/// `TurtleError { kind: StackOverflow, .. }` ("more than 128 nested constructions").
#[test]
fn chain_of_130_blank_nodes() {
    roundtrip(&chain(130), true);
}

/// A more "real life" shape: a 150 item linked list whose nodes carry an extra property,
/// so that the `( )` syntax can not be used and every node is written as `[ ...; rdf:rest [ ...`.
/// Expected: round-trips. Observed: same parser error as above.
#[test]
fn annotated_list_of_150_items() {
    let first = iri("http://www.w3.org/1999/02/22-rdf-syntax-ns#first");
    let rest = iri("http://www.w3.org/1999/02/22-rdf-syntax-ns#rest");
    let nil = iri("http://www.w3.org/1999/02/22-rdf-syntax-ns#nil");
    let index = iri("http://example.org/ns/index");
    let xsd_integer = "http://www.w3.org/2001/XMLSchema#integer";
    let n = 150;
    let mut g: MyGraph = vec![[iri("http://example.org/ns/s"), iri("http://example.org/ns/items"), bnode(0)]];
    for i in 0..n {
        let lit = SimpleTerm::LiteralDatatype(
            format!("{i}").into(),
            IriRef::new_unchecked(xsd_integer.to_string().into()),
        );
        g.push([bnode(i), first.clone(), iri(&format!("http://example.org/ns/item{i}"))]);
        g.push([bnode(i), index.clone(), lit]);
        g.push([bnode(i), rest.clone(), if i + 1 < n { bnode(i + 1) } else { nil.clone() }]);
    }
    roundtrip(&g, true);
}

/// Control: 100 levels are fine, and the streaming mode does not nest anything.
#[test]
fn control_short_chain_and_streaming_mode() {
    roundtrip(&chain(100), true);
    roundtrip(&chain(130), false);
    roundtrip(&chain(400), false);
}

/// Expected: a document (or at least an `Err`). Observed: the recursion of the prettifier
/// overflows an 8 MiB stack (the usual size of a main thread; test threads only have 2 MiB)
/// and the process dies with SIGABRT:
/// `thread '<unknown>' has overflowed its stack / fatal runtime error: stack overflow`.
/// Ignored by default because it kills the test harness (and takes about a minute in a debug build,
/// the prettifier being quadratic); run it with `-- --ignored`.
#[test]
#[ignore]
fn deep_chain_overflows_the_stack() {
    let g = chain(3000);
    let out = std::thread::Builder::new()
        .stack_size(8 * 1024 * 1024)
        .spawn(move || serialize(&g, true))
        .unwrap()
        .join()
        .unwrap();
    assert!(!out.is_empty());
}
