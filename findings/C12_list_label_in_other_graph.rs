use sophia::api::prelude::*;
use sophia::api::term::SimpleTerm;
use sophia::jsonld::{JsonLdParser, JsonLdSerializer};
use sophia::turtle::parser::nq;

type Q = ([SimpleTerm<'static>; 3], Option<SimpleTerm<'static>>);

fn roundtrip(src: &str) -> (usize, usize, String) {
    let d: Vec<Q> = nq::parse_str(src).collect_quads().unwrap();
    let mut ser = JsonLdSerializer::new_stringifier();
    ser.serialize_dataset(&d).unwrap();
    let txt = ser.to_string();
    let d2: Vec<Q> = JsonLdParser::new().parse_str(&txt).collect_quads().unwrap();
    (d.len(), d2.len(), txt)
}

#[test]
fn list_label_also_subject_in_another_graph() {
    let (n1, n2, txt) = roundtrip(r#"
<tag:s> <tag:p> _:l <tag:g1> .
_:l <http://www.w3.org/1999/02/22-rdf-syntax-ns#first> "a" <tag:g1> .
_:l <http://www.w3.org/1999/02/22-rdf-syntax-ns#rest> <http://www.w3.org/1999/02/22-rdf-syntax-ns#nil> <tag:g1> .
_:l <tag:q> "other graph" <tag:g2> .
"#);
    assert_eq!(n1, n2, "{txt}");
}
#[test]
fn self_containing_list() {
    let (n1, n2, txt) = roundtrip(r#"
<tag:s> <tag:p> _:l .
_:l <http://www.w3.org/1999/02/22-rdf-syntax-ns#first> _:l .
_:l <http://www.w3.org/1999/02/22-rdf-syntax-ns#rest> <http://www.w3.org/1999/02/22-rdf-syntax-ns#nil> .
"#);
    assert_eq!(n1, n2, "{txt}");
}
