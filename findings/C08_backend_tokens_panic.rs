use sophia::api::prelude::*;
use sophia::api::term::SimpleTerm;
use std::panic::catch_unwind;

fn turtle(doc: &'static str) -> Result<usize, String> {
    let r = catch_unwind(move || {
        let mut n = 0;
        let res = sophia::turtle::parser::turtle::parse_str(doc).for_each_triple(|t| {
            let _s: [SimpleTerm; 3] = [t.s().into_term(), t.p().into_term(), t.o().into_term()];
            n += 1;
        });
        (n, res.is_ok())
    });
    match r { Ok((n, _)) => Ok(n), Err(_) => Err("PANIC".into()) }
}
fn xml(doc: &'static str) -> Result<usize, String> {
    let r = catch_unwind(move || {
        let mut n = 0;
        let res = sophia::xml::parser::parse_str(doc).for_each_triple(|t| {
            let _s: [SimpleTerm; 3] = [t.s().into_term(), t.p().into_term(), t.o().into_term()];
            n += 1;
        });
        (n, res.is_ok())
    });
    match r { Ok((n, _)) => Ok(n), Err(_) => Err("PANIC".into()) }
}
#[test]
fn turtle_trailing_dot_label() {
    assert!(turtle("<a:s> <a:p> _:a.\u{D7}").is_ok());
}
#[test]
fn xml_node_id_with_trailing_dot() {
    assert!(xml(r#"<rdf:RDF xmlns:rdf="http://www.w3.org/1999/02/22-rdf-syntax-ns#" xmlns:e="http://e/"><rdf:Description rdf:nodeID="a."><e:p>x</e:p></rdf:Description></rdf:RDF>"#).is_ok());
}
#[test]
fn xml_invalid_namespace_iri() {
    assert!(xml(r#"<rdf:RDF xmlns:rdf="http://www.w3.org/1999/02/22-rdf-syntax-ns#" xmlns:z="not an iri "><rdf:Description rdf:about="http://e/s"><z:p>x</z:p></rdf:Description></rdf:RDF>"#).is_ok());
}
