//! Hunt C12 / 5 -- the `rdf:type rdf:List` triple of a typed list node is dropped.
//!
//! Drop into `sophia/tests/hunt_C12_5.rs` and run
//! `cargo test -p sophia --features jsonld --test hunt_C12_5 --offline`
//!
//! Property C12: "no quad is dropped or duplicated and list compaction never changes meaning",
//! for rdf:first/rest chains that are (among others) "typed rdf:List".
//!
//! `is_list_node` accepts a node with three keys when the third one is `@type: [rdf:List]`
//! (as the W3C "Serialize RDF as JSON-LD" algorithm does), the node is folded into `@list`,
//! and `@list` has no place for the type: the triple `_:l rdf:type rdf:List` is not in the output
//! (4 quads in, 3 quads out). With `use_rdf_type = true` the key is the IRI of rdf:type instead of
//! `@type`, `is_list_node` fails, and the same dataset round-trips: two "lossless" settings disagree.

use sophia::api::prelude::*;
use sophia::api::quad::Spog;
use sophia::api::term::SimpleTerm;
use sophia::isomorphism::isomorphic_datasets;
use sophia::jsonld::options::ProcessingMode;
use sophia::jsonld::{JsonLdOptions, JsonLdParser, JsonLdStringifier};
use sophia::turtle::parser::nq;
use std::collections::HashSet;

type Ds = HashSet<Spog<SimpleTerm<'static>>>;

const RDF: &str = "http://www.w3.org/1999/02/22-rdf-syntax-ns#";

/// Parse N-Quads (`rdf:` is expanded for readability).
fn load(src: &str) -> Ds {
    let src = src.replace("rdf:", RDF);
    nq::parse_str(&src).collect_quads().unwrap()
}

fn dump(d: &Ds) -> String {
    let mut lines: Vec<String> = d.iter().map(|q| format!("    {q:?}")).collect();
    lines.sort();
    lines.join("\n")
}

/// Serialise `d1` as JSON-LD, parse the result back (same options on both sides),
/// and require the outcome to be isomorphic to `d1` (this is property C12).
fn assert_roundtrip(d1: &Ds, mode: ProcessingMode, use_rdf_type: bool, spaces: u16) {
    let opts = || {
        JsonLdOptions::new()
            .with_processing_mode(mode)
            .with_use_rdf_type(use_rdf_type)
            .with_spaces(spaces)
    };
    let mut ser = JsonLdStringifier::new_stringifier_with_options(opts());
    let json = ser.serialize_dataset(d1).unwrap().to_string();
    let d2: Ds = JsonLdParser::new_with_options(opts())
        .parse_str(&json)
        .collect_quads()
        .unwrap();
    assert!(
        isomorphic_datasets(d1, &d2).unwrap(),
        "round-trip is not isomorphic [{mode:?}, use_rdf_type={use_rdf_type}, spaces={spaces}]\n  input ({} quads):\n{}\n  JSON-LD: {json}\n  parsed back ({} quads):\n{}",
        d1.len(),
        dump(d1),
        d2.len(),
        dump(&d2),
    );
}

/// All the lossless configurations named by the property.
fn assert_roundtrip_everywhere(src: &str) {
    let d1 = load(src);
    for mode in [ProcessingMode::JsonLd1_0, ProcessingMode::JsonLd1_1] {
        for use_rdf_type in [false, true] {
            for spaces in [0, 2] {
                assert_roundtrip(&d1, mode, use_rdf_type, spaces);
            }
        }
    }
}

const TYPED_LIST: &str = r#"
    <tag:s> <tag:p> _:l .
    _:l <rdf:type> <rdf:List> .
    _:l <rdf:first> "a" .
    _:l <rdf:rest> <rdf:nil> .
"#;

/// Expected: 4 quads in, 4 quads out (`_:l a rdf:List` included), in every configuration.
#[test]
fn typed_list_keeps_its_type() {
    assert_roundtrip_everywhere(TYPED_LIST);
}

/// Expected: the same with a longer list in a named graph, one node only being typed.
#[test]
fn partly_typed_list_in_named_graph() {
    assert_roundtrip_everywhere(
        r#"
        <tag:s> <tag:p> _:l1 <tag:g> .
        _:l1 <rdf:first> "a" <tag:g> .
        _:l1 <rdf:rest> _:l2 <tag:g> .
        _:l2 <rdf:type> <rdf:List> <tag:g> .
        _:l2 <rdf:first> "b" <tag:g> .
        _:l2 <rdf:rest> <rdf:nil> <tag:g> .
    "#,
    );
}

/// Control: with use_rdf_type = true the very same dataset round-trips.
#[test]
fn control_use_rdf_type() {
    let d = load(TYPED_LIST);
    assert_roundtrip(&d, ProcessingMode::JsonLd1_0, true, 0);
    assert_roundtrip(&d, ProcessingMode::JsonLd1_1, true, 0);
}
