//! Hunt C20 / 1 -- drop into `api/tests/hunt_C20_1.rs`, run with
//! `cargo test -p sophia_api --test hunt_C20_1 --offline`
//!
//! Property C20: converting a literal to a native type, when it succeeds,
//! returns the value that the literal's lexical form denotes.
//!
//! `f64::try_from_term` accepts xsd:float, but maps the lexical form with
//! `str::parse::<f64>()`, i.e. with the lexical mapping of xsd:double.
//! The value space of xsd:float is the set of IEEE single precision numbers:
//! "16777217"^^xsd:float denotes 16777216, "0.1"^^xsd:float denotes
//! 0.100000001490116..., "1e39"^^xsd:float denotes INF (XSD 1.1, floatingPointRound).
//! The SPARQL engine of the same repository (sparql/src/value.rs) does parse
//! xsd:float with `parse::<f32>()`, so the two siblings disagree on the value.
#![allow(non_snake_case)]

use sophia_api::ns::xsd;
use sophia_api::term::{Term, TryFromTerm};

fn float_value(lex: &str) -> f64 {
    let lit = lex * xsd::float;
    assert_eq!(lit.kind(), sophia_api::term::TermKind::Literal);
    f64::try_from_term(lit).expect("xsd:float is an accepted datatype")
}

/// 2^24 + 1 is not a member of the value space of xsd:float;
/// "16777217"^^xsd:float and "16777216"^^xsd:float are the same value.
#[test]
fn float_16777217_denotes_16777216() {
    assert_eq!(float_value("16777216"), 16777216.0);
    assert_eq!(
        float_value("16777217"),
        16777216.0,
        "\"16777217\"^^xsd:float denotes 16777216 (nearest single precision value)"
    );
}

/// Two lexical forms of the same xsd:float value must convert to the same f64.
#[test]
fn same_float_value_same_result() {
    // both denote the float 0.1f32 (= 0.100000001490116119384765625)
    let a = float_value("0.1");
    let b = float_value("0.100000001490116119384765625");
    assert_eq!(a, b, "both literals denote the single precision value 0.1f32");
    assert_eq!(a, f64::from(0.1_f32));
}

/// Out of range for single precision: the lexical mapping of xsd:float gives INF
/// (and f32::from_str agrees), not a finite number.
#[test]
fn float_1e39_denotes_INF() {
    assert_eq!(float_value("1e39"), f64::INFINITY);
    assert_eq!(float_value("-1e39"), f64::NEG_INFINITY);
    // and values below the smallest subnormal float denote zero
    assert_eq!(float_value("1e-60"), 0.0);
}
