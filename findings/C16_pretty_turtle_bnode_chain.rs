use sophia_api::prelude::*;
use sophia_api::term::{BnodeId, SimpleTerm};
use sophia_turtle::serializer::turtle::{TurtleConfig, TurtleSerializer};

fn chain(n: usize) -> Vec<[SimpleTerm<'static>; 3]> {
    let p: SimpleTerm = Iri::new_unchecked("tag:p").into_term();
    let mut g = Vec::with_capacity(n);
    for i in 0..n {
        let s = SimpleTerm::BlankNode(BnodeId::new_unchecked(format!("b{i}").into()));
        let o = SimpleTerm::BlankNode(BnodeId::new_unchecked(format!("b{}", i + 1).into()));
        g.push([s, p.clone(), o]);
    }
    g
}

#[test]
fn long_blank_node_chain_on_a_2mib_stack() {
    let n: usize = std::env::var("CHAIN").ok().and_then(|v| v.parse().ok()).unwrap_or(20_000);
    let g = chain(n);
    let h = std::thread::Builder::new().stack_size(2 * 1024 * 1024).spawn(move || {
        let mut ser = TurtleSerializer::new_stringifier_with_config(TurtleConfig::new().with_pretty(true));
        ser.serialize_graph(&g).unwrap();
        ser.to_string().len()
    }).unwrap();
    let len = h.join().unwrap();
    assert!(len > 0);
}
