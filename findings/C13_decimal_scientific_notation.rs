//! C13 / hunt2 / 1 -- computed numeric values are serialized with lexical forms
//! that are outside the lexical space of their XSD datatype.
//!
//! Drop into `sparql/tests/hunt_C13_1.rs`, run with
//! `cargo test -p sophia_sparql --test hunt_C13_1 --offline`.
//!
//! `SparqlValue::lexical_form` (sparql/src/value.rs) uses
//!   * `BigDecimal::to_string()` for xsd:decimal, which switches to scientific notation
//!     ("1E-7") as soon as the value has more than 5 leading fractional zeros;
//!     the lexical space of xsd:decimal has no exponent
//!     (https://www.w3.org/TR/xmlschema11-2/#decimal);
//!   * `format!("{d:e}")` for xsd:double / xsd:float, which yields "inf" / "-inf";
//!     the XSD lexical forms are "INF" / "-INF"
//!     (https://www.w3.org/TR/xmlschema11-2/#double).
//! The solutions of BIND / SELECT expressions (and STR() of them) therefore contain
//! ill-formed literals instead of the value required by the SPARQL algebra.

use sophia_api::prelude::*;
use sophia_api::sparql::Query;
use sophia_api::term::SimpleTerm;
use sophia_sparql::*;

const XSD: &str = "http://www.w3.org/2001/XMLSchema#";

/// Evaluate `SELECT ?x { BIND(<expr> AS ?x) }` on an empty dataset,
/// and return (lexical form, datatype) of ?x in the single solution.
fn eval(expr: &str) -> (String, String) {
    let dataset: Vec<([SimpleTerm<'static>; 3], Option<SimpleTerm<'static>>)> = vec![];
    let dataset = SparqlWrapper(&dataset);
    let query = SparqlQuery::parse(&format!(
        "PREFIX xsd: <{XSD}> SELECT ?x {{ BIND({expr} AS ?x) }}"
    ))
    .unwrap();
    let rows: Vec<_> = dataset
        .query(&query)
        .unwrap()
        .into_bindings()
        .into_iter()
        .collect::<Result<_, _>>()
        .unwrap();
    assert_eq!(rows.len(), 1);
    let x = rows[0][0].as_ref().expect("?x should be bound");
    (
        x.lexical_form().unwrap().to_string(),
        x.datatype().unwrap().to_string(),
    )
}

/// True iff `lex` is in the lexical space of xsd:decimal: (+|-)?([0-9]+(\.[0-9]*)?|\.[0-9]+)
fn is_xsd_decimal(lex: &str) -> bool {
    let s = lex.strip_prefix(['+', '-']).unwrap_or(lex);
    let (int, frac) = s.split_once('.').unwrap_or((s, ""));
    !(int.is_empty() && frac.is_empty())
        && int.bytes().all(|b| b.is_ascii_digit())
        && frac.bytes().all(|b| b.is_ascii_digit())
}

#[test]
fn small_decimal_quotient() {
    // expected: 1/10000000 is the xsd:decimal 0.0000001 (op:numeric-divide on integers returns a decimal)
    let (lex, dt) = eval("1/10000000");
    assert_eq!(dt, format!("{XSD}decimal"));
    assert!(
        is_xsd_decimal(&lex),
        "{lex:?} is not a lexical form of xsd:decimal (expected \"0.0000001\")"
    );
}

#[test]
fn small_decimal_product() {
    // expected: "0.0000001"^^xsd:decimal
    let (lex, dt) = eval("0.5 * 0.0000002");
    assert_eq!(dt, format!("{XSD}decimal"));
    assert!(is_xsd_decimal(&lex), "{lex:?} is not a lexical form of xsd:decimal");
}

#[test]
fn seconds_of_a_date_time() {
    // expected: SECONDS returns the xsd:decimal 0.0000001
    let (lex, dt) = eval("SECONDS(\"2020-01-01T00:00:00.0000001Z\"^^xsd:dateTime)");
    assert_eq!(dt, format!("{XSD}decimal"));
    assert!(is_xsd_decimal(&lex), "{lex:?} is not a lexical form of xsd:decimal");
}

#[test]
fn str_of_small_decimal() {
    // expected: STR(0.0000001) = "0.0000001" (whatever way the decimal was computed)
    let (lex, dt) = eval("STR(0.0000001 + 0)");
    assert_eq!(dt, format!("{XSD}string"));
    assert_eq!(lex, "0.0000001");
}

#[test]
fn positive_infinity() {
    // expected: 1e0/0 is "INF"^^xsd:double
    let (lex, dt) = eval("1e0/0");
    assert_eq!(dt, format!("{XSD}double"));
    assert_eq!(lex, "INF");
}

#[test]
fn negative_infinity_float() {
    // expected: "-INF"^^xsd:float
    let (lex, dt) = eval("\"-1\"^^xsd:float/0");
    assert_eq!(dt, format!("{XSD}float"));
    assert_eq!(lex, "-INF");
}
