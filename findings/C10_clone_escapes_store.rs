//! Known finding property=C10 key=E4@c10_clone_escape: safe code obtains a SimpleTerm<'static> that dangles.
use sophia_api::term::{SimpleTerm, Term};
use sophia_inmem::index::{SimpleTermIndex, TermIndex};
#[test]
fn clone_of_borrowed_term_outlives_the_index() {
    let t: SimpleTerm<'static> = {
        let mut idx = SimpleTermIndex::<u32>::new();
        let i = idx.ensure_index("a long enough literal to be heap allocated").unwrap();
        idx.get_term(i).clone()
    };
    println!("MIRI-OUT {:?}", t.lexical_form());
}
