//! Property C10 (last sentence): "no sequence of safe API calls on these stores [...] leads to
//! undefined behaviour".
//!
//! `GenericFastDataset<TI>` / `GenericLightDataset<TI>` are public and generic over the *safe*
//! public trait `GraphNameIndex`. Their matching iterators (inmem/src/dataset/_iter.rs,
//! `BcdMatchingIterator::boxed` and `CdMatchingIterator::boxed`) call
//! `Option::unwrap_unchecked()` on the subject/predicate/object obtained through
//! `TI::get_graph_name(i)`, trusting the (documentation-only) contract that
//! `get_default_graph_index()` "is never returned by get_index or ensure_index".
//! The only guard is a `debug_assert!`, which is compiled out in release builds.
//!
//! So a 100% safe (if sloppy) implementation of `GraphNameIndex` -- here: "index 0 is the
//! default graph", a very natural choice, on top of `SimpleTermIndex` which numbers terms
//! from 0 -- makes a plain `quads_matching` call execute `unwrap_unchecked(None)`:
//! undefined behaviour reached from safe code only.
//!
//! Drop into `inmem/tests/hunt_C10_1.rs`, run with
//!   cargo test -p sophia_inmem --test hunt_C10_1 --offline --release
//! (in a debug build the `debug_assert!` panics first, which is a *defined* outcome; the tests
//! accept a panic, so they pass in debug and pass once `unwrap_unchecked` is replaced by a
//! checked `expect`).
//!
//! EXPECTED (property): whatever a safe `GraphNameIndex` does, a safe call on the store either
//! panics / returns an error, or yields well-formed quads (three valid term references).
//! OBSERVED (release, stable 1.98): `unwrap_unchecked(None)` is executed; the NULL that encodes
//! `Option<&SimpleTerm>::None` is used as the subject reference, lands in the niche that
//! `Result<(Option<&T>, [&T; 3]), TermIndexFullError>` uses for `Err`, and the iterator yields
//! a fabricated `Err(TermIndexFullError)` although nothing ever constructed such an error
//! (with other inlining decisions it would be a NULL `&SimpleTerm` handed to the caller).
//! Under Miri (`cargo +nightly miri test -p sophia_inmem --test hunt_C10_1 --release`):
//! "Undefined Behavior: entering unreachable code" at inmem/src/dataset/_iter.rs:166.

use sophia_api::dataset::{Dataset, MutableDataset};
use sophia_api::ns::Namespace;
use sophia_api::quad::Quad;
use sophia_api::term::matcher::Any;
use sophia_api::term::{SimpleTerm, Term};
use sophia_inmem::dataset::{GenericFastDataset, GenericLightDataset};
use sophia_inmem::index::{GraphNameIndex, SimpleTermIndex, TermIndex, TermIndexFullError};
use std::panic::{AssertUnwindSafe, catch_unwind};

/// A term index written with safe code only.
/// It delegates everything to `SimpleTermIndex<u32>`, but reserves 0 (instead of `u32::MAX`)
/// for the default graph -- forgetting that the inner index numbers its terms from 0.
#[derive(Default)]
struct ZeroIsDefaultGraph(SimpleTermIndex<u32>);

impl TermIndex for ZeroIsDefaultGraph {
    type Term = SimpleTerm<'static>;
    type Index = u32;
    type Error = TermIndexFullError;

    fn get_index<T: Term>(&self, t: T) -> Option<u32> {
        self.0.get_index(t)
    }
    fn ensure_index<T: Term>(&mut self, t: T) -> Result<u32, TermIndexFullError> {
        self.0.ensure_index(t)
    }
    fn get_term(&self, i: u32) -> &SimpleTerm<'static> {
        self.0.get_term(i)
    }
}

impl GraphNameIndex for ZeroIsDefaultGraph {
    fn get_default_graph_index(&self) -> u32 {
        0
    }
}

/// Evaluates to Ok(()) if the behaviour was *defined*: a clean panic inside `quads_matching` /
/// the iterator, or only well-formed `Ok(quad)` items.
///
/// NB: `quads_matching` on these stores never calls `ensure_index`, so no code path can
/// legitimately construct the `Err(TermIndexFullError)` item observed in release builds:
/// it is the NULL subject reference landing in the niche that `Result` uses for `Err`.
macro_rules! check {
    ($d:expr, $s:expr, $g:expr) => {{
        let (d, s, g): (_, &SimpleTerm, Option<&SimpleTerm>) = ($d, $s, $g);
        let outcome = catch_unwind(AssertUnwindSafe(|| {
            let mut seen: Vec<Result<usize, String>> = vec![];
            let it = match g {
                // all quads with subject s, in any graph
                None => d.quads_matching([s], Any, Any, Any),
                // all quads with subject s in graph g
                Some(g) => d.quads_matching([s], Any, Any, [Some(g)]),
            };
            for q in it {
                seen.push(match q {
                    Ok(q) => {
                        let subject: &SimpleTerm<'static> = q.s();
                        Ok(subject as *const SimpleTerm as usize)
                    }
                    Err(e) => Err(format!("{e:?}")),
                });
            }
            seen
        }));
        match outcome {
            Err(_) => Ok(()), // a regular panic is a defined outcome
            Ok(items) => {
                eprintln!("items yielded: {items:x?}");
                // black_box, because the optimizer may assume that a reference is never null
                if items
                    .iter()
                    .any(|i| matches!(i, Ok(a) if std::hint::black_box(*a) == 0))
                {
                    Err(format!(
                        "safe code obtained a NULL `&SimpleTerm` as the subject of a quad: {items:x?}"
                    ))
                } else if items.iter().any(|i| i.is_err()) {
                    Err(format!(
                        "the iterator yielded an error that no code path constructs (the NULL subject \
                         reinterpreted through the niche of Result): {items:x?}"
                    ))
                } else {
                    Ok(())
                }
            }
        }
    }};
}

#[test]
fn fast_dataset_with_safe_custom_index_must_not_reach_ub() {
    let ex = Namespace::new_unchecked("http://example.org/");
    let (s, p, o, g): (SimpleTerm, SimpleTerm, SimpleTerm, SimpleTerm) = (
        ex.get_unchecked("s").into_term(),
        ex.get_unchecked("p").into_term(),
        ex.get_unchecked("o").into_term(),
        ex.get_unchecked("g").into_term(),
    );
    let mut d = GenericFastDataset::<ZeroIsDefaultGraph>::new();
    d.insert(&s, &p, &o, Some(&g)).unwrap(); // s gets index 0
    // (None, Some(si), None, None) => BcdMatchingIterator over SPOG, subject taken from `a`
    let res: Result<(), String> = check!(&d, &s, None);
    res.unwrap();
}

#[test]
fn light_dataset_with_safe_custom_index_must_not_reach_ub() {
    let ex = Namespace::new_unchecked("http://example.org/");
    let (s, p, o, g): (SimpleTerm, SimpleTerm, SimpleTerm, SimpleTerm) = (
        ex.get_unchecked("s").into_term(),
        ex.get_unchecked("p").into_term(),
        ex.get_unchecked("o").into_term(),
        ex.get_unchecked("g").into_term(),
    );
    let mut d = GenericLightDataset::<ZeroIsDefaultGraph>::new();
    d.insert(&s, &p, &o, Some(&g)).unwrap(); // s gets index 0
    // constant graph + constant subject => CdMatchingIterator over GSPO, subject taken from `b`
    let res: Result<(), String> = check!(&d, &s, Some(&g));
    res.unwrap();
}
