use sophia_api::prelude::*;
use sophia_api::term::SimpleTerm;
use sophia_turtle::parser::turtle;
use sophia_turtle::serializer::turtle::{TurtleConfig, TurtleSerializer};

fn roundtrip(src: &str) -> (usize, usize, String) {
    let g: Vec<[SimpleTerm<'static>; 3]> = turtle::parse_str(src).collect_triples().unwrap();
    let mut ser = TurtleSerializer::new_stringifier_with_config(TurtleConfig::new().with_pretty(true));
    ser.serialize_graph(&g).unwrap();
    let txt = ser.to_string();
    let g2: Vec<[SimpleTerm<'static>; 3]> = turtle::parse_str(&txt).collect_triples().expect("parses back");
    (g.len(), g2.len(), txt)
}

#[test]
fn two_rest_arcs() {
    let (n1, n2, txt) = roundtrip(r#"
        @prefix rdf: <http://www.w3.org/1999/02/22-rdf-syntax-ns#>.
        <tag:s> <tag:p> _:l .
        _:l rdf:first 1 ; rdf:rest _:x, rdf:nil .
        _:x rdf:first 2 ; rdf:rest rdf:nil .
    "#);
    assert_eq!(n1, n2, "{txt}");
}
#[test]
fn no_rest_arc() {
    let (n1, n2, txt) = roundtrip(r#"
        @prefix rdf: <http://www.w3.org/1999/02/22-rdf-syntax-ns#>.
        <tag:s> <tag:p> _:l .
        _:l rdf:first 1 .
    "#);
    assert_eq!(n1, n2, "{txt}");
}
