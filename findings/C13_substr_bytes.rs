//! Property C13 - "no query panics" and "FILTER/BIND evaluate the SPARQL functions as specified".
//!
//! Drop this file in `sparql/tests/hunt_C13_1.rs` and run
//! `cargo test -p sophia_sparql --test hunt_C13_1 --offline`.
//!
//! `SUBSTR` (sparql/src/function.rs, `sub_str`) computes *character* positions (as SPARQL 17.4.3.3 /
//! XPath fn:substring require) but then uses them as *byte* offsets in `&lex[s..e]`, and does the
//! position arithmetic in `isize`:
//!  * on any string with a multi-byte character before the cut, the slice falls inside a UTF-8
//!    sequence and the evaluation PANICS ('byte index 1 is not a char boundary'), or silently returns
//!    the wrong characters when the offset happens to be a boundary;
//!  * `starting_loc.round() as isize - 1` and `s_signed + l.round() as isize` overflow for -INF / huge
//!    arguments ('attempt to subtract/add with overflow' in debug builds, wrong result in release builds).
use sophia_api::prelude::*;
use sophia_api::sparql::{Query, SparqlDataset, SparqlResult};
use sophia_inmem::dataset::LightDataset;
use sophia_sparql::{SparqlQuery, SparqlWrapper};

const PROLOGUE: &str = "PREFIX : <tag:> PREFIX xsd: <http://www.w3.org/2001/XMLSchema#> ";

#[allow(dead_code)]
fn dataset(trig: &str) -> LightDataset {
    sophia_turtle::parser::trig::parse_str(&format!("{PROLOGUE}{trig}"))
        .collect_quads()
        .expect("test data must parse")
}

/// Run a SELECT query; every row is rendered as "var=term var=term ..." (UNDEF for unbound),
/// and the rows are sorted, so that the result can be compared as a multiset.
#[allow(dead_code)]
fn select<D: Dataset>(d: &D, query: &str) -> Result<Vec<String>, String> {
    let query = SparqlQuery::parse(&format!("{PROLOGUE}{query}")).map_err(|e| e.to_string())?;
    let res = SparqlWrapper(d).query(&query).map_err(|e| e.to_string())?;
    let SparqlResult::Bindings(bindings) = res else {
        return Err("not a SELECT query".into());
    };
    let vars: Vec<String> = bindings.variables().iter().map(|v| (*v).to_string()).collect();
    let mut rows = vec![];
    for row in bindings {
        let row = row.map_err(|e| e.to_string())?;
        let cells: Vec<String> = vars
            .iter()
            .zip(row.iter())
            .map(|(v, t)| match t {
                Some(t) => format!("{v}={t}"),
                None => format!("{v}=UNDEF"),
            })
            .collect();
        rows.push(cells.join(" "));
    }
    rows.sort();
    Ok(rows)
}

/// Run an ASK query.
#[allow(dead_code)]
fn ask<D: Dataset>(d: &D, query: &str) -> Result<bool, String> {
    let query = SparqlQuery::parse(&format!("{PROLOGUE}{query}")).map_err(|e| e.to_string())?;
    match SparqlWrapper(d).query(&query).map_err(|e| e.to_string())? {
        SparqlResult::Boolean(b) => Ok(b),
        _ => Err("not an ASK query".into()),
    }
}

const DATA: &str = r#":s :q "été", "naïve"@fr, "abc" ."#;

/// Expected (SPARQL 17.4.3.3): positions are counted in characters, so SUBSTR("été", 2) = "té".
/// Observed: panic 'byte index 1 is not a char boundary; it is inside 'é' (bytes 0..2) of `été`'.
#[test]
fn substr2_counts_characters() {
    let d = dataset("");
    assert_eq!(
        select(&d, r#"SELECT (SUBSTR("été", 2) AS ?x) {}"#),
        Ok(vec![r#"x="té"^^<http://www.w3.org/2001/XMLSchema#string>"#.to_string()])
    );
}

/// Expected: SUBSTR("été", 2, 1) = "t". Observed: panic.
#[test]
fn substr3_counts_characters() {
    let d = dataset("");
    assert_eq!(
        select(&d, r#"SELECT (SUBSTR("été", 2, 1) AS ?x) {}"#),
        Ok(vec![r#"x="t"^^<http://www.w3.org/2001/XMLSchema#string>"#.to_string()])
    );
}

/// Expected: the offsets are characters: SUBSTR("éa!", 3) = "!".
/// Observed (no panic this time, byte 2 happens to be a char boundary): "a!".
#[test]
fn substr_wrong_characters_without_panic() {
    let d = dataset("");
    assert_eq!(
        select(&d, r#"SELECT (SUBSTR("éa!", 3) AS ?x) {}"#),
        Ok(vec![r#"x="!"^^<http://www.w3.org/2001/XMLSchema#string>"#.to_string()])
    );
}

/// Expected: a FILTER using SUBSTR over *data* never panics; the rows whose 2nd character is "a"/"b"
/// are kept: "naïve"@fr (SUBSTR = "a"@fr) is not equal to "a", "abc" gives "b".
/// Observed: the whole query panics as soon as it meets "été".
#[test]
fn substr_in_filter_over_non_ascii_data() {
    let d = dataset(DATA);
    assert_eq!(
        select(&d, r#"SELECT ?o { :s :q ?o FILTER(SUBSTR(?o, 2, 1) = "b") }"#),
        Ok(vec![r#"o="abc"^^<http://www.w3.org/2001/XMLSchema#string>"#.to_string()])
    );
}

/// Expected (XPath fn:substring, to which SPARQL defers): characters at positions p with
/// round(start) <= p < round(start) + round(length); with start = -INF this is the empty string
/// (-INF + 1 = -INF). In any case: no panic.
/// Observed: 'attempt to subtract with overflow' (function.rs:382) in debug builds.
#[test]
fn substr_minus_infinity_start() {
    let d = dataset("");
    assert_eq!(
        select(&d, r#"SELECT (SUBSTR("abc", -1e0/0e0, 1) AS ?x) {}"#),
        Ok(vec![r#"x=""^^<http://www.w3.org/2001/XMLSchema#string>"#.to_string()])
    );
}

/// Expected: start beyond the end of the string => "" (and no panic).
/// Observed: 'attempt to add with overflow' (function.rs:384) in debug builds.
#[test]
fn substr_huge_start_and_length() {
    let d = dataset("");
    assert_eq!(
        select(
            &d,
            r#"SELECT (SUBSTR("abc", 9223372036854775807, 9223372036854775807) AS ?x) {}"#
        ),
        Ok(vec![r#"x=""^^<http://www.w3.org/2001/XMLSchema#string>"#.to_string()])
    );
}
