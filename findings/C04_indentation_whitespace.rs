//! C04 hunt, violation 3 -- drop into `turtle/tests/hunt_C04_3.rs`, run with
//! `cargo test -p sophia_turtle --test hunt_C04_3 --offline`
//!
//! `TurtleConfig::with_indentation` documents the precondition
//! "`indentation` must only contain ASCII whitespaces, otherwise this method will panic",
//! but it checks `char::is_whitespace`, i.e. the *Unicode* White_Space property.
//! The white space of Turtle/TriG is only U+0020, U+0009, U+000D and U+000A (production [161s] WS),
//! so 21 accepted characters (U+000B, U+000C, U+0085, U+00A0, U+1680, U+2000..U+200A, U+2028,
//! U+2029, U+202F, U+205F, U+3000) make the pretty serializer emit documents that are not
//! Turtle/TriG and that its own parser rejects.
//!
//! Expected (property C04): for every indentation string accepted by the configuration,
//! the pretty output is a valid document whose parse is isomorphic to the input
//! (or else the indentation is rejected, as documented).

use sophia_api::prelude::*;
use sophia_api::term::SimpleTerm;
use sophia_isomorphism::isomorphic_graphs;
use sophia_turtle::parser::turtle;
use sophia_turtle::serializer::turtle::{TurtleConfig, TurtleSerializer};

type MyGraph = Vec<[SimpleTerm<'static>; 3]>;

fn sample() -> MyGraph {
    turtle::parse_str("<x:s> <x:p> <x:o>, [ <x:q> (1 2) ].")
        .collect_triples()
        .unwrap()
}

/// Either `with_indentation` refuses `indentation` (panics, as documented),
/// or the pretty output must round-trip.
fn check(indentation: &str) -> Result<(), String> {
    let g1 = sample();
    let Ok(config) = std::panic::catch_unwind(|| {
        TurtleConfig::new()
            .with_pretty(true)
            .with_indentation(indentation)
    }) else {
        return Ok(()); // rejected: fine
    };
    let out = TurtleSerializer::new_stringifier_with_config(config)
        .serialize_triples(g1.triples())
        .unwrap()
        .to_string();
    let g2: MyGraph = turtle::parse_str(&out)
        .collect_triples()
        .map_err(|e| format!("indentation {indentation:?} was accepted, but the output is not valid Turtle: {e}\n{out}"))?;
    if isomorphic_graphs(&g1, &g2).unwrap() {
        Ok(())
    } else {
        Err(format!("indentation {indentation:?}: not isomorphic\n{out}"))
    }
}

/// NO-BREAK SPACE, typically pasted from a word processor.
/// Expected: rejected by `with_indentation`, or a valid document.
/// Observed: accepted, and the output fails to parse ("unexpected character '\u{a0}'").
#[test]
fn no_break_space() {
    check("\u{a0}\u{a0}").unwrap();
}

/// FORM FEED is even *ASCII* white space for Rust (`char::is_ascii_whitespace`),
/// but it is not white space for Turtle: checking `is_ascii_whitespace` would not be enough.
#[test]
fn form_feed() {
    check("\u{c}").unwrap();
}

/// OGHAM SPACE MARK is a PN_CHARS_BASE character for Turtle:
/// the indentation becomes the beginning of a prefixed name.
#[test]
fn ogham_space_mark() {
    check("\u{1680}").unwrap();
}

/// Exhaustive: every single-character indentation made of a Unicode white space
/// (the other characters are rejected by `with_indentation`).
/// Expected: no failure. Observed: 21 failures.
#[test]
fn every_unicode_whitespace() {
    let mut failures = vec![];
    for c in (0..=0x10FFFFu32)
        .filter_map(char::from_u32)
        .filter(|c| c.is_whitespace())
    {
        if let Err(msg) = check(&c.to_string()) {
            failures.push(format!("U+{:04X}: {}", c as u32, msg.lines().next().unwrap()));
        }
    }
    assert!(
        failures.is_empty(),
        "{} indentation characters are accepted but produce invalid Turtle:\n{}",
        failures.len(),
        failures.join("\n")
    );
}

/// Control: the four white space characters of Turtle are fine, including line breaks.
#[test]
fn control_turtle_whitespace() {
    for ind in ["", " ", "\t", "\n", "\r", " \t\r\n"] {
        check(ind).unwrap();
    }
}
