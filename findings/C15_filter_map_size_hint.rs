//! Drop into `api/tests/hunt_C15_5.rs`, run with
//! `cargo test -p sophia_api --test hunt_C15_5 --offline`.
//!
//! Property C15 (consumer = anything driving the `Iterator` obtained from
//! `filter_map_triples(..).into_iter()` / `filter_map_items(..).into_iter()`):
//! the consumer sees exactly the items that pass the filter.
//!
//! `FilterMapSourceIterator::size_hint` forwards the size hint of the *unfiltered* source,
//! lower bound included, so it promises items that the filter is going to drop
//! (`Iterator::size_hint`: "the first element is the lower bound [...] it is a bug if the iterator
//! yields fewer elements"). The `Source` face of the same adapter
//! (`FilterMapSource::size_hint_items`) correctly answers `(0, upper)`.
//! NB: sophia's own `Vec`/`HashSet` collectors trust that lower bound for pre-allocation
//! when the iterator is used as a source again.

use sophia_api::source::{IntoSource, Source, TripleSource};

fn triples() -> Vec<[i32; 3]> {
    (0..10).map(|i| [i, i, i]).collect()
}

/// Expected: lower bound <= number of items actually yielded (1 here), as for
/// `std::iter::FilterMap` whose size_hint is (0, Some(10)).
#[test]
fn filter_map_iterator_lower_bound_is_a_lower_bound() {
    let it = triples()
        .into_iter()
        .into_source()
        .filter_map_triples(|[s, _, _]| (s == 7).then_some(s))
        .into_iter();
    let (lower, upper) = it.size_hint();
    let yielded = it.map(Result::unwrap).collect::<Vec<_>>();
    assert_eq!(yielded, vec![7]);
    assert_eq!(upper, Some(10));
    assert!(
        lower <= yielded.len(),
        "size_hint() promised at least {lower} items, the iterator yielded {}",
        yielded.len()
    );
}

/// Control: the Source face of the same adapter gives (0, Some(10)).
#[test]
fn control_filter_map_source_hint() {
    let src = triples()
        .into_iter()
        .into_source()
        .filter_map_items(|[s, _, _]| (s == 7).then_some(s));
    assert_eq!(src.size_hint_items(), (0, Some(10)));
}
