//! C07 hunt, violation 1 -- drop into `isomorphism/tests/hunt_C07_1.rs`, run with
//! `cargo test -p sophia_isomorphism --test hunt_C07_1 --offline`
//!
//! Property C07: comparing any graph with itself, or with a copy whose blank nodes are renamed
//! by a bijection and whose triples are reordered, must answer `true`.
//!
//! Observed: for the 18-triple graph below `isomorphic_graphs` never answers at all: the
//! refinement loop of `isomorphic_datasets` spins forever.
//!
//! Why: `make_map` combines the per-quad hashes of a blank node with XOR, so two quads that hash
//! alike (`_:x :p _:y1` and `_:x :p _:y2` while y1 and y2 still have the same colour) cancel each
//! other, and a node all of whose quads pair up gets colour 0 whatever its previous colour was.
//! Nodes that were already told apart are thus merged again, the partition is not monotonically
//! refined, and on this graph it oscillates with period 2 between 7 and 6 colour classes.
//! The only exits of the loop are "the number of classes is the same as in the previous round" and
//! "all nodes have distinct colours"; neither ever becomes true.
//!
//! The graph: 4 blank nodes x0..x3 pointing with :p to 5 blank nodes y0..y4 (every x has an even
//! number of :p arcs, every y receives an even number of them), plus a few pairs of leaf blank
//! nodes hung with :q under x0 (two pairs), y0 and y4 (one pair each); the leaves only serve to
//! give the nodes the right initial colours (the initial colour is the number of quads).
use sophia_api::term::{BnodeId, IriRef, SimpleTerm};
use sophia_isomorphism::isomorphic_graphs;
use std::collections::HashSet;
use std::sync::mpsc;
use std::time::Duration;

type MyGraph = Vec<[SimpleTerm<'static>; 3]>;

fn bn(label: String) -> SimpleTerm<'static> {
    SimpleTerm::BlankNode(BnodeId::new_unchecked(label.into()))
}

fn iri(s: &'static str) -> SimpleTerm<'static> {
    SimpleTerm::Iri(IriRef::new_unchecked(s.into()))
}

/// `prefix` is prepended to every blank node label, `rev` reverses the order of the triples.
fn make_graph(prefix: &str, rev: bool) -> MyGraph {
    let p = || iri("http://example.org/p");
    let q = || iri("http://example.org/q");
    let x = |i: usize| bn(format!("{prefix}x{i}"));
    let y = |i: usize| bn(format!("{prefix}y{i}"));
    let leaf = |i: usize| bn(format!("{prefix}leaf{i}"));
    let mut g = vec![
        // the core: _:xi :p _:yj
        [x(0), p(), y(2)],
        [x(0), p(), y(3)],
        [x(1), p(), y(0)],
        [x(1), p(), y(4)],
        [x(2), p(), y(0)],
        [x(2), p(), y(1)],
        [x(2), p(), y(2)],
        [x(2), p(), y(4)],
        [x(3), p(), y(1)],
        [x(3), p(), y(3)],
        // pairs of leaves
        [x(0), q(), leaf(0)],
        [x(0), q(), leaf(1)],
        [x(0), q(), leaf(2)],
        [x(0), q(), leaf(3)],
        [y(0), q(), leaf(4)],
        [y(0), q(), leaf(5)],
        [y(4), q(), leaf(6)],
        [y(4), q(), leaf(7)],
    ];
    if rev {
        g.reverse();
    }
    g
}

/// Runs `f` in a thread; panics if it has not answered after 20 seconds
/// (on a fixed implementation the answer comes in a few milliseconds).
fn answer_of<F: FnOnce() -> bool + Send + 'static>(what: &str, f: F) -> bool {
    let (tx, rx) = mpsc::channel();
    std::thread::spawn(move || {
        let _ = tx.send(f());
    });
    match rx.recv_timeout(Duration::from_secs(20)) {
        Ok(b) => b,
        Err(_) => panic!("{what} has not answered after 20s (endless refinement loop)"),
    }
}

/// Expected: a graph is isomorphic to itself, `Ok(true)`.
#[test]
fn graph_is_isomorphic_to_itself() {
    let g = make_graph("", false);
    let ans = answer_of("isomorphic_graphs(&g, &g)", move || {
        isomorphic_graphs(&g, &g).unwrap()
    });
    assert!(ans, "a graph must be isomorphic to itself");
}

/// Expected: a graph is isomorphic to a relabelled, reordered copy held in another container,
/// `Ok(true)`, and in both directions.
#[test]
fn graph_is_isomorphic_to_relabelled_copy() {
    let g1 = make_graph("", false);
    let g2: HashSet<[SimpleTerm<'static>; 3]> = make_graph("other_", true).into_iter().collect();
    let ans = answer_of("isomorphic_graphs(&g1, &g2) and back", move || {
        isomorphic_graphs(&g1, &g2).unwrap() && isomorphic_graphs(&g2, &g1).unwrap()
    });
    assert!(ans, "a graph must be isomorphic to its relabelled copy");
}
