"""C05 — canonical N-Quads is an isomorphism invariant: order/label independence by construction."""
import re
from core import CheckError
from mirutil import (call_name_matches, provenance, bool_switch, edge_dominates, comes_from_call, const_strs, TRANSPARENT,
                     blocks_with_agg, root_local)

LEVEL = "other"
EXPLANATION = (
    "Decides the order/label-independence-by-construction clauses of C05 from the MIR of sophia_c14n. (R5.1) must-sort: in "
    "hash_first_degree_quads the lines reach the hasher only after the sort of the very vector that is hashed; in "
    "relabel_with (step 5.3) the hash-path list is sorted by hash before identifiers are issued from it; in normalize_with "
    "the relabelled quads are sorted (comparator = cmp_c14n_terms over fixed-length position sequences, so `s p o .` and "
    "`s p o g .` never tie) before anything is written. (R5.2) in nq_for_hash the blank-node branch writes only the "
    "placeholders `_:a ` / `_:z ` (no flow from the label). (R5.3) no HashMap/HashSet anywhere in sophia_c14n (ordered "
    "containers only), so no hash-order iteration. (R5.4) the identifier map applied to the quads in step 6 is the map "
    "returned to the caller. (R5.5) first-degree hashing serialises s, p, o and the graph name when present. (R5.6) the two "
    "places where equal candidates are ordered or chosen (step 5.3 sort key, step 5.4.6 replacement test) are reported when the "
    "key is the hash / path alone: ties there are broken by label order resp. quad order, and equal hashes do not imply "
    "interchangeable nodes once blank graph names are involved (known findings, demonstrated). NOT decided: "
    "the `if and only if` (completeness on symmetric structures, path pruning), adequacy of any tie-break that is added.")


def find(ck, facts, rule, name_re, what):
    fns = facts.find_fns(crate="sophia_c14n", name_re=name_re)
    if len(fns) != 1:
        ck.bad(rule, "%s@%s#anchor" % (rule, what), "anchor-missing: %s (%d)" % (what, len(fns)))
        return None
    return fns[0]


def sort_calls(fn):
    return [(bi, t) for bi, t in fn.calls() if call_name_matches(t, r"slice::<impl \[T\]>::sort\w*$")]


def hash_container_offenders(facts, crate):
    """(functions analysed, [functions with a local / data types with a field of a hash-ordered container type])"""
    n = 0
    offenders = []
    for f in facts.fns.values():
        if f.crate != crate:
            continue
        n += 1
        for l in f.locals:
            if re.search(r"std::collections::(HashMap|HashSet|hash_map|hash_set)", l["ty"]):
                offenders.append(f.name)
                break
    for a in facts.adts.values():
        if a["crate"] == crate:
            for v in a["variants"]:
                for fd in v["fields"]:
                    if re.search(r"std::collections::(HashMap|HashSet)", fd["ty"]):
                        offenders.append(a["name"].split("::")[-1] + "." + fd["name"])
    return n, offenders


def sort_key_shape(facts, fn, sort_term):
    """('hash-only' | 'more' | None): what the step 5.3 sort orders by.  Recognised: `sort*_by_key(|p| p.0)` and
    `sort*_by(|a, b| Ord::cmp(&a.0, &b.0))` (hash-only); a key / comparator involving more than component 0 is 'more'."""
    if len(sort_term["args"]) < 2:
        return None
    clo = fn.origin(sort_term["args"][1])
    cf = facts.fns.get(clo[1]["def"]) if clo[0] == "agg" and clo[1].get("k") == "closure" else None
    if cf is None:
        return None
    name = sort_term["f"]["name"].split("::")[-1]
    if "by_key" in name or "cached_key" in name:
        rets = [st for b in cf.blocks for st in b["s"] if st[0] == "=" and st[1] == [0]]
        only = (len(rets) == 1 and rets[0][2][0] == "use" and rets[0][2][1][0] != "k"
                and [p for p in rets[0][2][1][1][1:] if p != "*"] == ["f0:"] and rets[0][2][1][1][0] == 2 and not list(cf.calls()))
        return "hash-only" if only else "more"
    if name.endswith("_by") or name == "sort_by":
        calls = [t for _, t in cf.calls()]
        if len(calls) == 1 and call_name_matches(calls[0], r"cmp::Ord::cmp$|cmp::PartialOrd::partial_cmp$") and calls[0]["dest"] == [0]:
            projs = []
            for a in calls[0]["args"]:
                o = cf.origin(a)
                projs.append((o[1], [p for p in o[2] if p != "*"]) if o[0] == "param" else None)
            if all(p and p[1] == ["f0:"] for p in projs) and {p[0] for p in projs} == {2, 3}:
                return "hash-only"
        return "more"
    return None


def tie_rule(ck, facts):
    """R5.6: the two places where equal candidates are ordered / chosen.  The anchored mechanism says ties only occur between
    automorphic nodes; that is refuted when a blank node is the graph name of a quad it shares with other blank nodes
    (Hash Related Blank Node keeps only the *position* of the related node): `_:x <p> _:y _:z . _:z <p> _:x _:y . _:y <p> _:z _:x .`
    has equal first- and n-degree hashes and equal paths for all nodes, but its two mirror-image labellings are different
    documents.  A site is reported when the ordering key is the hash / path alone."""
    fn = find(ck, facts, "R5.6", r"^rdfc10::relabel_with$", "relabel_with")
    if fn is not None:
        sorts = sort_calls(fn)
        if len(sorts) != 1 or len(sorts[0][1]["args"]) < 2:
            ck.bad("R5.6", "R5.6@relabel_with#anchor", "anchor-missing: the step 5.3 sort", fn.loc)
        else:
            shape = sort_key_shape(facts, fn, sorts[0][1])
            clo = fn.origin(sorts[0][1]["args"][1])
            cf = facts.fns.get(clo[1]["def"]) if clo[0] == "agg" and clo[1].get("k") == "closure" else None
            if shape is None or cf is None:
                ck.bad("R5.6", "R5.6@relabel_with#anchor", "anchor-missing: the key / comparator closure of the step 5.3 sort", fn.loc)
            else:
                only_hash = shape == "hash-only"
                if only_hash:
                    ck.bad("R5.6", "R5.6@relabel_with#step5.3-ties-keep-label-order", "step 5.3 sorts the (hash, issuer) pairs of a hash group by "
                           "the hash alone: nodes with equal n-degree hashes keep the order of the group's list, which is the order of the "
                           "original labels (b2q is keyed by label), and canonical identifiers are issued in that order. Equal hashes do "
                           "not imply interchangeable nodes when blank nodes share quads with a blank graph name "
                           "(findings/C05_blank_graph_name_ties.rs): relabelling the input changes the canonical document", cf.loc)
                else:
                    ck.ok("R5.6", "step 5.3: the sort key is more than the hash component")
    # the per-permutation closure: the one handed to for_each_permutation_of (closure ordinals shift when a helper closure is added)
    fns = []
    for pf_ in facts.find_fns(crate="sophia_c14n", name_re=r"C14nState::<'_, H, T>::hash_n_degree_quads$"):
        for _, t_ in pf_.calls():
            if call_name_matches(t_, r"for_each_permutation_of$") and len(t_["args"]) > 1:
                o_ = pf_.origin(t_["args"][1])
                if o_[0] == "agg" and o_[1].get("k") == "closure" and o_[1].get("def") in facts.fns:
                    fns.append(facts.fns[o_[1]["def"]])
    if len(fns) != 1:
        ck.bad("R5.6", "R5.6@hash_n_degree_quads#anchor", "anchor-missing: the per-permutation closure (%d)" % len(fns))
        return
    cf = fns[0]
    # R5.7: the list that is permuted must not carry the order in which the dataset yielded its quads
    parents = facts.find_fns(crate="sophia_c14n", name_re=r"C14nState::<'_, H, T>::hash_n_degree_quads$")
    sorted_first = False
    if len(parents) != 1:
        ck.bad("R5.7", "R5.7@hash_n_degree_quads#anchor", "anchor-missing (%d)" % len(parents))
    else:
        pf = parents[0]
        perms = [(bi, t) for bi, t in pf.calls() if call_name_matches(t, r"for_each_permutation_of$")]
        if len(perms) != 1 or not perms[0][1]["args"] or perms[0][1]["args"][0][0] == "k":
            ck.bad("R5.7", "R5.7@hash_n_degree_quads#anchor", "anchor-missing: the call of for_each_permutation_of (%d)" % len(perms), pf.loc)
        else:
            pb, pt = perms[0]
            lst = root_local(pf, pt["args"][0])[0]
            for sb, st in sort_calls(pf):
                if st["args"] and st["args"][0][0] != "k" and root_local(pf, st["args"][0])[0] == lst and pf.dominates(sb, pb):
                    sorted_first = True
            if sorted_first:
                ck.ok("R5.7", "hash_n_degree_quads sorts the list of related blank nodes before permuting it (the first of several equal paths "
                              "does not depend on the order of the dataset's quads)")
            else:
                ck.bad("R5.7", "R5.7@hash_n_degree_quads#permutes-in-quad-order", "the list of related blank nodes is permuted in the order in which "
                       "Dataset::quads() yielded the quads, and the first of several equal paths is kept: `_:n0 <p> _:n1 _:n2 . _:n1 <p> _:n2 "
                       "_:n0 . _:n2 <p> _:n0 _:n1 .` loaded into a HashSet gives two different canonical documents from run to run",
                       "%s:%s" % (pt["file"], pt["line"]))
    cmps = [t for _, t in cf.calls() if call_name_matches(t, r"cmp::PartialOrd::(lt|le|gt|ge|partial_cmp)$|cmp::Ord::cmp$|cmp::PartialEq::(eq|ne)$")
            and "String" in cf.locals[root_local(cf, t["args"][0])[0]]["ty"] + cf.locals[t["args"][0][1][0]]["ty"]]
    names = sorted({(t["f"].get("name") or "").split("::")[-1] for t in cmps})
    if not cmps:
        ck.bad("R5.6", "R5.6@hash_n_degree_quads#anchor", "anchor-missing: the comparison of the candidate path with the chosen path", cf.loc)
    elif names == ["lt"]:
        ck.bad("R5.6", "R5.6@hash_n_degree_quads#step5.4.6-first-permutation-wins", "step 5.4.6 replaces the chosen path only if the new path "
               "is strictly smaller: among permutations with equal paths the first one enumerated wins, and the enumeration follows "
               "%s. Equal paths do not imply equivalent issuers when related blank nodes "
               "occur in rotated positions including the graph name (findings/C05_blank_graph_name_ties.rs): %s changes the canonical document"
               % (("the sorted list of the nodes' identifiers (R5.7)", "a relabelling of the input") if sorted_first else
                  ("the order in which the dataset yields its quads", "the insertion order / the dataset implementation")), cf.loc)
    else:
        ck.ok("R5.6", "step 5.4.6: candidate paths compared with %s" % names)


def run(ck, facts, tier):
    facts.require_crates(["sophia_c14n"])
    # ---- R5.1a
    fn = find(ck, facts, "R5.1", r"^rdfc10::hash_first_degree_quads$", "hash_first_degree_quads")
    if fn is not None:
        sorts = sort_calls(fn)
        ups = [(bi, t) for bi, t in fn.calls() if call_name_matches(t, r"HashFunction>?::update$")]
        if len(sorts) == 1 and ups and all(fn.dominates(sorts[0][0], ub) for ub, _ in ups):
            sl, _ = root_local(fn, sorts[0][1]["args"][0])
            ok = True
            for ub, ut in ups:
                src = provenance(fn, ut["args"][1], transparent=TRANSPARENT + (r"Iterator>?::next$", r"IntoIterator>?::into_iter$"))
                roots = {o[1][0] for o in src if o[0] == "place" and o[1]} | {root_local(fn, ["c", [o[1]["dest"][0]]])[0] for o in src if o[0] == "call"}
                # the hashed line must come from the sorted vector
                it = comes_from_call(fn, ut["args"][1], r"IntoIterator>?::into_iter$", transparent=TRANSPARENT + (r"Iterator>?::next$",))
                if not it or root_local(fn, it[1]["args"][0])[0] != sl:
                    ok = False
            if ok:
                ck.ok("R5.1", "hash_first_degree_quads: lines sorted, then the same vector is hashed")
            else:
                ck.bad("R5.1", "R5.1@hash_first_degree_quads#hashes-unsorted", "the hasher is fed from something other than the sorted vector of lines", fn.loc)
        else:
            ck.bad("R5.1", "R5.1@hash_first_degree_quads#no-sort", "the lines of the first-degree hash are not sorted before hashing (the hash "
                   "would depend on the order in which the dataset enumerates its quads)", fn.loc)
        # R5.5: s, p, o, g all serialised
        roles = set()
        for c in facts.with_closures(fn):
            for _, t in c.calls():
                if call_name_matches(t, r"rdfc10::nq_for_hash$"):
                    src = provenance(c, t["args"][0], transparent=TRANSPARENT)
                    for o in src:
                        if o[0] == "call":
                            m = re.search(r"Quad>?::(s|p|o|g)$", o[1]["f"].get("name") or "")
                            if m:
                                roles.add(m.group(1))
        if roles == {"s", "p", "o", "g"}:
            ck.ok("R5.5", "first-degree hashing serialises s, p, o and g")
        else:
            ck.bad("R5.5", "R5.5@hash_first_degree_quads#components:%s" % ",".join(sorted({"s", "p", "o", "g"} - roles)),
                   "first-degree hashing does not serialise %s: blank nodes that differ only there get the same hash and are then ordered by "
                   "their input labels" % sorted({"s", "p", "o", "g"} - roles), fn.loc)
    # ---- R5.1b
    fn = find(ck, facts, "R5.1", r"^rdfc10::relabel_with$", "relabel_with")
    if fn is not None:
        sorts = sort_calls(fn)
        issues = [(bi, t) for bi, t in fn.calls() if call_name_matches(t, r"BnodeIssuer::issue$")
                  and any(p.endswith(":canonical") for p in root_local(fn, t["args"][0])[1])]
        after = [(bi, t) for bi, t in issues if sorts and bi in fn.reachable(sorts[0][0])]
        if len(sorts) == 1 and after and all(fn.dominates(sorts[0][0], bi) for bi, _ in after):
            ck.ok("R5.1", "relabel_with: hash-path list sorted before canonical identifiers are issued from it (%d issue site(s))" % len(after))
        else:
            ck.bad("R5.1", "R5.1@relabel_with#step5.3-sort", "canonical identifiers of tied blank nodes are issued without first sorting the "
                   "hash-path list by hash (the numbering would follow the input labels)", fn.loc)
        # sorted by the hash component
        if sorts and not call_name_matches(sorts[0][1], r"sort_unstable_by_key$|sort_by_key$|sort_by_cached_key$") \
                and sort_key_shape(facts, fn, sorts[0][1]) is None:
            ck.bad("R5.1", "R5.1@relabel_with#step5.3-key", "step 5.3 does not sort by the hash key", fn.loc)
        # R5.4
        oks = list(blocks_with_agg(fn, "core::result::Result", "Ok"))
        good = False
        for bi, si, dest, ops in oks:
            o = fn.origin(ops[0])
            if o[0] == "agg" and o[1]["k"] == "tuple" and len(o[2]) == 2:
                ml, _ = root_local(fn, o[2][1])
                # the same local is captured by the conversion closure
                for b in fn.blocks:
                    for st in b["s"]:
                        if st[0] == "=" and st[2][0] == "agg" and st[2][1].get("k") == "closure":
                            for op in st[2][2]:
                                if op[0] != "k" and root_local(fn, op)[0] == ml:
                                    cf = facts.fns.get(st[2][1]["def"])
                                    if cf and any(call_name_matches(t, r"BTreeMap::<K, V, A>::get$|BTreeMap::<K, V>::get$") for c in facts.with_closures(cf) for _, t in c.calls()):
                                        good = True
        if good:
            ck.ok("R5.4", "relabel_with: the identifier map used to convert the quads is the one returned")
        else:
            ck.bad("R5.4", "R5.4@relabel_with#id-map", "the returned identifier map is not the map applied to the quads", fn.loc)
    # ---- R5.1c
    fn = find(ck, facts, "R5.1", r"^rdfc10::normalize_with$", "normalize_with")
    if fn is not None:
        sorts = sort_calls(fn)
        writes = [bi for bi, t in fn.calls() if call_name_matches(t, r"io::Write::write_all$")]
        writing = {u.id for u in facts.with_closures(fn)[1:] if any(call_name_matches(t, r"io::Write::write_all$") for _, t in u.calls())}
        for bi, t in fn.calls():            # the writes may sit in a closure handed to an iterator adaptor (try_for_each)
            for a_ in t["args"]:
                if a_[0] != "k":
                    o_ = fn.origin(a_)
                    if o_[0] == "agg" and o_[1].get("def") in writing:
                        writes.append(bi)
        if len(sorts) == 1 and writes and all(fn.dominates(sorts[0][0], w) for w in writes):
            ck.ok("R5.1", "normalize_with: quads sorted before anything is written")
            clo = fn.origin(sorts[0][1]["args"][1]) if len(sorts[0][1]["args"]) > 1 else None
            cf = facts.fns.get(clo[1]["def"]) if clo and clo[0] == "agg" and clo[1].get("k") == "closure" else None
            if cf is None or not any(call_name_matches(t, r"_c14n_term::cmp_c14n_terms$") for _, t in cf.calls()):
                ck.bad("R5.1", "R5.1@normalize_with#comparator", "the final sort does not compare terms by their canonical N-Quads form (cmp_c14n_terms)", fn.loc)
            else:
                zips = [t for _, t in cf.calls() if call_name_matches(t, r"iter::Iterator::zip$")]
                fixed = True
                for z in zips:
                    for a in z["args"][:2]:
                        src = cf.origin(a)
                        callee = facts.fns.get(src[1]["f"].get("res") or "") if src[0] == "call" else None
                        if callee is None:
                            fixed = False
                            continue
                        # the helper must yield a fixed number (4) of positions: spo.into_iter().map(Some).chain(once(g))
                        names = [(t["f"].get("name") or "") for _, t in callee.calls()]
                        if not (any(n.endswith("iter::Iterator::chain") for n in names) and any(n.endswith("iter::once") or n.endswith("once::once") for n in names)):
                            fixed = False
                if zips and fixed:
                    ck.ok("R5.1", "final comparator zips fixed-length (s,p,o,g?) sequences: a default-graph quad never ties with a named-graph quad")
                else:
                    ck.bad("R5.1", "R5.1@normalize_with#variable-length-zip", "the final comparator zips position sequences of different lengths "
                           "(3 for the default graph, 4 otherwise): `s p o .` and `s p o g .` compare Equal and their output order follows the "
                           "input order", cf.loc)
        else:
            ck.bad("R5.1", "R5.1@normalize_with#no-sort", "the canonical quads are written without being sorted first", fn.loc)
    # ---- R5.2
    fn = find(ck, facts, "R5.2", r"^rdfc10::nq_for_hash$", "nq_for_hash")
    if fn is not None:
        sw = None
        for bi, b in enumerate(fn.blocks):
            t = b["t"]
            if t["t"] == "switch" and (t.get("variants") or {}).get("enum") == "core::option::Option":
                src = comes_from_call(fn, t["on"], r"Term>?::bnode_id$") if False else None
                o = fn.origin(t["on"])
                if o[0] == "rvalue" and o[1][0] == "discr":
                    sd = fn.single_def(o[1][1][0])
                    if sd and sd[2][0] == "call" and call_name_matches(sd[2][1], r"Term>?::bnode_id$"):
                        names = t["variants"]["names"]
                        vals = dict((names.get(v, v), tb) for v, tb in t["vals"])
                        sw = (bi, vals.get("Some", t["else"]), vals.get("None", t["else"]))
        if sw is None:
            ck.bad("R5.2", "R5.2@nq_for_hash#shape", "nq_for_hash does not branch on bnode_id()", fn.loc)
        else:
            bi, some_t, none_t = sw
            region = fn.reachable(some_t, avoid={none_t}) - fn.reachable(none_t, avoid={some_t})
            pushed = []
            bad = False
            for rb in region:
                t = fn.blocks[rb]["t"]
                if t["t"] == "call" and call_name_matches(t, r"String::push_str$|String::push$|fmt::Write|_cnq::nq$"):
                    o = fn.origin(t["args"][1]) if len(t["args"]) > 1 else ("?",)
                    if o[0] == "const" and o[1].get("kind") == "str":
                        pushed.append(o[1]["v"])
                    else:
                        bad = True
            if not bad and sorted(pushed) == ["_:a ", "_:z "]:
                ck.ok("R5.2", "nq_for_hash: blank nodes are written as the placeholders `_:a ` / `_:z ` only")
            else:
                ck.bad("R5.2", "R5.2@nq_for_hash#placeholders", "the blank-node branch of nq_for_hash writes %s%s instead of exactly the "
                       "placeholders `_:a ` / `_:z `: the first-degree hash would depend on labels" % (pushed, " and non-constant data" if bad else ""), fn.loc)
    tie_rule(ck, facts)
    # ---- R5.3
    import core
    fo = hash_container_offenders(core.fixture_facts(), "vfix")[1]
    ck.control("R5.3", "pos_hash_iteration", "pos_hash_iteration" in fo)
    ck.control("R5.3", "PosLaundering.owner (HashMap field)", "PosLaundering.owner" in fo)
    ck.control("R5.3", "neg_ordered_iteration", "neg_ordered_iteration" in fo, expect=False)
    n, offenders = hash_container_offenders(facts, "sophia_c14n")
    if offenders:
        ck.bad("R5.3", "R5.3@sophia_c14n#hash-containers:%s" % offenders[0], "hash-ordered containers in the canonicalisation code (%s): "
               "iteration order would leak into identifiers or output" % sorted(set(offenders))[:4], None)
    else:
        ck.ok("R5.3", "no HashMap/HashSet in %d functions and the data types of sophia_c14n" % n)
    ck.floor("R5.3", "functions of sophia_c14n", n, 40)
    ck.assumptions = ["BTreeMap iteration is ordered by key; sort_unstable is a correct sort", "completeness (the `only if` direction) is not decided"]
    ck.trusted = ["rustc MIR"]
