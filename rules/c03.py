"""C03 — N-Triples / N-Quads round trip: the writer's tables against the N-Quads grammar."""
import re
import grammars as G
from core import Relang, CheckError, Finding
from mirutil import (call_name_matches, provenance, bool_switch, edge_dominates, comes_from_call, const_bytes_of,
                     enumerate_paths, eval_pure, patterns_by_owner, union_pattern, TRANSPARENT)

LEVEL = "proof"
EXPLANATION = (
    "Decides the writer-side clauses of C03. (R3.1) the escape decision of nt::quoted_string is evaluated as a pure "
    "function of the byte for all 256 byte values (its control depends on the byte only through comparisons with "
    "constants): the set of escaped bytes must contain LF, CR, '\"' and '\\', must coincide with the arms of the "
    "escape switch, and every arm must write the ECHAR/UCHAR that the N-Triples grammar decodes back to that byte; "
    "everything else written is a slice of the input. (R3.2) the emission template of nt::write_term / write_triple / "
    "the nq closure is extracted per term kind from all success paths and compared with the N-Quads productions "
    "(`<iri>`, `_:label`, `\"lex\"`, `\"lex\"@tag`, `\"lex\"^^<dt>` iff dt != xsd:string, `<<s p o>>`, graph name only "
    "for named graphs, exactly one ` .\\n`-terminator per statement). (R3.1c) a byte selected for escaping always reaches the escape switch before Ok is returned or the next round starts (it is never dropped, e.g. as last byte). (R3.4) the writer never refuses a term: in nt.rs/nq.rs an io::Error is only ever constructed around the error it re-wraps. (L3.3, proof) what is written raw is legal raw: "
    "the validators' languages are included in IRIREF / BLANK_NODE_LABEL (no trailing '.') / LANGTAG, none contains "
    "CR/LF. NOT decided: equality of the re-parsed dataset with the input (needs the parser); rio_turtle is trusted "
    "to implement the W3C N-Triples/N-Quads grammar.")

ECHAR = {9: "\\t", 8: "\\b", 10: "\\n", 13: "\\r", 12: "\\f", 34: "\\\"", 39: "\\'", 92: "\\\\"}
MUST_ESCAPE = {10, 13, 34, 92}


def decodes_to(const, byte):
    if ECHAR.get(byte) == const:
        return True
    m = re.match(r"^\\u([0-9A-Fa-f]{4})$|^\\U([0-9A-Fa-f]{8})$", const)
    if m:
        return int(m.group(1) or m.group(2), 16) == byte
    return False


def is_input_slice(fn, operand, param, visiting):
    """the operand denotes (a sub-slice of) the function's parameter `param`, possibly through a local that is
    re-assigned to a sub-slice of itself (loop over the remainder)"""
    if operand[0] == "k":
        return False
    local = operand[1][0]
    if local == param:
        return True
    if local in visiting:
        return True          # cyclic definition through the loop variable itself
    visiting = visiting | {local}
    defs = [d for d in fn.defs().get(local, []) if not fn.blocks[d[0]].get("cleanup")]
    if not defs:
        return False
    for bi, si, rv in defs:
        if rv[0] == "use":
            if not is_input_slice(fn, rv[1], param, visiting):
                return False
        elif rv[0] in ("ref", "cfd"):
            pl = rv[2] if rv[0] == "ref" else rv[1]
            if not is_input_slice(fn, ["c", pl], param, visiting):
                return False
        elif rv[0] == "cast" and rv[1].startswith("PointerCoercion"):
            if not is_input_slice(fn, rv[2], param, visiting):
                return False
        elif rv[0] == "call":
            t = rv[1]
            if call_name_matches(t, r"ops::Index<.*>::index$|ops::Index<I> for \[T\]>::index$") or \
                    call_name_matches(t, r"ops::Deref>?::deref$|::as_bytes$|::as_ref$"):
                if not is_input_slice(fn, t["args"][0], param, visiting):
                    return False
            else:
                return False
        else:
            return False
    return True


def quoted_string_rule(ck, facts):
    fns = facts.find_fns(crate="sophia_turtle", name_re=r"serializer::nt::quoted_string$")
    if len(fns) != 1:
        ck.bad("R3.1", "R3.1@quoted_string#anchor", "anchor-missing: nt::quoted_string (%d)" % len(fns))
        return
    fn = fns[0]
    key = "R3.1@quoted_string"
    # the escape switch: a switch over a u8 whose arms write constants
    sw = [(bi, b["t"]) for bi, b in enumerate(fn.blocks) if b["t"]["t"] == "switch" and b["t"].get("ty") == "u8"
          and not b.get("cleanup")]
    if len(sw) != 1:
        ck.bad("R3.1", key + "#switch", "shape not recognised: expected one switch over the escaped byte (found %d)" % len(sw), fn.loc)
        return
    sbi, st = sw[0]
    if st["on"][0] == "k" or len(st["on"][1]) != 1:
        ck.bad("R3.1", key + "#switch-operand", "shape not recognised", fn.loc)
        return
    cutchar = st["on"][1][0]
    arms = {}
    for v, tb in st["vals"]:
        # constants written on the arm before control merges: walk until a block that is reachable from another arm
        consts = []
        b = tb
        for _ in range(12):
            t = fn.blocks[b]["t"]
            if t["t"] == "call" and call_name_matches(t, r"io::Write::write_all$"):
                c = const_bytes_of(fn, t["args"][1])
                consts.append(c)
                break
            if t["t"] == "goto":
                b = t["to"]
                continue
            break
        arms[int(v)] = consts
    other = fn.blocks[st["else"]]["t"]
    else_panics = other["t"] == "call" and other["to"] is None
    # where is cutchar assigned from the scanned byte?
    cut_blocks = {}
    for bi, b in enumerate(fn.blocks):
        for si, s in enumerate(b["s"]):
            if s[0] == "=" and s[1] == [cutchar] and s[2][0] == "use" and s[2][1][0] != "k":
                src = fn.origin(s[2][1])
                cut_blocks[bi] = s[2][1][1][0]
    if not cut_blocks:
        ck.bad("R3.1", key + "#cut", "shape not recognised: the escaped byte is never taken from the input", fn.loc)
        return
    # the scanned byte local: the u8 local copied into cutchar (through a temp)
    chr_local = None
    for bi in cut_blocks:
        for s in fn.blocks[bi]["s"]:
            if s[0] == "=" and s[2][0] == "use" and s[2][1][0] in ("c", "m") and len(s[2][1][1]) == 1 \
                    and fn.locals[s[2][1][1][0]]["ty"] == "u8" and fn.locals[s[2][1][1][0]].get("name"):
                chr_local = s[2][1][1][0]
    if chr_local is None:
        ck.bad("R3.1", key + "#byte", "shape not recognised: cannot identify the scanned byte", fn.loc)
        return
    sd = fn.single_def(chr_local)
    if sd is None:
        ck.bad("R3.1", key + "#byte-def", "shape not recognised: scanned byte has several definitions", fn.loc)
        return
    dbi, dsi, _ = sd
    cut = set()
    try:
        for v in range(256):
            r = eval_pure(fn, dbi, dsi + 1, {chr_local: v}, lambda b: "cut" if b in cut_blocks else None)
            if r == "cut":
                cut.add(v)
    except CheckError as e:
        ck.bad("R3.1", key + "#decision", str(e), fn.loc)
        return
    escape_reached_rule(ck, fn, sbi, cutchar, cut_blocks)
    ck.extra["escaped_bytes"] = sorted(cut)
    ck.ok("R3.1-domain", "escape decision evaluated for 256/256 byte values: escaped = %s" % sorted(cut))
    missing = MUST_ESCAPE - cut
    if missing:
        ck.bad("R3.1", key + "#not-escaped:%s" % ",".join(str(x) for x in sorted(missing)),
               "byte(s) %s (of LF, CR, '\"', '\\') are written raw inside a quoted literal: the statement is no longer one "
               "well-formed line / the literal changes on re-parse" % sorted(missing), fn.loc)
    for v in sorted(cut):
        if v not in arms:
            ck.bad("R3.1", key + "#no-arm:%d" % v, "byte %d is selected for escaping but has no arm in the escape switch%s"
                   % (v, " (reaches unreachable!(): panic)" if else_panics else ""), fn.loc)
            continue
        cs = arms[v]
        if len(cs) != 1 or cs[0] is None or not decodes_to(cs[0], v):
            ck.bad("R3.1", key + "#wrong-escape:%d" % v, "byte %d is written as %r, which the N-Triples grammar does not decode "
                   "back to it" % (v, cs), fn.loc)
        else:
            ck.ok("R3.1", "byte %d -> %r" % (v, cs[0]))
    # everything else written is a slice of the input
    for bi, t in fn.calls():
        if call_name_matches(t, r"io::Write::write_all$"):
            c = const_bytes_of(fn, t["args"][1])
            if c is not None:
                if not any(c in cs for cs in arms.values()):
                    ck.bad("R3.1", key + "#stray-constant", "constant %r written outside the escape table" % c, "%s:%s" % (t["file"], t["line"]))
                continue
            if not is_input_slice(fn, t["args"][1], 2, set()):
                ck.bad("R3.1", key + "#foreign-bytes", "bytes written that are neither an escape nor a slice of the input",
                       "%s:%s" % (t["file"], t["line"]))
            else:
                ck.ok("R3.1", "raw slice of the input at bb%d" % bi, nontrivial=False)
        elif call_name_matches(t, r"io::Write::write$|write_fmt$|fmt::Write"):
            ck.bad("R3.1", key + "#other-write", "unexpected writer call %s" % t["f"]["name"], "%s:%s" % (t["file"], t["line"]))


def escape_reached_rule(ck, fn, sbi, cutchar, cut_blocks):
    """R3.1c: once the scan has stopped on a byte that needs escaping, the escape switch is reached before the function
    returns successfully or starts the next round: a byte selected for escaping is never silently dropped (in particular
    not when it is the last byte of the string).  Walk of the CFG from the block that records the byte, with the one
    arithmetic fact the code relies on: the recorded position is an index of the slice, hence `pos < slice.len()`."""
    key = "R3.1c@quoted_string"
    for brk in sorted(cut_blocks):
        # the position local: the usize local assigned in the same block
        pos_locals = [st[1][0] for st in fn.blocks[brk]["s"] if st[0] == "=" and len(st[1]) == 1 and fn.locals[st[1][0]]["ty"] == "usize"
                      and fn.locals[st[1][0]].get("name")]
        loop_heads = set()
        for bi, b in enumerate(fn.blocks):
            t = b["t"]
            if t["t"] == "call" and len(t["dest"]) == 1 and t["dest"][0] in pos_locals and bi != brk:
                loop_heads.add(bi)        # `cut = txt.len()` at the top of the next round
        ok_rets = set()
        for bi, b in enumerate(fn.blocks):
            for st in b["s"]:
                if st[0] == "=" and st[1] == [0] and st[2][0] == "agg" and st[2][1].get("vname") == "Ok":
                    ok_rets.add(bi)

        def is_len(op):
            o = fn.origin(op)
            return (o[0] == "call" and call_name_matches(o[1], r"slice::<impl \[T\]>::len$|str>::len$")) or \
                   (o[0] == "rvalue" and o[1][0] in ("len", "ptrmeta", "un") )

        def is_pos(op):
            if op[0] == "k":
                return False
            l = op[1][0]
            for _ in range(6):
                if l in pos_locals:
                    return True
                sd = fn.single_def(l)
                if sd is None or sd[2][0] != "use" or sd[2][1][0] == "k" or len(sd[2][1][1]) != 1:
                    return False
                l = sd[2][1][1][0]
            return False
        escaped = [None]
        seen = set()
        st = [brk]
        while st:
            b = st.pop()
            if b in seen:
                continue
            seen.add(b)
            if b == sbi:
                continue                 # the escape switch: this path is fine
            if b in ok_rets or (b in loop_heads and b != brk):
                escaped[0] = b
                break
            t = fn.blocks[b]["t"]
            if t["t"] == "switch" and t.get("ty") == "bool" and t["on"][0] != "k":
                sd = fn.single_def(t["on"][1][0])
                if sd is not None and sd[2][0] == "bin" and sd[2][1] in ("Lt", "Ge") and is_pos(sd[2][2]) and is_len(sd[2][3]):
                    vals = dict((v, tb) for v, tb in t["vals"])
                    false_t, true_t = (vals["0"], t["else"]) if "0" in vals else (t["else"], vals.get("1"))
                    st.append(true_t if sd[2][1] == "Lt" else false_t)      # pos < len holds
                    continue
            var = t.get("variants") if t["t"] == "switch" else None
            if var and var["enum"] == "core::ops::control_flow::ControlFlow":
                for v, tb in t["vals"]:
                    if var["names"].get(v) == "Continue":
                        st.append(tb)        # error exits (`?`) are not successful returns
                continue
            st.extend(fn.succs(b))
        if escaped[0] is not None:
            ck.bad("R3.1c", key + "#escape-skipped", "after stopping on a byte that needs escaping, quoted_string can %s without passing "
                   "the escape switch: that byte is dropped from the output (e.g. when it is the last byte of the literal)"
                   % ("return Ok" if escaped[0] in ok_rets else "start the next round"), fn.loc)
        else:
            ck.ok("R3.1c", "quoted_string: a byte selected for escaping always reaches the escape switch before Ok / the next round")


ACCESSORS = r"Term::(iri|bnode_id|lexical_form|language_tag|datatype|variable)$"


def emission_token(fn):
    def on_call(t):
        if call_name_matches(t, r"io::Write::write_all$"):
            c = const_bytes_of(fn, t["args"][1])
            if c is not None:
                return c
            src = comes_from_call(fn, t["args"][1], ACCESSORS)
            if src:
                return "{%s}" % src[1]["f"]["name"].split("::")[-1]
            return "{?}"
        if call_name_matches(t, r"serializer::nt::quoted_string$"):
            src = comes_from_call(fn, t["args"][1], ACCESSORS)
            return "{esc:%s}" % (src[1]["f"]["name"].split("::")[-1] if src else "?")
        if call_name_matches(t, r"serializer::nt::write_triple$"):
            return "{triple}"
        if call_name_matches(t, r"serializer::nt::write_term$"):
            o = provenance(fn, t["args"][1], transparent=TRANSPARENT + (r"Triple::(s|p|o)$", r"Quad::(s|p|o|g)$"))
            for x in o:
                if x[0] == "call" and call_name_matches(x[1], r"Triple::(s|p|o)$"):
                    return "{term:%s}" % x[1]["f"]["name"].split("::")[-1]
            return "{term}"
        if call_name_matches(t, r"write_fmt$|io::Write::write$"):
            return "{fmt?}"
        return None
    return on_call


EXPECTED_TERM = {
    "Iri": {"<{iri}>"},
    "BlankNode": {"_:{bnode_id}"},
    "Triple": {"<<{triple}>>"},
    "Variable": {"?{variable}"},
}


def write_term_rule(ck, facts):
    fns = facts.find_fns(crate="sophia_turtle", name_re=r"serializer::nt::write_term$")
    if len(fns) != 1:
        ck.bad("R3.2", "R3.2@write_term#anchor", "anchor-missing: nt::write_term (%d)" % len(fns))
        return
    fn = fns[0]
    key = "R3.2@write_term"
    try:
        paths = enumerate_paths(fn, 0, emission_token(fn))
    except CheckError as e:
        ck.bad("R3.2", key + "#shape", str(e), fn.loc)
        return
    per_kind = {}
    for conds, toks in paths:
        kind = None
        for d, outcome, src in conds:
            if d.endswith("Term::kind"):
                kind = outcome
        per_kind.setdefault(kind, []).append((conds, "".join(toks)))
    kinds = {"Iri", "BlankNode", "Literal", "Triple", "Variable"}
    if set(per_kind) != kinds:
        ck.bad("R3.2", key + "#kinds", "term kinds handled explicitly: %s (expected the five kinds, no catch-all)" % sorted(map(str, per_kind)), fn.loc)
    for k, exp in EXPECTED_TERM.items():
        got = {t for _, t in per_kind.get(k, [])}
        if got == exp:
            ck.ok("R3.2", "%s -> %s" % (k, sorted(got)))
        else:
            ck.bad("R3.2", key + "#template:%s" % k, "%s is written as %s, the N-Quads production is %s" % (k, sorted(got), sorted(exp)), fn.loc)
    lit = per_kind.get("Literal", [])
    seen = set()
    for conds, tpl in lit:
        tag = [o for d, o, s in conds if d.endswith("Term::language_tag")]
        dtne = [(d, o) for d, o, s in conds if re.search(r"PartialEq.*::(ne|eq)$", d)]
        if tag and tag[0] == "Some":
            want = "\"{esc:lexical_form}\"@{language_tag}"
        else:
            # datatype branch: `xsd::string != dt`
            if not dtne:
                ck.bad("R3.2", key + "#literal-datatype-test", "untagged literal written without testing its datatype against xsd:string", fn.loc)
                continue
            d, o = dtne[0]
            is_ne = d.endswith("::ne")
            differs = o if is_ne else (not o)
            want = "\"{esc:lexical_form}\"^^<{datatype}>" if differs else "\"{esc:lexical_form}\""
        seen.add(want)
        if tpl != want:
            ck.bad("R3.2", key + "#template:Literal", "literal written as %s where %s is required (conditions %s)" % (
                tpl, want, [(d.split("::")[-1], o) for d, o, s in conds]), fn.loc)
        else:
            ck.ok("R3.2", "Literal %s" % tpl)
    if len(seen) != 3:
        ck.bad("R3.2", key + "#literal-forms", "expected the three literal forms (tagged, typed, plain), found %s" % sorted(seen), fn.loc)
    # the constant compared with the datatype must be xsd:string
    strs = set()
    for b in fn.blocks:
        for s in b["s"]:
            if s[0] == "=" and s[2][0] == "use" and s[2][1][0] == "k" and s[2][1][1].get("kind") == "static":
                strs.add(s[2][1][1]["def"])
    if strs != {"sophia_api::ns::xsd::string"}:
        ck.bad("R3.2", key + "#xsd-string", "datatype is compared with %s, expected xsd:string only" % sorted(strs), fn.loc)
    # the equality that decides whether the datatype is written is NsTerm::eq: its shape (rule R2.3 of C02) matters here
    import c02
    ne = [f for f in facts.fns.values() if f.name == "<ns::_term::NsTerm<'a> as term::Term>::eq"]
    if len(ne) == 1:
        c02.nsterm_eq_rule(ck, facts, ne[0])
    else:
        ck.bad("R2.3", "R2.3@NsTerm::eq#anchor", "anchor-missing: NsTerm::eq (%d)" % len(ne))
    # write_triple
    fns = facts.find_fns(crate="sophia_turtle", name_re=r"serializer::nt::write_triple$")
    if len(fns) == 1:
        wt = fns[0]
        p = enumerate_paths(wt, 0, emission_token(wt))
        got = {"".join(t) for _, t in p}
        if got == {"{term:s} {term:p} {term:o}"}:
            ck.ok("R3.2", "write_triple -> {s} {p} {o}")
        else:
            ck.bad("R3.2", "R3.2@write_triple#template", "triple written as %s" % sorted(got), wt.loc)
    else:
        ck.bad("R3.2", "R3.2@write_triple#anchor", "anchor-missing: nt::write_triple")


def statement_rule(ck, facts, impl_re, what, want):
    fns = facts.find_fns(crate="sophia_turtle", name_re=impl_re)
    if len(fns) != 1:
        ck.bad("R3.2", "R3.2@%s#anchor" % what, "anchor-missing: %s (%d)" % (what, len(fns)))
        return
    clos = [c for c in facts.with_closures(fns[0])[1:]]
    # the closure that writes
    got = None
    for c in clos:
        try:
            p = enumerate_paths(c, 0, emission_token(c))
        except CheckError:
            continue
        tpls = {"".join(t) for _, t in p if t}
        if tpls:
            got = (c, p)
    if got is None:
        ck.bad("R3.2", "R3.2@%s#closure" % what, "cannot find the statement-writing closure", fns[0].loc)
        return
    c, p = got
    forms = {}
    for conds, toks in p:
        g = [o for d, o, s in conds if d == "switch" or "Option" in str(o) or o in ("Some", "None")]
        forms.setdefault("".join(toks), []).append([(d.split("::")[-1], o) for d, o, s in conds])
    if set(forms) == set(want):
        ck.ok("R3.2", "%s -> %s" % (what, sorted(forms)))
    else:
        ck.bad("R3.2", "R3.2@%s#template" % what, "statements written as %s, expected %s" % (sorted(forms), sorted(want)), c.loc)


def no_refusal_rule(ck, facts, crate="sophia_turtle", file_re=r"turtle/src/serializer/(nt|nq)\.rs$", floor=8):
    """R3.4: the N-Triples / N-Quads writer never refuses a term: every error it returns is the writer's (or the source's).
    In nt.rs / nq.rs an `io::Error` may only be *constructed* around another error (the `map_err` that re-wraps the io
    error of an item); an error built from a message or a constant means some well-formed terms are rejected instead of
    written, which breaks the round trip for exactly those terms."""
    n = 0
    made = 0
    for f in facts.fns.values():
        if f.crate != crate or not re.search(file_re, f.file):
            continue
        n += 1
        for bi, t in f.calls():
            if not call_name_matches(t, r"^std::io::Error::(new|other)$|io::Error::(new|other)$"):
                continue
            made += 1
            payload = t["args"][-1]
            o = provenance(f, payload, transparent=TRANSPARENT + (r"convert::Into<.*>>?::into$", r"convert::From<.*>>?::from$"))[-1]
            wraps = o[0] == "param"
            root = f if f.kind != "Closure" else facts.fns.get(f.root, f)
            if wraps:
                ck.ok("R3.4", "%s: io::Error constructed only around the error it re-wraps" % root.name)
            else:
                ck.bad("R3.4", "R3.4@%s#refusal" % root.name, "%s builds an io::Error of its own (%s): the N-Triples/N-Quads writer "
                       "refuses some terms instead of writing them" % (root.name, o[0]), "%s:%s" % (t["file"], t["line"]))
    ck.floor("R3.4", "functions of the nt/nq serializers", n, floor)
    ck.extra["io_errors_constructed_in_nt_nq"] = made


def run(ck, facts, tier):
    facts.require_crates(["sophia_turtle", "sophia_api", "sophia_iri"])
    import core
    pr = core.Probe()
    no_refusal_rule(pr, core.fixture_facts(), crate="vfix", file_re=r"lib\.rs$", floor=0)
    ck.control("R3.4", "pos_refusing_writer (io::Error built from a message)", pr.fired(r"pos_refusing_writer#refusal$"))
    ck.control("R3.4", "neg_rewrapping_writer (io::Error around the writer's error)", pr.fired(r"neg_rewrapping_writer"), expect=False)
    no_refusal_rule(ck, facts)
    quoted_string_rule(ck, facts)
    write_term_rule(ck, facts)
    statement_rule(ck, facts, r"NtSerializer<W> as .*TripleSerializer>::serialize_triples$", "nt statement", {"{triple}.\n"})
    statement_rule(ck, facts, r"NqSerializer<W> as .*QuadSerializer>::serialize_quads$", "nq statement",
                   {"{triple}.\n", "{triple} {term}.\n"})
    # L3.3
    owners = patterns_by_owner(facts, ["sophia_api", "sophia_iri"])
    rl = Relang()

    def repo_lang(name, owner_suffix):
        hits = [o for o in owners if o.endswith(owner_suffix)]
        if len(hits) != 1:
            ck.bad("L3.3", "L3.3@%s#anchor" % name, "anchor-missing: regex static %s (%d)" % (owner_suffix, len(hits)))
            return None
        rl.lang(name, union_pattern([p["value"] for s in owners[hits[0]] for p in s["patterns"]]))
        return name
    iri = repo_lang("REPO_IRI_REF", "::IRI_REF_REGEX")
    bn = repo_lang("REPO_BNODE_ID", "::BNODE_ID")
    lt = repo_lang("REPO_LANG_TAG", "::LANG_TAG")
    vn = repo_lang("REPO_VARNAME", "::VARNAME")
    rl.lang("NT_IRIREF_BODY", G.anch(G.IRIREF_BODY))
    rl.lang("NT_BLANK_NODE_LABEL", G.anch(G.BLANK_NODE_LABEL_NT))
    rl.lang("TTL_LANGTAG", G.anch(G.LANGTAG_TTL))
    rl.lang("RFC5646", G.anch(G.RFC5646))
    rl.lang("ENDS_WITH_DOT", "(?s)^.*\\.$")
    rl.lang("HAS_DELIM", "(?s)^.*[\\x00-\\x20<>\"].*$")
    if iri:
        rl.subset("L3.3:IRI-reference<=IRIREF-body", iri, "NT_IRIREF_BODY")
    if bn:
        rl.subset("L3.3:BNODE_ID<=BLANK_NODE_LABEL", bn, "NT_BLANK_NODE_LABEL")
        rl.disjoint("L3.3:BNODE_ID-never-ends-with-dot", bn, "ENDS_WITH_DOT")
    if lt:
        rl.empty("L3.3:LANG_TAG&BCP47<=LANGTAG", "& & %s RFC5646 ! TTL_LANGTAG" % lt)
        rl.disjoint("L3.3:LANG_TAG-no-delimiter", lt, "HAS_DELIM")
    if vn:
        rl.disjoint("L3.3:VARNAME-no-delimiter", vn, "HAS_DELIM")
    linfo, res = rl.run()
    for name, info in linfo.items():
        if not info.get("ok"):
            raise CheckError("language %s does not compile: %s" % (name, info.get("error")))
    for oid, r in sorted(res.items()):
        ck.obligation(oid, r["empty"], "" if r["empty"] else "counter-examples %r" % r["witnesses"], witnesses=r["witnesses"],
                      product_states=r["product_states"])
        if not r["empty"]:
            ck.findings.append(Finding("L3.3", "L3.3@" + oid, "language obligation %s fails: %r" % (oid, r["witnesses"])))
    ck.trusted = ["rustc MIR + const eval", "regex-syntax/regex-automata", "N-Triples/N-Quads terminal transcriptions",
                  "rio_turtle's N-Triples/N-Quads readers implement the W3C grammar"]
    ck.assumptions = ["terms handed to the serializer are well-formed (validated wrapper types)",
                      "equality of the re-parsed dataset is not decided"]
